"""F12 (C18): the Jacobian predicted by an RBF model must be the derivative of its own prediction, for every kernel."""
from numpy import array, allclose, linspace, meshgrid, sin, column_stack
from gemseo.datasets.io_dataset import IODataset
from gemseo.mlearning.regression.algos.rbf import RBFRegressor

g = linspace(0.0, 1.0, 5)
xx, yy = meshgrid(g, g)
x = column_stack([xx.ravel(), yy.ravel()])
y = (sin(3 * x[:, 0]) + x[:, 1] ** 2)[:, None]
data = IODataset()
data.add_input_group(x, ["x"])
data.add_output_group(y, ["y"])
point = array([0.37, 0.61])
h = 1e-6
for function in ("multiquadric", "inverse_multiquadric", "gaussian", "linear", "cubic", "quintic", "thin_plate"):
    model = RBFRegressor(data, function=function, epsilon=0.5)
    model.learn()
    jac = model.predict_jacobian(point)
    fd = array([(model.predict(point + h * e) - model.predict(point - h * e)) / (2 * h) for e in (array([1.0, 0.0]), array([0.0, 1.0]))]).T
    assert allclose(jac, fd, rtol=1e-4, atol=1e-6), (function, jac, fd)
print("F12 ok")
