"""F28 (C02): DesignSpace.unnormalize_vect(x, out=buf) did `out *= 0; out = x_vect`: the buffer was left at
zero, the INPUT vector was unnormalised in place and returned."""
import numpy as np
from gemseo.algos.design_space import DesignSpace

ds = DesignSpace()
ds.add_variable("x", size=2, lower_bound=1.0, upper_bound=3.0)
x = np.array([0.5, 0.25])
buf = np.empty(2)
res = ds.unnormalize_vect(x, out=buf)
assert np.allclose(x, [0.5, 0.25]), x  # before the fix: [2., 1.5]
assert np.allclose(buf, [2.0, 1.5]), buf  # before the fix: [0., 0.]
assert res is buf
print("F28 ok")
