"""F39 (C16): DisciplineJacApprox.auto_set_step evaluates the perturbed points OUTSIDE the zero-cache-tolerance context.

`with self.__set_zero_cache_tol(): compute_opt_step = self.approximator.compute_optimal_step` only fetches the bound
method under the context; the call happens after it.  With a cache tolerance larger than the step, every perturbed
point is served the cached nominal outputs: the error estimates are 0 and the "optimal" step is the initial one.
"""
import sys

from numpy import array

from gemseo.disciplines.analytic import AnalyticDiscipline
from gemseo.utils.derivatives.derivatives_approx import DisciplineJacApprox


def steps(tolerance):
    d = AnalyticDiscipline({"y": "exp(a)+a**3"}, name="d")
    d.io.input_grammar.defaults["a"] = array([0.5])
    d.set_cache(d.CacheType.SIMPLE, tolerance=tolerance)
    d.execute()
    approx = DisciplineJacApprox(d, approx_method="finite_differences", step=1e-4)
    errors, auto_steps = approx.auto_set_step(["y"], ["a"], print_errors=False)
    return float(errors[0]), float(auto_steps["a"][0])


ref, got = steps(0.0), steps(1e-2)
print("no tolerance:", ref, " tolerance 1e-2:", got)
if abs(got[1] - ref[1]) > 1e-12:
    print("reproduced: the optimal step depends on the cache tolerance of the discipline")
    sys.exit(1)
print("PROPERTY HOLDS")
