"""F33 (C09): MDOChain.reverse_chain_rule kept the block w.r.t. a variable that an earlier discipline overwrites,
and composed an in/out variable correctly only when it was the single one: wrong Jacobians for a discipline that
updates two variables in place and for an overwritten chain input."""
from numpy import array
from gemseo.core.chains.chain import MDOChain
from gemseo.core.discipline import Discipline
from gemseo.disciplines.analytic import AnalyticDiscipline


class InOut(Discipline):
    def __init__(self):
        super().__init__("InOut")
        self.io.input_grammar.update_from_names(["a", "b"])
        self.io.output_grammar.update_from_names(["a", "b"])
        self.io.input_grammar.defaults = {"a": array([1.0]), "b": array([1.0])}

    def _run(self, input_data):
        a, b = input_data["a"], input_data["b"]
        return {"a": a + 2 * b, "b": 3 * a + b}

    def _compute_jacobian(self, input_names=(), output_names=()):
        self.jac = {"a": {"a": array([[1.0]]), "b": array([[2.0]])}, "b": {"a": array([[3.0]]), "b": array([[1.0]])}}


chain = MDOChain([InOut(), AnalyticDiscipline({"o": "a+10*b"}, name="D2")])
chain.add_differentiated_inputs(["a", "b"])
chain.add_differentiated_outputs(["o"])
x = {"a": array([1.0]), "b": array([1.0])}
jac = chain.linearize(x)
assert jac["o"]["a"].tolist() == [[31.0]], jac["o"]["a"]  # before the fix: 37
assert jac["o"]["b"].tolist() == [[12.0]]

chain = MDOChain([AnalyticDiscipline({"z": "y"}, name="D0"), AnalyticDiscipline({"y": "2*x"}, name="D1"), AnalyticDiscipline({"o": "5*y"}, name="D2")])
chain.add_differentiated_inputs(["x", "y"])
chain.add_differentiated_outputs(["o"])
x = {"x": array([1.0]), "y": array([7.0])}
chain.execute(x)
jac = chain.linearize(x)
dy = jac["o"]["y"]
dy = dy.toarray() if hasattr(dy, "toarray") else dy
assert dy.tolist() == [[0.0]], dy  # before the fix: 5 (y is overwritten by D1 before D2 reads it)
assert jac["o"]["x"].tolist() == [[10.0]]
print("F33 ok")
