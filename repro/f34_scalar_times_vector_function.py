"""F34 (C10): product/quotient of a scalar function (1-D gradient) and a vector function: the gradient of the scalar
operand was broadcast along the output axis: ValueError for m != n, wrong Jacobian for m == n."""
import numpy as np
from gemseo.core.mdo_functions.mdo_function import MDOFunction

f = MDOFunction(lambda x: x[0] ** 2 + 3 * x[1], "f", jac=lambda x: np.array([2 * x[0], 3.0]))
g = MDOFunction(lambda x: np.array([x[0] * x[1], x[0] + 2 * x[1]]), "g", jac=lambda x: np.array([[x[1], x[0]], [1.0, 2.0]]))
g3 = MDOFunction(lambda x: np.array([x[0] * x[1], x[0] + 2 * x[1], x[0]]), "g3", jac=lambda x: np.array([[x[1], x[0]], [1.0, 2.0], [1.0, 0.0]]))
x = np.array([0.5, 2.0])


def fd(h):
    e = 1e-7
    return np.array([(h(x + e * np.eye(2)[i]) - h(x)) / e for i in range(2)]).T


for name, h in (("f*g", f * g), ("g*f", g * f), ("g/f", g / f), ("f/g", f / g), ("f*g3", f * g3), ("g3*f", g3 * f), ("g3/f", g3 / f), ("f*f", f * f), ("g*g", g * g)):
    J = h.jac(x)  # before the fix: ValueError for g3, wrong values for g
    assert np.allclose(J, fd(h.evaluate), atol=1e-5), (name, J, fd(h.evaluate))
assert (f * f).jac(x).shape == (2,)
print("F34 ok")
