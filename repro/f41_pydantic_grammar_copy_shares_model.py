"""F41 (C15): a copy of a PydanticGrammar shares the pydantic model class with the original.

`copy(self.__model)` of a CLASS returns the class itself; the edits of the copy (`del`, rename, update, restriction)
mutate `model_fields` of that one class: the original grammar changes with its copy.
"""
import sys

from pydantic import BaseModel

from gemseo.core.grammars.pydantic_grammar import PydanticGrammar


class Model(BaseModel):
    a: int
    b: float = 1.0


g = PydanticGrammar("g", model=Model)
c = g.copy()
del c["b"]
c.update_from_names(["z"])
print("original:", sorted(g), " copy:", sorted(c))
if sorted(g) != ["a", "b"]:
    print("reproduced: editing the copy changed the original grammar")
    sys.exit(1)
print("PROPERTY HOLDS")
