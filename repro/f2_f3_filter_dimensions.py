"""F2/F3 (C02): filter_dimensions on a multi-character name with a current value, then normalise."""
from numpy import array
from gemseo.algos.design_space import DesignSpace
ds = DesignSpace()
ds.add_variable("ab", size=3, lower_bound=0.0, upper_bound=array([1.0, 2.0, 4.0]), value=array([0.5, 1.0, 2.0]))
ds.add_variable("z", lower_bound=0.0, upper_bound=10.0, value=5.0)
ds.filter_dimensions("ab", [0, 2])          # F3: ValueError "no such variables named: a, b"
assert ds.get_current_value().tolist() == [0.5, 2.0, 5.0]
out = ds.normalize_vect(array([0.5, 2.0, 5.0]))   # F2: IndexError / wrong components
assert (abs(out - 0.5) < 1e-12).all(), out
assert ds.normalize["ab"].shape == (2,)
print("F2/F3 ok")
