"""F6 (C05): MemoryFullCache(is_memory_shared=False) must not alias the caller's arrays."""
from numpy import array
from gemseo.caches.memory_full_cache import MemoryFullCache
cache = MemoryFullCache(tolerance=0.5, is_memory_shared=False)
x = array([1.0])
cache.cache_outputs({"x": x}, {"y": array([2.0])})
x[0] = 5.0            # the caller re-uses its array for another point
entry = cache[{"x": array([5.0])}]   # a point never cached, far from 1.0 (tolerance 0.5)
assert not entry.outputs, f"tolerance hit returned the outputs of the old input: {entry.outputs}"
entry = cache[{"x": array([1.0])}]
assert entry.outputs and entry.outputs["y"][0] == 2.0, "the cached input was modified through the caller's array"
print("F6 ok")
