"""F7 (C10): the KS/IKS/... aggregation helpers must not modify their operands."""
from numpy import array
from gemseo.algos.aggregation import core

v = array([1.0, 2.0, 3.0])
j = array([[1.0, 0.0], [0.0, 1.0], [1.0, 1.0]])
first = core.compute_upper_bound_ks_agg(v, scale=2.0)
assert v.tolist() == [1.0, 2.0, 3.0], f"operand modified: {v}"
second = core.compute_upper_bound_ks_agg(v, scale=2.0)
assert first == second, (first, second)
core.compute_total_ks_agg_jac(v, j, scale=2.0)
assert j.tolist() == [[1.0, 0.0], [0.0, 1.0], [1.0, 1.0]], f"Jacobian operand modified: {j}"
for name in ("compute_partial_ks_agg_jac", "compute_iks_agg", "compute_partial_iks_agg_jac", "compute_sum_square_agg", "compute_sum_positive_square_agg"):
    v = array([1.0, 2.0, 3.0])
    getattr(core, name)(v, scale=2.0)
    assert v.tolist() == [1.0, 2.0, 3.0], f"{name} modified its operand: {v}"
print("F7 ok")
