"""F18 (C15): JSONGrammar.schema must follow the required names and must not be changed by validate()."""
from numpy import array
from gemseo.core.grammars.json_grammar import JSONGrammar

g = JSONGrammar("g")
g.update_from_names(["a", "b"])
g.required_names.clear()
assert g.schema.get("required") is None
g.required_names.add("a")
assert g.schema.get("required") == ["a"], g.schema.get("required")       # stale cache before the fix
g.required_names.add("b")
before = dict(g.schema)
g.validate({"a": array([1.0]), "b": array([2.0])})
assert dict(g.schema) == before, (sorted(before), sorted(g.schema))       # validate() dropped 'required' before the fix
g.required_names.discard("a")
assert g.schema.get("required") == ["b"]
print("F18 ok")
