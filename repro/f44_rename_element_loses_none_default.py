"""F44 (C15): renaming an element whose default value is None loses the default.

`rename_element` pops the default with `None` as the "absent" marker and re-installs it only when it is not None:
a default that IS None is dropped (the element silently becomes an element without default).
"""
import sys

from gemseo.core.grammars.json_grammar import JSONGrammar
from gemseo.core.grammars.simple_grammar import SimpleGrammar

bad = []
for cls in (JSONGrammar, SimpleGrammar):
    g = cls("g")
    g.update_from_names(["a", "b"])
    g.defaults["a"] = None
    g.rename_element("a", "c")
    if dict(g.defaults) != {"c": None}:
        bad.append(f"{cls.__name__}: defaults after renaming a -> c: {dict(g.defaults)}, expected {{'c': None}}")
if bad:
    print("reproduced:", *bad, sep="\n  ")
    sys.exit(1)
print("PROPERTY HOLDS")
