"""F4 (C02): check_membership(array) must follow a change of bounds."""
from numpy import array
from gemseo.algos.design_space import DesignSpace
ds = DesignSpace()
ds.add_variable("x", size=2, lower_bound=0.0, upper_bound=10.0)
ds.check_membership(array([5.0, 5.0]))
ds.set_upper_bound("x", array([1.0, 1.0]))
try:
    ds.check_membership(array([5.0, 5.0]))
except ValueError:
    print("F4 ok")
else:
    raise AssertionError("out-of-bounds vector accepted after set_upper_bound")
