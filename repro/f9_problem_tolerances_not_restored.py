"""F9 (C11): an optimization problem reloaded from HDF must have the saved constraint tolerances (same optimum)."""
import tempfile, os
from numpy import array
from gemseo.algos.design_space import DesignSpace
from gemseo.algos.optimization_problem import OptimizationProblem
from gemseo.core.mdo_functions.mdo_function import MDOFunction

ds = DesignSpace()
ds.add_variable("x", lower_bound=-2.0, upper_bound=2.0, value=1.0)
pb = OptimizationProblem(ds)
pb.objective = MDOFunction(lambda x: x[0] ** 2, "f", input_names=["x"])
pb.add_constraint(MDOFunction(lambda x: x[0] - 1.0, "h", input_names=["x"]), constraint_type="eq")
pb.tolerances.equality = 1e-6
pb.tolerances.inequality = 1e-7
pb.database.store(array([1.0]), {"f": 1.0, "h": 0.0})          # feasible
pb.database.store(array([0.995]), {"f": 0.990025, "h": -5e-3})   # better objective, infeasible for 1e-6
assert pb.optimum.design[0] == 1.0
path = os.path.join(tempfile.mkdtemp(), "pb.h5")
pb.to_hdf(path)
new = OptimizationProblem.from_hdf(path)
assert new.tolerances.equality == 1e-6 and new.tolerances.inequality == 1e-7, (new.tolerances.equality, new.tolerances.inequality)
assert new.optimum.design[0] == pb.optimum.design[0], (new.optimum.design, pb.optimum.design)
print("F9 ok")
