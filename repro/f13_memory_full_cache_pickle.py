"""F13 (C20, known finding): a discipline whose cache is a MemoryFullCache cannot be pickled."""
import pickle

from gemseo.disciplines.analytic import AnalyticDiscipline

d = AnalyticDiscipline({"y": "2*x"})
for kw in ({"is_memory_shared": True}, {"is_memory_shared": False}):
    d.set_cache(d.CacheType.MEMORY_FULL, **kw)
    try:
        pickle.dumps(d)
    except RuntimeError as e:
        assert "should only be shared between processes through inheritance" in str(e)
        print(kw, "->", e)
    else:
        raise SystemExit("F13 no longer reproduces")
print("F13 reproduced (known finding)")
