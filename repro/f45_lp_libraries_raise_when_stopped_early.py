"""F45 (C03): ScipyLinprog / ScipyMILP raise a TypeError instead of returning a result when a termination criterion
(here the time limit) is reached before the solver returns: their `_get_result` requires five arguments that only
`_run` provides, and `_get_early_stopping_result` calls it with (problem, message, status)."""
import sys

from numpy import array

from gemseo.algos.design_space import DesignSpace
from gemseo.algos.opt.factory import OptimizationLibraryFactory
from gemseo.algos.optimization_problem import OptimizationProblem
from gemseo.core.mdo_functions.mdo_linear_function import MDOLinearFunction


def make():
    ds = DesignSpace()
    ds.add_variable("x", 2, lower_bound=0.0, upper_bound=1.0, value=0.5)
    p = OptimizationProblem(ds, is_linear=True)
    p.objective = MDOLinearFunction(array([1.0, -1.0]), "f")
    p.add_constraint(MDOLinearFunction(array([1.0, 1.0]), "g", value_at_zero=-1.0), constraint_type="ineq")
    return p


bad = []
for algo in ("INTERIOR_POINT", "DUAL_SIMPLEX", "Scipy_MILP"):
    try:
        r = OptimizationLibraryFactory().execute(make(), algo_name=algo, max_iter=5, max_time=1e-12)
        if r is None or r.x_opt is None:
            bad.append(f"{algo}: no result")
    except Exception as e:  # noqa: BLE001
        bad.append(f"{algo}: execute raised {type(e).__name__}: {e}")
if bad:
    print("reproduced:", *bad, sep="\n  ")
    sys.exit(1)
print("PROPERTY HOLDS")
