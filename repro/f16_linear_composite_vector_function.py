"""F16 (C10): LinearCompositeFunction of a vector-valued function: Jacobian = Jf(Ax) . A."""
from numpy import array, allclose
from gemseo.core.mdo_functions.mdo_function import MDOFunction
from gemseo.core.mdo_functions.linear_composite_function import LinearCompositeFunction
# f: R^2 -> R^3, linear for simplicity
B = array([[1.0, 2.0], [3.0, 4.0], [5.0, 6.0]])
f = MDOFunction(lambda x: B @ x, "f", jac=lambda x: B, input_names=["x"], dim=3)
A = array([[1.0, 0.0, 2.0, 1.0], [0.0, 1.0, 1.0, 3.0]])  # R^4 -> R^2
g = LinearCompositeFunction(f, A)
z = array([1.0, 2.0, 3.0, 4.0])
print("value", g.evaluate(z), "expected", B @ (A @ z))
J = g.jac(z)
assert J.shape == (3, 4) and allclose(J, B @ A), J
# scalar function
f1 = MDOFunction(lambda x: B[0] @ x, "f1", jac=lambda x: B[0], input_names=["x"], dim=1)
g1 = LinearCompositeFunction(f1, A)
assert allclose(g1.jac(z), B[0] @ A)
print("F16 ok")
