"""F48 (C07): the total derivatives of an MDA lose the path through a strong coupling of ANOTHER group.

(D1, D2) are coupled through y1/y2; D4 is self-coupled (s) and reads y2.  `_replace_strongly_coupled` removes every
strong coupling of the structure from the inputs of each merged group: D4 no longer depends on y2 in the reduced graph,
the path x -> (D1, D2) -> y2 -> D4 -> f is not traversed and df/dx is wrong (here: the sizes cannot even be determined).
"""
import sys

from numpy import array

from gemseo.disciplines.analytic import AnalyticDiscipline
from gemseo.mda.gauss_seidel import MDAGaussSeidel
from gemseo.mda.mda_chain import MDAChain

bad = []
for cls in (MDAGaussSeidel, MDAChain):
    d1 = AnalyticDiscipline({"y1": "0.3*y2 + x1"}, name="D1")
    d2 = AnalyticDiscipline({"y2": "0.2*y1 + x2"}, name="D2")
    d4 = AnalyticDiscipline({"s": "0.1*s + y2 + x1", "f": "s*2 + y2"}, name="D4")
    mda = cls([d1, d2, d4], tolerance=1e-14, max_mda_iter=200)
    mda.add_differentiated_inputs(["x1", "x2"])
    mda.add_differentiated_outputs(["f"])
    dy2 = array([0.2, 1.0]) / 0.94
    df = 2 * (dy2 + array([1.0, 0.0])) / 0.9 + dy2
    try:
        j = mda.linearize({"x1": array([1.0]), "x2": array([2.0])})
        got = array([j["f"]["x1"][0, 0], j["f"]["x2"][0, 0]])
        if abs(got - df).max() > 1e-8:
            bad.append(f"{cls.__name__}: df/dx = {got.tolist()}, implicit-function value {df.tolist()}")
    except Exception as e:  # noqa: BLE001
        bad.append(f"{cls.__name__}: linearize raised {type(e).__name__}: {e}")
if bad:
    print("reproduced:", *bad, sep="\n  ")
    sys.exit(1)
print("PROPERTY HOLDS")
