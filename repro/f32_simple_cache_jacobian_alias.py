"""F32 (C05): SimpleCache.cache_jacobian kept the caller's Jacobian arrays: editing them afterwards changed what
the cache returns (MemoryFullCache and HDF5Cache copy them)."""
import numpy as np
from gemseo.caches.simple_cache import SimpleCache

c = SimpleCache()
x = {"x": np.array([1.0])}
jac = {"y": {"x": np.array([[2.0]])}}
c.cache_outputs(x, {"y": np.array([2.0])})
c.cache_jacobian(x, jac)
jac["y"]["x"][:] = 0.0
assert c[x].jacobian["y"]["x"].tolist() == [[2.0]], c[x].jacobian  # before the fix: [[0.]]
print("F32 ok")
