"""F32 (C05, known finding; the repair breaks tests/utils/test_derivatives_approx.py::test_load_and_dump): SimpleCache.cache_jacobian keeps the caller's Jacobian arrays: editing them afterwards changed what
the cache returns (MemoryFullCache and HDF5Cache copy them)."""
import numpy as np
from gemseo.caches.simple_cache import SimpleCache

c = SimpleCache()
x = {"x": np.array([1.0])}
jac = {"y": {"x": np.array([[2.0]])}}
c.cache_outputs(x, {"y": np.array([2.0])})
c.cache_jacobian(x, jac)
jac["y"]["x"][:] = 0.0
got = c[x].jacobian["y"]["x"].tolist()
print("cached Jacobian after the caller edited its array:", got, "(expected [[2.0]])")
assert got == [[0.0]]
print("F32 reproduced (known finding)")
