"""F37 (C15): an unpickled JSONGrammar keeps the pickled required names in its schema builder.

__setstate__ feeds the pickled schema (which lists `required`) to the schema builder and never empties the builder's
`required` set, which every other method keeps empty (the required names live in `_required_names`).  After making an
element optional, the schema of the unpickled grammar still requires it.
"""
import pickle
import sys

from gemseo.core.grammars.json_grammar import JSONGrammar

g = JSONGrammar("g")
g.update_from_names(["a", "b"])
h = pickle.loads(pickle.dumps(g))
for grammar in (g, h):
    grammar.required_names.remove("a")
ref, got = sorted(g.schema.get("required", [])), sorted(h.schema.get("required", []))
print("original:", ref, "unpickled:", got, "required_names:", sorted(h.required_names))
if got != sorted(h.required_names):
    print("reproduced: the schema of the unpickled grammar requires", got, "but its required names are", sorted(h.required_names))
    sys.exit(1)
print("PROPERTY HOLDS")
