"""F21 (C19): removing the last random variable left ParameterSpace.distribution stale."""
from gemseo.algos.parameter_space import ParameterSpace

ps = ParameterSpace()
ps.add_variable("d", 1, lower_bound=0.0, upper_bound=1.0)
ps.add_random_variable("x", "SPNormalDistribution")
ps.remove_variable("x")
assert ps.uncertain_variables == []
assert ps.distribution is None, ps.distribution  # before the fix: norm(mu=0.0, sigma=1.0), still sampled by compute_samples
print("F21 ok")
