"""F40 (C16): CenteredDifferences with one step per component and a strict subset of differentiated components.

The steps of ALL the components are added to the perturbations of the selected ones (FirstOrderFD keeps
`step[input_indices]`): shape error, or for a subset of the same length the steps of other components.
"""
import sys

from numpy import allclose
from numpy import array

from gemseo.utils.derivatives.centered_differences import CenteredDifferences


def f(x):
    return array([x[0] ** 2 + x[1] * x[2], x[2] ** 3])


x = array([1.0, 2.0, 3.0])
exact = array([[2.0, 3.0, 2.0], [0.0, 0.0, 27.0]])
bad = []
for indices in ([0, 2], [1], [2, 0]):
    approx = CenteredDifferences(f, step=array([1e-6, 2e-6, 3e-6]))
    try:
        jac = approx.f_gradient(x, x_indices=indices)
    except ValueError as error:
        bad.append(f"x_indices={indices}: ValueError {str(error)[:70]}")
        continue
    if jac.shape != (2, len(indices)) or not allclose(jac, exact[:, indices], atol=1e-4):
        bad.append(f"x_indices={indices}: wrong Jacobian {jac.tolist()}")
if bad:
    print("reproduced:", *bad, sep="\n  ")
    sys.exit(1)
print("PROPERTY HOLDS")
