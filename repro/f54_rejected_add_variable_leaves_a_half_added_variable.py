"""F54 (C02): add_variable with a value rejected by the value check (NaN) left a half-added variable.

Exit 0 when the views agree after the rejected call (fixed by /repo 84a3caa), 1 otherwise.
"""
import sys
from numpy import nan
from gemseo.algos.design_space import DesignSpace
ds = DesignSpace()
ds.add_variable("x", lower_bound=0., upper_bound=10., value=5.)
ds.get_current_value()
try:
    ds.add_variable("y", value=nan)
except ValueError:
    pass
print(ds.variable_names, ds.dimension, ds.has_current_value, ds.get_current_value())

sys.exit(0 if len(ds.get_current_value()) == ds.dimension == len(ds.variable_names) else 1)
