"""F35 (C13): DiscParallelLinearization.execute returns its Jacobians with the failed slots REMOVED.

The list is then shorter than the inputs and entry i no longer belongs to input i (the sibling
DiscParallelExecution.execute, and the base CallableParallelExecution.execute, keep a None in the failed slot).
"""
import sys

from numpy import array

from gemseo.core.discipline import Discipline
from gemseo.core.parallel_execution.disc_parallel_linearization import DiscParallelLinearization


class D(Discipline):
    def __init__(self, name, fail=False):
        super().__init__(name)
        self.fail = fail
        self.io.input_grammar.update_from_names(["x"])
        self.io.output_grammar.update_from_names(["y_" + name])
        self.io.input_grammar.defaults["x"] = array([1.0])

    def _run(self, input_data):
        if self.fail:
            raise ValueError("boom")
        return {"y_" + self.name: 2 * input_data["x"]}

    def _compute_jacobian(self, input_names=(), output_names=()):
        self.jac = {"y_" + self.name: {"x": array([[2.0]])}}


discs = [D("a"), D("b", fail=True), D("c")]
for d in discs:
    d.add_differentiated_inputs(["x"])
    d.add_differentiated_outputs(["y_" + d.name])
par = DiscParallelLinearization(discs, n_processes=2, use_threading=True)
out = par.execute([{"x": array([3.0])}] * 3)
print("returned", [None if o is None else sorted(o) for o in out])
ok = len(out) == 3 and out[1] is None and out[2] is not None and "y_c" in out[2]
if ok:
    print("PROPERTY HOLDS")
    sys.exit(0)
print("reproduced: the result of input 2 (discipline c) is at position", [i for i, o in enumerate(out) if o and "y_c" in o], "of a list of length", len(out))
sys.exit(1)
