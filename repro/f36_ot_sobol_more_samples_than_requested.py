"""F36 (C14): OT_SOBOL_INDICES in dimension 1 with eval_second_order=True returns MORE samples than requested.

OpenTURNS' SobolIndicesExperiment has N(2+d) points when second-order indices are not computed or d == 2, and
N(2+2d) otherwise; the block size N(2+d) was used for every d <= 2, hence also for d = 1.
"""
import sys

from gemseo.algos.design_space import DesignSpace
from gemseo.algos.doe.factory import DOELibraryFactory

bad = []
for d in (1, 2, 3):
    for second in (False, True):
        for n in (9, 13, 20):
            space = DesignSpace()
            space.add_variable("x", size=d, lower_bound=0.0, upper_bound=1.0)
            lib = DOELibraryFactory().create("OT_SOBOL_INDICES")
            samples = lib.compute_doe(space, n_samples=n, eval_second_order=second)
            if len(samples) > n:
                bad.append((d, second, n, len(samples)))
if bad:
    for d, second, n, got in bad:
        print(f"reproduced: d={d} eval_second_order={second} n_samples={n}: {got} samples")
    sys.exit(1)
print("PROPERTY HOLDS")
