"""F27 (C01/C02): DesignSpace.normalize_grad goes through unnormalize_vect(minus_lb=False), which rounded the
components of integer variables: the normalised gradient (and the Jacobian recorded in the database) lost
the derivative with respect to integer variables."""
import numpy as np
from gemseo.algos.design_space import DesignSpace

ds = DesignSpace()
ds.add_variable("x", lower_bound=0.0, upper_bound=10.0)
ds.add_variable("i", type_="integer", lower_bound=0, upper_bound=10)
g = np.array([0.26, 0.26])
out = ds.normalize_grad(g)
assert np.allclose(out, [2.6, 0.26]), out  # before the fix: [2.6, 0.]
ds.enable_integer_variables_normalization = True
out = ds.normalize_grad(g)
assert np.allclose(out, [2.6, 2.6]), out  # before the fix: [2.6, 3.]
# points are still rounded
assert np.allclose(ds.unnormalize_vect(np.array([0.5, 0.26])), [5.0, 3.0])
print("F27 ok")
