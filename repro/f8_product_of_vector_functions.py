"""F8 (C10): product / quotient of two vector-valued functions: Jacobian = diag(g) Jf +/- diag(f) Jg (/ g^2)."""
from numpy import array, allclose, diag
from gemseo.core.mdo_functions.mdo_function import MDOFunction

A = array([[1.0, 2.0, 0.5], [3.0, 4.0, -1.0]])      # f: R^3 -> R^2
B = array([[0.5, -1.0, 2.0], [2.0, 1.0, 1.0]])      # g: R^3 -> R^2
f = MDOFunction(lambda x: A @ x, "f", jac=lambda x: A, input_names=["x"], dim=2)
g = MDOFunction(lambda x: B @ x + 1.0, "g", jac=lambda x: B, input_names=["x"], dim=2)
x = array([1.0, 2.0, 3.0])
fx, gx = f.evaluate(x), g.evaluate(x)
prod, quot = f * g, f / g
assert allclose(prod.evaluate(x), fx * gx)
J = prod.jac(x)
assert J.shape == (2, 3) and allclose(J, diag(gx) @ A + diag(fx) @ B), J
J = quot.jac(x)
assert J.shape == (2, 3) and allclose(J, (diag(gx) @ A - diag(fx) @ B) / (gx**2)[:, None]), J
# square case m == n (no exception but a wrong matrix before the fix)
A2, B2 = A[:, :2], B[:, :2]
f2 = MDOFunction(lambda x: A2 @ x, "f", jac=lambda x: A2, input_names=["x"], dim=2)
g2 = MDOFunction(lambda x: B2 @ x + 1.0, "g", jac=lambda x: B2, input_names=["x"], dim=2)
x2 = array([1.0, 2.0])
assert allclose((f2 * g2).jac(x2), diag(g2.evaluate(x2)) @ A2 + diag(f2.evaluate(x2)) @ B2)
# scalar functions keep working
s = MDOFunction(lambda x: x @ x, "s", jac=lambda x: 2 * x, input_names=["x"], dim=1)
t = MDOFunction(lambda x: x.sum() + 1.0, "t", jac=lambda x: 0 * x + 1.0, input_names=["x"], dim=1)
assert allclose((s * t).jac(x), 2 * x * t.evaluate(x) + s.evaluate(x))
assert allclose((s / t).jac(x), (2 * x * t.evaluate(x) - s.evaluate(x)) / t.evaluate(x) ** 2)
print("F8 ok")
