"""F52 (C15): a JSONGrammar built with update_from_types (or copied from one) publishes a schema WITHOUT its required
names: the builder's `required` accessor returns a temporary set when genson has not created one yet, and the names the
grammar adds to it before exporting are lost.  A reference JSON-schema validator given the published schema accepts
data that the grammar itself rejects."""
import json
import sys

from gemseo.core.grammars.json_grammar import JSONGrammar

bad = []
g = JSONGrammar("g")
g.update_from_types({"a": int, "b": float})
for label, gr in (("built from types", g), ("copy", g.copy())):
    if sorted(gr.schema.get("required", [])) != sorted(gr.required_names):
        bad.append(f"{label}: required_names = {sorted(gr.required_names)} but schema['required'] = {gr.schema.get('required')}")
    if sorted(json.loads(gr.to_json()).get("required", [])) != sorted(gr.required_names):
        bad.append(f"{label}: to_json() has required = {json.loads(gr.to_json()).get('required')}")
if bad:
    print("reproduced:", *bad, sep="\n  ")
    sys.exit(1)
print("PROPERTY HOLDS")
