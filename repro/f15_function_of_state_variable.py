"""F15 (C07): total derivative of a function that depends directly on a state variable of a discipline with residuals."""
import sys
sys.path.insert(0, "/repo/tests/mda")
from numpy import array
from gemseo import create_discipline, create_mda
from gemseo.core.derivatives.jacobian_assembly import JacobianAssembly
import test_mda_residuals as t

def disc_3_expr(y1: float = 1.0, y2: float = 2.0, x: float = 2.0, w1: float = 0.0) -> float:
    obj = y1 + 2 * y2 + 11 * x + 4 * w1
    return obj
def disc_3_expr_jac(y1: float = 1.0, y2: float = 2.0, x: float = 2.0, w1: float = 0.0):
    return array([[1.0, 2.0, 11.0, 4.0]])

def build(with_w):
    d1 = create_discipline("AutoPyDiscipline", py_func=t.disc_1_expr, py_jac=t.disc_1_expr_jac)
    d1.io.residual_to_state_variable = {"r1": "w1"}
    d1.io.state_equations_are_solved = True
    d2 = create_discipline("AutoPyDiscipline", py_func=t.disc_2_expr, py_jac=t.disc_2_expr_jac)
    d2.io.residual_to_state_variable = {"r2": "w2"}
    d2.io.state_equations_are_solved = True
    if with_w:
        d3 = create_discipline("AutoPyDiscipline", py_func=disc_3_expr, py_jac=disc_3_expr_jac)
    else:
        d3 = create_discipline("AutoPyDiscipline", py_func=t.disc_3_expr, py_jac=t.disc_3_expr_jac)
    return [d1, d2, d3]

for with_w in (False, True):
    for mode in (JacobianAssembly.DerivationMode.ADJOINT, JacobianAssembly.DerivationMode.DIRECT):
        mda = create_mda("MDAChain", disciplines=build(with_w))
        mda.linearization_mode = mode
        ok = mda.check_jacobian(input_names=["x"], output_names=["obj"])
        print("obj depends on w1:", with_w, mode, "check_jacobian:", ok)
        assert ok, "coupled derivative differs from finite differences"
print("F15 ok")
