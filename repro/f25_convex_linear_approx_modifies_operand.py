"""F25 (C10): the Jacobian of a ConvexLinearApprox wrote into the array returned by the operand's jac();
for a linear function this array is the function's own coefficients."""
import numpy as np
from gemseo.core.mdo_functions.convex_linear_approx import ConvexLinearApprox
from gemseo.core.mdo_functions.mdo_linear_function import MDOLinearFunction

f = MDOLinearFunction(np.array([[1.0, -2.0, 3.0], [4.0, 5.0, -6.0]]), "f")
a = ConvexLinearApprox(np.ones(3), f)
x = np.array([2.0, 2.0, 2.0])
before = f.evaluate(x).copy()
a.jac(np.array([2.0, 3.0, 4.0]))
after = f.evaluate(x)
assert np.array_equal(before, after), (before, after)  # before the fix: [4, 6] -> [7, 16.67]
assert f.coefficients.tolist() == [[1.0, -2.0, 3.0], [4.0, 5.0, -6.0]]
print("F25 ok")
