"""F1 (C02): rename a non-last variable, then normalise."""
from numpy import array
from gemseo.algos.design_space import DesignSpace
ds = DesignSpace()
ds.add_variable("a", lower_bound=0.0, upper_bound=2.0, value=1.0)
ds.add_variable("b", lower_bound=10.0, upper_bound=20.0, value=15.0)
ds.add_variable("c", lower_bound=-1.0, upper_bound=1.0, value=0.0)
ds.normalize_vect(array([1.0, 15.0, 0.0]))  # fills the caches
ds.get_current_value(normalize=True)
ds.rename_variable("a", "alpha")
assert ds.variable_names == ["alpha", "b", "c"], ds.variable_names
out = ds.normalize_vect(array([1.0, 15.0, 0.0]))
assert (abs(out - 0.5) < 1e-12).all(), out
assert list(ds.get_current_value(as_dict=True, normalize=True)) == ["alpha", "b", "c"]
assert list(ds.convert_array_to_dict(array([1.0, 15.0, 0.0]))) == ["alpha", "b", "c"]
assert ds.get_lower_bounds().tolist() == [0.0, 10.0, -1.0]
print("F1 ok")
