"""F30/F31 (C16): with a design space, FirstOrderFD flipped the step only for components AT the upper bound:
a component closer to the bound than the step was perturbed beyond it. CenteredDifferences had the same test
and, for a subset of components, compared (P,) values with the (C,) bound vectors (ValueError)."""
import numpy as np
from gemseo.algos.design_space import DesignSpace
from gemseo.utils.derivatives.centered_differences import CenteredDifferences
from gemseo.utils.derivatives.finite_differences import FirstOrderFD

ds = DesignSpace()
ds.add_variable("x", size=3, lower_bound=0.0, upper_bound=1.0)
seen = []


def f(x):
    seen.append(x.copy())
    return np.array([np.sum(x**2)])


x0 = np.array([0.995, 0.5, 0.002])
for cls in (FirstOrderFD, CenteredDifferences):
    for idx in (None, [0, 2], [2]):
        seen.clear()
        cls(f, step=1e-2, design_space=ds).f_gradient(x0, x_indices=idx)  # CenteredDifferences + subset: ValueError before the fix
        worst = max(p.max() for p in seen)
        lowest = min(p.min() for p in seen)
        assert worst <= 1.0, (cls.__name__, idx, worst)  # before the fix: 1.005
        if cls is CenteredDifferences:
            assert lowest >= 0.0, (cls.__name__, idx, lowest)
print("F30 ok")
