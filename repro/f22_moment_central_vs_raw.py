"""F22 (C19, known finding): EmpiricalStatistics.compute_moment is the central moment
(scipy.stats.moment) while ParametricStatistics.compute_moment is the raw moment (OpenTURNS
getMoment): for samples of N(1, 1) the first "moment" is 0 on one side and 1 on the other.
Both behaviours are pinned by tests (tests/uncertainty/statistics/test_empirical.py:141,
test_parametric.py:200), so it is recorded rather than repaired."""
from gemseo.algos.parameter_space import ParameterSpace
from gemseo.datasets.dataset import Dataset
from gemseo.uncertainty.statistics.empirical_statistics import EmpiricalStatistics
from gemseo.uncertainty.statistics.parametric_statistics import ParametricStatistics

ps = ParameterSpace()
ps.add_random_variable("x", "OTNormalDistribution", mu=1.0, sigma=1.0)
ds = Dataset.from_array(ps.compute_samples(5000), ["x"])
e = EmpiricalStatistics(ds).compute_moment(1)["x"][0]
p = ParametricStatistics(ds, ["Normal"]).compute_moment(1)["x"][0]
print("empirical", e, "parametric", p)
assert abs(e) < 1e-9 and abs(p - 1) < 0.1
print("F22 reproduced (known finding)")
