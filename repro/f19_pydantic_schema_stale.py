"""F19 (C15): PydanticGrammar.schema must reflect the current definition after edits."""
from gemseo.core.grammars.pydantic_grammar import PydanticGrammar
g = PydanticGrammar("g")
g.update_from_types({"a": int, "b": float})
assert sorted(g.schema["properties"]) == ["a", "b"], g.schema
del g["a"]
assert sorted(g.schema["properties"]) == ["b"], g.schema
g.update_from_types({"c": int})
assert sorted(g.schema["properties"]) == ["b", "c"], g.schema
g.rename_element("c", "d")
assert sorted(g.schema["properties"]) == ["b", "d"], g.schema
print("F19 ok")
