"""F23 (C20): a DirectoryCreator with the NUMBERED naming (the default of DiscFromExe) could not be
pickled: its multiprocessing.Lock went into the state as is."""
import pickle
import tempfile

from gemseo.utils.directory_creator import DirectoryCreator

root = tempfile.mkdtemp()
d = DirectoryCreator(root)
assert d.create().name == "1"
d2 = pickle.loads(pickle.dumps(d))  # before the fix: RuntimeError: Lock objects should only be shared ... through inheritance
assert d2.create().name == "2"
assert d2.last_directory.parent == d.last_directory.parent
print("F23 ok")
