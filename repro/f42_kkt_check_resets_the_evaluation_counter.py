"""F42 (C03): with a KKT tolerance, the evaluation budget is not enforced.

The KKT stop criterion builds a LagrangeMultipliers object at each new iteration; its constructor calls
`problem.reset(database=False, design_space=False, preprocessing=False)`, whose `current_iter` default (True) sets the
evaluation counter back to 0: the counter never reaches `max_iter`.
"""
import sys

from gemseo.algos.opt.factory import OptimizationLibraryFactory
from gemseo.problems.optimization.rosenbrock import Rosenbrock

results = {}
for kkt in (0.0, 1e-30):
    problem = Rosenbrock(l_b=-2.0, u_b=2.0)
    settings = {"max_iter": 5}
    if kkt:
        settings["kkt_tol_abs"] = kkt
    OptimizationLibraryFactory().execute(problem, algo_name="SLSQP", **settings)
    n_points = sum(1 for _, values in problem.database.items() if "rosen" in values)
    results[kkt] = n_points
    print(f"kkt_tol_abs={kkt}: max_iter=5, {n_points} points with an objective value, counter={problem.evaluation_counter.current}")
if results[1e-30] > 5:
    print("reproduced: more than max_iter new points are evaluated when a KKT tolerance is set")
    sys.exit(1)
print("PROPERTY HOLDS")
