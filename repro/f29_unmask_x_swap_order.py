"""F29 (C17): mask_x_swap_order returns the values in the order of masking_data_names, unmask_x_swap_order
consumed them in the order of all_data_names: the two are inverse only when both orders coincide. The Jacobian
of a function of the inputs (b, a) came back with its columns swapped."""
import numpy as np
from gemseo.algos.design_space import DesignSpace
from gemseo.disciplines.analytic import AnalyticDiscipline
from gemseo.formulations.disciplinary_opt import DisciplinaryOpt

ds = DesignSpace()
ds.add_variable("a", lower_bound=0.0, upper_bound=5.0, value=1.0)
ds.add_variable("b", lower_bound=0.0, upper_bound=5.0, value=2.0)
f = DisciplinaryOpt([AnalyticDiscipline({"y": "a**2 + 10*b"})], "y", ds)
x = np.array([1.0, 2.0])
masked = f.mask_x_swap_order(["b", "a"], x)
assert masked.tolist() == [2.0, 1.0]
back = f.unmask_x_swap_order(["b", "a"], masked)
assert back.tolist() == [1.0, 2.0], back  # before the fix: [2., 1.]
print("F29 ok")
