"""F55 (C02): the normalised current value cached before a change of bounds is served after another call refreshed
the normalisation data (the repair of F49 only covered edit-then-query).

Exit 0 when the value follows the new bounds (fixed by /repo fa79e52), 1 otherwise.
"""
import sys
from numpy import array
from gemseo.algos.design_space import DesignSpace
ds = DesignSpace()
ds.add_variable("x", lower_bound=0., upper_bound=10., value=5.)
ds.get_current_value(normalize=True)
ds.set_upper_bound("x", 20.)
ds.normalize_vect(array([5.]))
v = ds.get_current_value(normalize=True)
print(v)
sys.exit(0 if abs(v[0] - 0.25) < 1e-12 else 1)
