"""F51 (C01, C14): a DOE executed on a problem that an optimiser has already solved in the normalised design space
evaluates the functions at the samples UNNORMALISED ONCE MORE (2 and 4 become 20 and 40 for bounds [0, 10]): the
functions stay wrapped for normalised inputs (preprocess_functions returns at once when already done) while the DOE
hands them physical samples.  The points evaluated and recorded are outside the bounds."""
import sys

from numpy import array

from gemseo.algos.design_space import DesignSpace
from gemseo.algos.doe.factory import DOELibraryFactory
from gemseo.algos.opt.factory import OptimizationLibraryFactory
from gemseo.algos.optimization_problem import OptimizationProblem
from gemseo.core.mdo_functions.mdo_function import MDOFunction

calls = []


def f(x):
    calls.append(float(x[0]))
    return (x - 3.0) ** 2


ds = DesignSpace()
ds.add_variable("x", 1, lower_bound=0.0, upper_bound=10.0, value=5.0)
p = OptimizationProblem(ds)
p.objective = MDOFunction(f, "f", jac=lambda x: 2 * (x - 3.0))
OptimizationLibraryFactory().execute(p, algo_name="SLSQP", max_iter=5, normalize_design_space=True)
n = len(calls)
DOELibraryFactory().execute(p, algo_name="CustomDOE", samples=array([[2.0], [4.0]]))
if calls[n:] != [2.0, 4.0]:
    print(f"reproduced: the DOE samples [2.0, 4.0] were evaluated at {calls[n:]} (bounds [0, 10])")
    sys.exit(1)
print("PROPERTY HOLDS")
