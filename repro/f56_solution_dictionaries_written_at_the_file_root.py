"""F56 (C11): x_0_as_dict / x_opt_as_dict of a problem saved at an HDF node were written at the file root.

Exit 0 when both problems reload their own dictionaries (fixed by /repo HEAD), 1 otherwise.
"""
import os, sys, tempfile
os.chdir(tempfile.mkdtemp())
import numpy as np
from gemseo.algos.design_space import DesignSpace
from gemseo.algos.optimization_problem import OptimizationProblem
from gemseo.core.mdo_functions.mdo_function import MDOFunction
from gemseo import execute_algo

def make(name, lb):
    ds = DesignSpace(); ds.add_variable(name, 2, lower_bound=lb, upper_bound=lb + 2.0, value=lb + 0.5)
    p = OptimizationProblem(ds)
    p.objective = MDOFunction(lambda x: float(np.sum((x - lb - 1.0) ** 2)), "f", jac=lambda x: 2 * (x - lb - 1.0), input_names=[name])
    execute_algo(p, algo_name="SLSQP", max_iter=10)
    return p

p1, p2 = make("aa", 0.0), make("bb", 10.0)
p1.to_hdf("f.h5")
p2.to_hdf("f.h5", append=True, hdf_node_path="sub/n")
q1 = OptimizationProblem.from_hdf("f.h5")
q2 = OptimizationProblem.from_hdf("f.h5", hdf_node_path="sub/n")
print(sorted(q1.solution.x_opt_as_dict), sorted(q2.solution.x_opt_as_dict))
ok = sorted(q1.solution.x_opt_as_dict) == ["aa"] and sorted(q2.solution.x_opt_as_dict) == ["bb"]
sys.exit(0 if ok else 1)
