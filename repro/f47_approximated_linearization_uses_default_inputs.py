"""F47 (C16): linearising a discipline by approximation with respect to a SUBSET of its inputs evaluates the other
inputs at their default values instead of the values of the point of linearisation: the function that is differentiated
is built by DisciplineAdapterGenerator.get_function(input_names, output_names) without the current data.
y = x**2 * z at (x, z) = (2, 5), defaults (1, 1): dy/dx is 20, the approximation returns 4 (= 2 x z_default)."""
import sys

from numpy import array

from gemseo.disciplines.analytic import AnalyticDiscipline

bad = []
for mode in ("finite_differences", "centered_differences", "complex_step"):
    d = AnalyticDiscipline({"y": "x**2*z"})
    d.default_input_data = {"x": array([1.0]), "z": array([1.0])}
    d.set_jacobian_approximation(mode)
    d.add_differentiated_inputs(["x"])
    d.add_differentiated_outputs(["y"])
    j = d.linearize({"x": array([2.0]), "z": array([5.0])})["y"]["x"]
    if abs(j[0, 0] - 20.0) > 1e-3:
        bad.append(f"{mode}: dy/dx at (x=2, z=5) is {j.tolist()}, expected [[20.0]]")
if bad:
    print("reproduced:", *bad, sep="\n  ")
    sys.exit(1)
print("PROPERTY HOLDS")
