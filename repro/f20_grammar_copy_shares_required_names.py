"""F20 (C15): editing a copy of a grammar must not change the required names of the original."""
from gemseo.core.grammars.json_grammar import JSONGrammar
from gemseo.core.grammars.simple_grammar import SimpleGrammar
from gemseo.core.grammars.pydantic_grammar import PydanticGrammar

for cls in (JSONGrammar, SimpleGrammar, PydanticGrammar):
    g = cls("g")
    g.update_from_names(["a", "b"])
    assert sorted(g.required_names) == ["a", "b"]
    h = g.copy()
    assert sorted(h.required_names) == ["a", "b"]
    h.required_names.discard("a")
    assert sorted(g.required_names) == ["a", "b"], (cls.__name__, sorted(g.required_names))
    h2 = g.copy()
    del h2["b"]
    assert sorted(g.required_names) == ["a", "b"], (cls.__name__, sorted(g.required_names))
    assert sorted(h2.required_names) == ["a"]
    # the copy's required names are checked against the copy, not against the original
    h2.update_from_names(["c"])
    h2.required_names.add("c")
print("F20 ok")
