"""F26 (C09): when two disciplines of an MDOParallelChain compute the same output, the value is the last
discipline's but the Jacobian row kept the blocks of the earlier discipline for the inputs the last one
does not use: y = 3*b but dy/da = 2."""
import numpy as np
from gemseo.core.chains.parallel_chain import MDOParallelChain
from gemseo.disciplines.analytic import AnalyticDiscipline

d1 = AnalyticDiscipline({"y": "2*a", "z": "a*c"}, name="D1")
d2 = AnalyticDiscipline({"y": "3*b"}, name="D2")
chain = MDOParallelChain([d1, d2])
x = {"a": np.array([1.0]), "b": np.array([2.0]), "c": np.array([5.0])}
assert chain.execute(x)["y"][0] == 6.0
jac = chain.linearize(x, compute_all_jacobians=True)
assert jac["y"]["b"].toarray().tolist() if hasattr(jac["y"]["b"], "toarray") else jac["y"]["b"].tolist() == [[3.0]]
dy_da = jac["y"]["a"]
dy_da = dy_da.toarray() if hasattr(dy_da, "toarray") else dy_da
assert dy_da.tolist() == [[0.0]], dy_da  # before the fix: [[2.0]]
dz_da = jac["z"]["a"]
assert (dz_da.toarray() if hasattr(dz_da, "toarray") else dz_da).tolist() == [[5.0]]
print("F26 ok")
