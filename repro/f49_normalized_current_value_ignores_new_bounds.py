"""F49 (C02): get_current_value(normalize=True) returns the value normalised with the OLD bounds after
set_upper_bound / set_lower_bound: the cached normalised current value is not tied to the normalisation data.
F50 (C02): to_complex() casts the current values but leaves the cached common data type (float): unnormalize_vect then
drops the imaginary part of a complex vector (complex-step differentiation through a normalised design space)."""
import sys
import warnings

from numpy import array

from gemseo.algos.design_space import DesignSpace

warnings.simplefilter("ignore")
bad = []
ds = DesignSpace()
ds.add_variable("x", 1, lower_bound=0.0, upper_bound=10.0, value=5.0)
ds.get_current_value(normalize=True)
ds.set_upper_bound("x", array([20.0]))
v = ds.get_current_value(normalize=True)
if abs(v[0] - 0.25) > 1e-12:
    bad.append(f"F49: after set_upper_bound(20) the normalised current value is {v}, expected [0.25]")
ds2 = DesignSpace()
ds2.add_variable("x", 1, lower_bound=0.0, upper_bound=10.0, value=5.0)
ds2.normalize_vect(array([5.0]))
ds2.to_complex()
w = ds2.unnormalize_vect(array([0.5 + 0.1j]))
if abs(w[0] - (5 + 1j)) > 1e-12:
    bad.append(f"F50: after to_complex, unnormalize_vect([0.5+0.1j]) = {w}, expected [5.+1.j]")
if bad:
    print("reproduced:", *bad, sep="\n  ")
    sys.exit(1)
print("PROPERTY HOLDS")
