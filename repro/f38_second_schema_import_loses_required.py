"""F38 (C15): a second JSONGrammar.update_from_schema loses the required names of the imported schema.

The schema builder's `required` set is emptied (not reset) after each import, and genson INTERSECTS an existing
`required` set with the one of the next schema: every import after the first one contributes no required name.
"""
import sys

from gemseo.core.grammars.json_grammar import JSONGrammar

g = JSONGrammar("g")
g.update_from_schema({"type": "object", "properties": {"a": {"type": "number"}}, "required": ["a"]})
g.update_from_schema({"type": "object", "properties": {"b": {"type": "number"}}, "required": ["b"]})
print("elements", sorted(g), "required", sorted(g.required_names))
try:
    g.validate({"a": 1.0})
    accepted = True
except Exception:  # noqa: BLE001
    accepted = False
if sorted(g.required_names) != ["a", "b"] or accepted:
    print("reproduced: `b` is required by the second schema but not by the grammar; {'a': 1.0} accepted:", accepted)
    sys.exit(1)
print("PROPERTY HOLDS")
