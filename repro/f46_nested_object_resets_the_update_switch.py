"""F46 (C15): JSONGrammar.update_from_schema(..., merge=False) MERGES the properties that come after a nested-object
property: the strategy of the nested object resets the shared update switch when it is done, before its parent has
gone through the remaining properties.  The old type stays allowed: validation reflects a stale definition, and the
result depends on the order of the properties."""
import sys

from gemseo.core.grammars.json_grammar import JSONGrammar


def grammar(first, second):
    g = JSONGrammar("g")
    props = {"a": {"type": "object", "properties": {"k": {"type": "integer"}}}, "b": {"type": "integer"}}
    g.update_from_schema({"type": "object", "properties": {n: props[n] for n in (first, second)}})
    new = {"a": {"type": "object", "properties": {"k": {"type": "string"}}}, "b": {"type": "string"}}
    g.update_from_schema({"type": "object", "properties": {n: new[n] for n in (first, second)}}, merge=False)
    return g


bad = []
for order in (("a", "b"), ("b", "a")):
    g = grammar(*order)
    t = g.schema["properties"]["b"].get("type")
    if t != "string":
        bad.append(f"properties in the order {order}: after merge=False the type of b is {t}, expected 'string'")
    try:
        g.validate({"b": 1})
        bad.append(f"properties in the order {order}: {{'b': 1}} is accepted although b is now a string")
    except Exception:  # noqa: BLE001
        pass
if bad:
    print("reproduced:", *bad, sep="\n  ")
    sys.exit(1)
print("PROPERTY HOLDS")
