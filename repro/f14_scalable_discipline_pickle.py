"""F14 (C20): a pickled-and-restored ScalableDiscipline had no scalable_model (excluded, never rebuilt)."""
import pickle

import numpy as np
from gemseo import create_design_space
from gemseo import sample_disciplines
from gemseo.disciplines.analytic import AnalyticDiscipline
from gemseo.problems.mdo.scalable.data_driven.discipline import ScalableDiscipline

d = AnalyticDiscipline({"y": "x**2+z", "w": "x*z"})
ds = create_design_space()
ds.add_variable("x", lower_bound=0.0, upper_bound=1.0)
ds.add_variable("z", lower_bound=0.0, upper_bound=1.0)
data = sample_disciplines([d], ds, ["y", "w"], algo_name="PYDOE_LHS", n_samples=20)
s = ScalableDiscipline("ScalableDiagonalModel", data, sizes={"x": 2, "y": 3}, fill_factor=0.7)
s2 = pickle.loads(pickle.dumps(s))
x = {"x": np.array([0.35, 0.1]), "z": np.array([0.2])}
a, b = s.execute(x), s2.execute(x)  # before the fix: AttributeError: no attribute 'scalable_model'
assert all(np.array_equal(a[k], b[k]) for k in a)
ja, jb = s.linearize(x, compute_all_jacobians=True), s2.linearize(x, compute_all_jacobians=True)
assert all(np.array_equal(ja[o][i], jb[o][i]) for o in ja for i in ja[o])
print("F14 ok")
