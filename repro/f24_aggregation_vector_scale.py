"""F24 (C10): with a vector ``scale`` (one factor per constraint, documented ``float | ndarray``) the total
Jacobians of the KS, IKS and max aggregations multiplied the constraint Jacobian along the input axis:
ValueError for m != n, a wrong gradient for m == n."""
import numpy as np
from gemseo.algos.aggregation import core as c

g = np.array([0.3, -0.2])
s = np.array([2.0, 3.0])
for J in (np.array([[1.0, 2.0, 3.0], [4.0, 5.0, 6.0]]), np.array([[1.0, 2.0], [4.0, 5.0]])):
    n = J.shape[1]
    for val, jac in ((c.compute_upper_bound_ks_agg, c.compute_total_ks_agg_jac), (c.compute_iks_agg, c.compute_total_iks_agg_jac), (c.compute_max_agg, c.compute_max_agg_jac)):
        out = np.ravel(jac(g.copy(), J.copy(), None, scale=s))  # before the fix: ValueError (2,3)*(2,) / wrong for 2x2
        eps = 1e-7
        num = np.array([(np.ravel(val(g + J @ (eps * np.eye(n)[i]), None, scale=s)) - np.ravel(val(g, None, scale=s)))[0] / eps for i in range(n)])
        assert np.allclose(out, num, atol=1e-5), (jac.__name__, out, num)
print("F24 ok")
