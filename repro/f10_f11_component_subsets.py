"""F10/F11 (C16): gradient approximation for a strict subset of components, scalar or per-component steps."""
from numpy import array, allclose
from gemseo.algos.design_space import DesignSpace
from gemseo.utils.derivatives.complex_step import ComplexStep
from gemseo.utils.derivatives.finite_differences import FirstOrderFD


def f(x):
    return array([x[0] ** 2 + 3 * x[1] + x[2] ** 3, x[0] * x[1] * x[2]])


def jac(x):
    return array([[2 * x[0], 3.0, 3 * x[2] ** 2], [x[1] * x[2], x[0] * x[2], x[0] * x[1]]])


x = array([1.0, 2.0, 3.0])
idx = [1, 2]
exact = jac(x)[:, idx]
# F10: complex step with a strict subset of components (division by zero before the fix)
g = ComplexStep(f).f_gradient(x.astype(complex), x_indices=idx)
assert allclose(g, exact, rtol=1e-8), g
g = ComplexStep(f).f_gradient(x.astype(complex), x_indices=idx, step=array([1e-20, 2e-20, 3e-20]))
assert allclose(g, exact, rtol=1e-8), g
# F11b: finite differences, per-component steps, subset, no design space (ValueError before the fix)
g = FirstOrderFD(f).f_gradient(x, x_indices=idx, step=array([1e-7, 2e-7, 3e-7]))
assert allclose(g, exact, rtol=1e-5), g
# F11a: finite differences with a design space and a subset (broadcast ValueError before the fix)
ds = DesignSpace()
ds.add_variable("x", size=3, lower_bound=0.0, upper_bound=array([10.0, 2.0, 10.0]), value=x)
g = FirstOrderFD(f, design_space=ds, normalize=False).f_gradient(x, x_indices=idx, step=1e-7)
assert allclose(g, exact, rtol=1e-5), g
g = FirstOrderFD(f, design_space=ds, normalize=False).f_gradient(x, x_indices=idx, step=array([1e-7, 2e-7, 3e-7]))
assert allclose(g, exact, rtol=1e-5), g
# all components still work
assert allclose(FirstOrderFD(f, design_space=ds, normalize=False).f_gradient(x, step=1e-7), jac(x), rtol=1e-5)
assert allclose(ComplexStep(f).f_gradient(x.astype(complex)), jac(x), rtol=1e-8)
print("F10/F11 ok")
