"""F17 (C13): CallableParallelExecution.execute([]) must return [] (UnboundLocalError before the fix)."""
from gemseo.core.parallel_execution.callable_parallel_execution import CallableParallelExecution
def f(x): return x
p = CallableParallelExecution([f], n_processes=2, use_threading=True)
assert p.execute([1,2,3]) == [1,2,3]
assert p.execute([]) == []
print("F17 ok")
