"""F5 (C01/C02/C19): gradient (un)normalisation on a ParameterSpace."""
from numpy import array
from gemseo.algos.parameter_space import ParameterSpace
from gemseo.algos.design_space import DesignSpace
for cls in (DesignSpace, ParameterSpace):
    s = cls()
    s.add_variable("x", size=2, lower_bound=1.0, upper_bound=3.0, value=2.0)
    g = s.normalize_grad(array([1.0, 1.0]))
    assert g.tolist() == [2.0, 2.0], (cls.__name__, g)
    g = s.unnormalize_grad(array([1.0, 1.0]))
    assert g.tolist() == [0.5, 0.5], (cls.__name__, g)
print("F5 ok")
