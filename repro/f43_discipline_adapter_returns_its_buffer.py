"""F43 (C01, C10): DisciplineAdapter returns its internal Jacobian buffer.

Every Jacobian evaluation writes into `self.__jacobian` and returns that very array: the Jacobian returned for a
first point changes when a second point is evaluated, and, with a design space that is not normalised (no copy on
the way), the database records the SAME array under every point: all the recorded gradients equal the last one.
"""
import sys

from numpy import array

from gemseo.algos.design_space import DesignSpace
from gemseo.algos.optimization_problem import OptimizationProblem
from gemseo.core.mdo_functions.discipline_adapter_generator import DisciplineAdapterGenerator
from gemseo.disciplines.analytic import AnalyticDiscipline

discipline = AnalyticDiscipline({"y": "a**2+b"}, name="d")
space = DesignSpace()
space.add_variable("a", lower_bound=-5.0, upper_bound=5.0, value=1.0)
space.add_variable("b", lower_bound=-5.0, upper_bound=5.0, value=2.0)
problem = OptimizationProblem(space)
problem.objective = DisciplineAdapterGenerator(discipline).get_function(["a", "b"], ["y"])
problem.preprocess_functions(is_function_input_normalized=False)
first = problem.objective.jac(array([1.0, 2.0]))
kept = first.copy()
problem.objective.jac(array([3.0, 4.0]))
recorded = [values["@y"].tolist() for values in problem.database.values()]
print("recorded gradients:", recorded, " first returned gradient is now", first.tolist())
if recorded != [[2.0, 1.0], [6.0, 1.0]] or (first != kept).any():
    print("reproduced: the gradient recorded at (1, 2) is", recorded[0], "instead of [2.0, 1.0]")
    sys.exit(1)
print("PROPERTY HOLDS")
