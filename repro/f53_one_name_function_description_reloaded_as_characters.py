"""F53 (C11): a function description with ONE multi-character input/output name reloads as its characters.

Exit 0 when the reloaded names equal the saved ones (fixed by /repo 5b078fc), 1 otherwise.
"""
import os, sys, tempfile
os.chdir(tempfile.mkdtemp())
import numpy as np
from gemseo.algos.design_space import DesignSpace
from gemseo.algos.optimization_problem import OptimizationProblem
from gemseo.core.mdo_functions.mdo_function import MDOFunction
ds = DesignSpace(); ds.add_variable("xx", 2, lower_bound=-1.0, upper_bound=2.0, value=0.5)
p = OptimizationProblem(ds)
p.objective = MDOFunction(lambda x: float(np.sum(x**2)), "f", input_names=["xx"], output_names=["fo"])
p.to_hdf("p.h5")
q = OptimizationProblem.from_hdf("p.h5")
print(q.objective.input_names, q.objective.output_names)
sys.exit(0 if (list(q.objective.input_names), list(q.objective.output_names)) == (["xx"], ["fo"]) else 1)
