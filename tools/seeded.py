#!/venv/bin/python
"""Run the checks against the seeded changes kept under /verif/seeded/<property>/<k>/.

Every change is a ``patch.diff`` against /repo's HEAD written by an independent author who saw
only the property text.  The patch is applied in a scratch worktree outside /repo and /verif
(removed afterwards); the checks are pointed at it with GV_REPO, so /repo itself is never edited.

    tools/seeded.py            # own property's check on every seeded change
    tools/seeded.py --all      # every property's check on every seeded change
    tools/seeded.py C05 C07    # only these properties' seeded changes (C05/4: one change; --batch=3: one batch)
    tools/seeded.py --confirm  # also run each demo.py on the clean and on the patched scratch tree (this executes
                               # GEMSEO; it confirms the seeded change, it is not part of any check)

Writes seeded/<property>/<k>/result.json and prints a table.  Exit 0 always (this is a
measurement of the checks, not a check).
"""

from __future__ import annotations

import json
import os
import shutil
import subprocess
import sys
import tempfile
from concurrent.futures import ThreadPoolExecutor
from pathlib import Path

VERIF = Path(__file__).resolve().parent.parent
SEEDED = VERIF / "seeded"
PY = "/venv/bin/python"
ALL = [f"C{i:02d}" for i in range(1, 21)]


def sh(*cmd, cwd=None, env=None):
    return subprocess.run(cmd, cwd=cwd, env=env, capture_output=True, text=True)


def check(pid: str, root: Path) -> dict:
    env = dict(os.environ, GV_REPO=str(root))
    r = sh(PY, "-m", "gv.check", pid, "--tier", "quick", "--no-evidence", cwd=VERIF, env=env)
    lines = [l for l in r.stdout.splitlines() if "-- rule " in l]
    rules = sorted({l.split("-- rule ")[1].split(" --")[0] for l in lines})
    return {"exit": r.returncode, "rules": rules, "error": next((l for l in r.stdout.splitlines() if l.startswith("ANALYSIS-ERROR")), "")}


def main(argv):
    all_props = "--all" in argv
    only = [a for a in argv if a.startswith("C")]
    batch = next((int(a.split("=")[1]) for a in argv if a.startswith("--batch=")), None)
    cases = sorted(p.parent for p in SEEDED.glob("C*/*/patch.diff") if not only or p.parent.parent.name in only or f"{p.parent.parent.name}/{p.parent.name}" in only)
    if batch is not None:
        cases = [c for c in cases if json.loads((c / "meta.json").read_text()).get("batch", 1) == batch]
    if not cases:
        print("no seeded change")
        return 0
    tmp = Path(tempfile.mkdtemp(prefix="gv_seeded_"))
    wt = tmp / "wt"
    r = sh("git", "-C", "/repo", "worktree", "add", "--detach", str(wt), "HEAD")
    if r.returncode:
        print(r.stderr)
        return 0
    rows = []
    confirm = "--confirm" in argv
    try:
        for case in cases:
            pid = case.parent.name
            for _ in range(5):
                sh("git", "-C", str(wt), "reset", "-q", "--hard", "HEAD")
                if not sh("git", "-C", str(wt), "status", "--porcelain", "--untracked-files=no").stdout.strip():
                    break
            else:
                raise SystemExit(f"scratch worktree could not be cleaned before {case}")
            demo = {}
            if confirm and (case / "demo.py").exists():
                env = dict(os.environ, PYTHONPATH=str(wt / "src"))
                d0 = subprocess.run([PY, str(case / "demo.py")], cwd=tmp, env=env, capture_output=True, text=True, timeout=900)
                demo["demo_original_exit"] = d0.returncode
            a = sh("git", "-C", str(wt), "apply", str(case / "patch.diff"))
            if a.returncode:
                # the patch was written against an older HEAD (a later fix: commit touched its context)
                sh("git", "-C", str(wt), "checkout", "--", ".")
                a = sh("git", "-C", str(wt), "apply", "--3way", str(case / "patch.diff"))
                sh("git", "-C", str(wt), "reset", "-q")
                if not a.returncode and sh("git", "-C", str(wt), "diff", "--check").stdout.count("conflict"):
                    a.returncode = 1
            if confirm and not a.returncode and (case / "demo.py").exists():
                d1 = subprocess.run([PY, str(case / "demo.py")], cwd=tmp, env=env, capture_output=True, text=True, timeout=900)
                demo["demo_mutated_exit"] = d1.returncode
                demo["demo_mutated_last_line"] = (d1.stdout.strip().splitlines() or [""])[-1][:300]
                demo["confirmed"] = demo["demo_original_exit"] == 0 and d1.returncode != 0
            if a.returncode:
                res = {"applies": False, "error": a.stderr.strip()[:300]}
            else:
                props = ALL if all_props else [pid]
                with ThreadPoolExecutor(16) as ex:
                    out = dict(zip(props, ex.map(lambda p: check(p, wt), props)))
                own = out[pid]
                res = {
                    "applies": True,
                    "own_check_exit": own["exit"],
                    "caught_by_own_check": own["exit"] == 1,
                    "own_rules": own["rules"],
                    "analysis_error": own["error"],
                    "other_checks_firing": {p: o["rules"] for p, o in out.items() if p != pid and o["exit"] == 1},
                }
                prev = json.loads((case / "result.json").read_text()) if (case / "result.json").exists() else {}
                res.update({k: v for k, v in prev.items() if k.startswith(("demo_", "confirmed"))})
                res.update(demo)
            (case / "result.json").write_text(json.dumps(res, indent=1) + "\n")
            meta = json.loads((case / "meta.json").read_text()) if (case / "meta.json").exists() else {}
            rows.append((pid, case.name, meta.get("title", "")[:60], res))
    finally:
        sh("git", "-C", "/repo", "worktree", "remove", "--force", str(wt))
        shutil.rmtree(tmp, ignore_errors=True)
    for pid, k, title, res in rows:
        if not res.get("applies"):
            verdict = "PATCH-DOES-NOT-APPLY"
        elif res["caught_by_own_check"]:
            verdict = "caught " + ",".join(res["own_rules"])
        elif res["own_check_exit"] == 2:
            verdict = "analysis-error " + res["analysis_error"][:80]
        else:
            verdict = "MISSED" + (" (other: " + ",".join(res["other_checks_firing"]) + ")" if res.get("other_checks_firing") else "")
        print(f"{pid}/{k:<3} {title:<60} {verdict}")
    n = len(rows)
    c = sum(1 for r in rows if r[3].get("caught_by_own_check"))
    print(f"{c}/{n} seeded changes caught by the property's own check")
    return 0


if __name__ == "__main__":
    sys.exit(main(sys.argv[1:]))
