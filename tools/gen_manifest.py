"""Regenerate /verif/MANIFEST.json from the property modules that exist under gv/props."""
from __future__ import annotations

import importlib
import json
import sys
from pathlib import Path

ROOT = Path(__file__).resolve().parent.parent
sys.path.insert(0, str(ROOT))

from gv import props  # noqa: E402

ALL = [f"C{i:02d}" for i in range(1, 21)]
NA_REASONS: dict[str, str] = json.loads((ROOT / "tools" / "not_applicable.json").read_text()) if (ROOT / "tools" / "not_applicable.json").exists() else {}
TECH: dict[str, str] = json.loads((ROOT / "tools" / "techniques.json").read_text())

BASELINE = "cd /repo && /venv/bin/python -m pytest -ra -q -p no:cacheprovider --timeout=900 --continue-on-collection-errors"

checks, na = [], []
for pid in ALL:
    path = ROOT / "gv" / "props" / f"{pid.lower()}.py"
    if pid in NA_REASONS or not path.exists():
        na.append({"property_id": pid, "reason": NA_REASONS.get(pid, "no static rule built yet for this property (work in progress); not claimed")})
        continue
    importlib.import_module(f"gv.props.{pid.lower()}")
    meta = props.META[pid]
    checks.append({
        "property_id": pid,
        "quick_cmd": f"/venv/bin/python -m gv.check {pid} --tier quick",
        "thorough_cmd": f"/venv/bin/python -m gv.check {pid} --tier thorough",
        "evidence_file": f"/verif/evidence/{pid}.json",
        "replay_cmd_template": f"/venv/bin/python -m gv.check {pid} --replay {{path}}",
        "engine": "gv",
        "level_claimed": {
            "category": "other",
            "text": (
                "Static decision (no execution of GEMSEO) of the structural clauses of the property, for every input/"
                "history/schedule because they are facts about every path of the code: " + "; ".join(meta["decided"]) +
                ". NOT decided (numerical / value-level clauses): " + "; ".join(meta["not_decided"]) + "."
            ),
            "design_ref": f"DESIGN.md section 5, {pid}",
        },
        "level_note": (
            "Trusted base: CPython ast parser, networkx dominators/graph search, the frozen rule tables in gv/props, "
            "third-party callees (numpy, scipy, h5py, networkx) behaving as documented. A passing check means the listed "
            "structural necessary conditions hold on every path of the current source; it does not establish the behavioural "
            "property as a whole. Thorough tier additionally applies in-memory seeded faults (each rule must fire) and "
            "refactoring twins (verdict must not change)."
        ),
        "technique": TECH.get(pid, "ast/CFG-based static rules"),
    })

manifest = {
    "version": 1,
    "setup_cmd": "/venv/bin/python -m compileall -q /verif/gv",
    "notes": "Static analysis only: every check parses /repo/src/gemseo on every run (ast + networkx from /venv); GEMSEO is never imported or executed. Exit 0 ok / 1 VIOLATION / 2 ANALYSIS-ERROR.",
    "hooks": {
        "guard": "GEMSEO_VERIF",
        "enable": "no hook is needed: the checks read the source only (the guard name is reserved, no source commit uses it)",
        "baseline_off_cmd": BASELINE,
        "source_commits": [],
        "add_only": True,
    },
    "engines": [
        {"name": "gv", "path": "/verif/gv", "serves_properties": [c["property_id"] for c in checks], "kind_free_text": "custom static analyser: source index + MRO (gv/index.py), statement CFG with dominators (gv/cfg.py), forward abstract interpretation with tag lattices (gv/dataflow.py), write-effect analysis (gv/effects.py), cursor-idiom rule (gv/cursor.py), per-property rule tables (gv/props)"},
    ],
    "checks": checks,
    "not_applicable": na,
}
(ROOT / "MANIFEST.json").write_text(json.dumps(manifest, indent=1) + "\n")
print(f"{len(checks)} checks, {len(na)} not applicable")
