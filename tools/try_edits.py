#!/venv/bin/python
"""Try behaviour-preserving (or breaking) edits in memory:  tools/try_edits.py entries.json

entries.json: [{"pid": "C05", "name": "...", "edits": [[<path relative to src/gemseo>, <old text>, <new text>, <count, 0 = all>], ...]}, ...]
Prints for each entry: ok (same verdict as the unchanged tree) / VIOLATION <rules> / ANALYSIS-ERROR / CRASH / unapplicable.
"""
import json
import os
import sys
import traceback
from pathlib import Path

os.environ["PYTHONHASHSEED"] = "0"
V = Path(__file__).resolve().parent.parent
sys.path.insert(0, str(V))
from gv.astutil import AnalysisError  # noqa: E402
from gv.check import run_rules  # noqa: E402
from gv.index import Index  # noqa: E402

entries = json.loads(Path(sys.argv[1]).read_text())
base = Index()
base_keys = {}
for e in entries:
    pid = e["pid"]
    files = {}
    bad = None
    for rel, old, new, *rest in e["edits"]:
        count = rest[0] if rest else 1
        src = files.get(rel) or base.module(rel).source
        if old not in src:
            bad = f"unapplicable (old text not found in {rel})"
            break
        files[rel] = src.replace(old, new) if count == 0 else src.replace(old, new, count)
    if bad:
        print(f"{pid} {e['name']}: {bad}")
        continue
    try:
        if pid not in base_keys:
            base_keys[pid] = {f.key for f in run_rules(pid, base, "quick").findings}
        ctx = run_rules(pid, base.overlay(files), "quick")
        new = [f for f in ctx.findings if f.key not in base_keys[pid]]
        if new:
            print(f"{pid} {e['name']}: VIOLATION " + "; ".join(sorted({f.rule for f in new})))
            if "-v" in sys.argv:
                for f in new:
                    print("     ", f.rule, f.construct, "::", f.stmt, "\n        ", f.what[:400])
        else:
            print(f"{pid} {e['name']}: ok")
    except AnalysisError as ex:
        print(f"{pid} {e['name']}: ANALYSIS-ERROR {str(ex)[:200]}")
    except Exception as ex:  # noqa: BLE001
        print(f"{pid} {e['name']}: CRASH {ex!r}"[:300])
        if "-v" in sys.argv:
            traceback.print_exc()
