#!/venv/bin/python
"""Print a WITNESSES entry (old/new text of one file) equivalent to a single-file seeded patch:
tools/witness_from_seeded.py Cxx/k <expected rule family> [name]"""
import json
import subprocess
import sys
import tempfile
from pathlib import Path

V = Path(__file__).resolve().parent.parent
case, expect = sys.argv[1], sys.argv[2]
patch = V / "seeded" / case / "patch.diff"
files = [l[6:].strip() for l in patch.read_text().splitlines() if l.startswith("+++ b/")]
if len(files) != 1:
    sys.exit(f"{case}: {len(files)} files in the patch")
rel = files[0]
src = Path("/repo") / rel
with tempfile.TemporaryDirectory() as d:
    tgt = Path(d) / rel
    tgt.parent.mkdir(parents=True)
    tgt.write_text(src.read_text())
    subprocess.run(["patch", "-s", "-p1", "-d", d, "-i", str(patch)], check=True)
    a, b = src.read_text().splitlines(keepends=True), tgt.read_text().splitlines(keepends=True)
i = 0
while i < min(len(a), len(b)) and a[i] == b[i]:
    i += 1
j = 0
while j < min(len(a), len(b)) - i and a[-1 - j] == b[-1 - j]:
    j += 1
lo = max(0, i - 1)
old = "".join(a[lo : len(a) - j + 1])
new = "".join(b[lo : len(b) - j + 1])
# make the old text unique in the file
while src.read_text().count(old) != 1 and lo > 0:
    lo -= 1
    old = "".join(a[lo : len(a) - j + 1])
    new = "".join(b[lo : len(b) - j + 1])
meta = json.loads((V / "seeded" / case / "meta.json").read_text())
name = sys.argv[3] if len(sys.argv) > 3 else "seeded-" + case.replace("/", "-")
print("    " + json.dumps({"name": name, "file": rel.replace("src/gemseo/", ""), "old": old, "new": new, "expect": expect, "note": meta.get("title", "")[:80]}) + ",")
