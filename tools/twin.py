#!/venv/bin/python
"""Try a text edit of /repo's source in memory and print the verdict of a check.

    tools/twin.py C01 algos/problem_function.py 'old text' 'new text' [count]
Prints the findings that differ from the unchanged tree (nothing = the verdict did not move).
"""
import os
import sys

os.environ.setdefault("PYTHONHASHSEED", "0")
sys.path.insert(0, str(__import__("pathlib").Path(__file__).resolve().parent.parent))
from gv.astutil import AnalysisError  # noqa: E402
from gv.check import run_rules  # noqa: E402
from gv.index import Index  # noqa: E402

pid, rel, old, new = sys.argv[1:5]
count = int(sys.argv[5]) if len(sys.argv) > 5 else 1
base = Index()
src = base.module(rel).source
if src.count(old) < 1:
    sys.exit(f"anchor not found in {rel}")
ov = base.overlay({rel: src.replace(old, new, count)})
try:
    b = {f.key for f in run_rules(pid, base, "quick").findings}
    ctx = run_rules(pid, ov, "quick")
    diff = [f for f in ctx.findings if f.key not in b]
    for f in diff:
        print(f"NEW FINDING {f.rule} {f.construct} :: {f.stmt[:100]}")
    print(f"{len(ctx.obligations)} obligations, {len(diff)} new finding(s)")
except AnalysisError as e:
    print("ANALYSIS-ERROR", e)
except Exception as e:  # noqa: BLE001
    import traceback

    traceback.print_exc()
    print("CRASH", repr(e))
