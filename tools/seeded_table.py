#!/venv/bin/python
"""Rewrite the table of seeded changes in DESIGN.md (between the seeded-table markers) from seeded/*/*/{meta,result}.json."""
import json
import re
from pathlib import Path

V = Path(__file__).resolve().parent.parent
rows = []
for case in sorted(V.glob("seeded/C*/*/meta.json")):
    m = json.loads(case.read_text())
    rp = case.parent / "result.json"
    r = json.loads(rp.read_text()) if rp.exists() else {}
    pid, k = case.parent.parent.name, case.parent.name
    if not r.get("applies", True):
        verdict = "patch does not apply"
    elif r.get("caught_by_own_check"):
        verdict = "caught: " + ", ".join(r.get("own_rules", []))
    else:
        verdict = "**missed**" + (" (other checks: " + ", ".join(r.get("other_checks_firing", {})) + ")" if r.get("other_checks_firing") else "")
    conf = "yes" if r.get("confirmed") else ("no" if "confirmed" in r else "n/a")
    title = m.get("title", "").replace("|", "/")
    files = ", ".join(Path(f).name for f in m.get("files", []))
    rows.append(f"| {pid}/{k} | {title} | {files} | {conf} | {verdict} |")
table = "| id | change (author's title) | file | demo confirmed | verdict of the property's check |\n|---|---|---|---|---|\n" + "\n".join(rows)
n = len(rows)
c = sum(1 for r in rows if "| caught" in r)
table += f"\n\n{c} of {n} seeded changes are reported by the check of the property they were written against.\n"
p = V / "DESIGN.md"
s = p.read_text()
s = re.sub(r"(<!-- seeded-table-begin -->\n).*?(<!-- seeded-table-end -->)", lambda m_: m_.group(1) + table + m_.group(2), s, flags=re.S)
p.write_text(s)
print(f"{c}/{n}")
