#!/venv/bin/python
"""Regenerate gv/refnames.json (local variables of every function of /repo/src/gemseo with the shape of their
definitions) from the CURRENT tree: run it after a `fix:` commit, together with the checks (the rules are confirmed
against this tree)."""
import ast
import hashlib
import json
import os
import sys
from pathlib import Path

V = Path(__file__).resolve().parent.parent
sys.path.insert(0, str(V))
from gv import canon  # noqa: E402
from gv.index import _collect_imports, _modname  # noqa: E402

root = Path(os.environ.get("GV_REPO", "/repo")) / "src" / "gemseo"
out = {}
for path in sorted(root.rglob("*.py")):
    rel = path.relative_to(root).as_posix()
    text = path.read_text(encoding="utf-8")
    tree = ast.parse(text)
    # a module whose text is the reference text needs no normalisation (the reference tree is a fixpoint)
    out[f"#digest:{rel}"] = hashlib.sha1(text.encode()).hexdigest()
    # local name -> qualified target of every import of the module (gv.canon.normalise_imports)
    out[f"#imports:{rel}"] = _collect_imports(tree, _modname(rel), rel.endswith("__init__.py"))
    out[f"#qualified:{rel}"] = canon.qualified_uses(tree, out[f"#imports:{rel}"])

    def visit(node, prefix):
        for ch in ast.iter_child_nodes(node):
            if isinstance(ch, ast.ClassDef):
                visit(ch, f"{prefix}{ch.name}.")
            elif isinstance(ch, (ast.FunctionDef, ast.AsyncFunctionDef)):
                key = f"{rel}::{prefix}{ch.name}"
                sh = canon.shapes_of(ch)
                if key in out:  # overloads / property setters: merge
                    for k, v in sh.items():
                        out[key].setdefault(k, v)
                else:
                    out[key] = sh
                visit(ch, f"{prefix}{ch.name}.")
            elif isinstance(ch, (ast.If, ast.Try, ast.With)):
                visit(ch, prefix)

    visit(tree, "")
(V / "gv" / "refnames.json").write_text(json.dumps(out, sort_keys=True, separators=(",", ":")))
print(sum(1 for k in out if not k.startswith("#")), "functions")
