#!/venv/bin/python
"""Show one corpus entry: its diff and what the check reports on it.   tools/twin_show.py PID substring"""
import difflib, json, os, sys, traceback
from pathlib import Path
os.environ["PYTHONHASHSEED"] = "0"
V = Path(__file__).resolve().parent.parent
sys.path.insert(0, str(V))
from gv.check import run_rules
from gv.index import Index
pid, sub = sys.argv[1], sys.argv[2]
cname_ = next((a.split("=")[1] for a in sys.argv if a.startswith("--corpus=")), "corpus.json")
corpus = json.loads((V / "twins_corpus" / cname_).read_text())
base = Index()
bk = {f.key for f in run_rules(pid, base, "quick").findings}
for e in corpus:
    if e["pid"] != pid or sub not in e["name"]:
        continue
    print("=====", e["name"])
    files = {}
    for rel, old, new, count in e["edits"]:
        src = files.get(rel) or base.module(rel).source
        if "--nodiff" not in sys.argv:
            print("--", rel)
            print("\n".join(l for l in difflib.unified_diff(old.splitlines(), new.splitlines(), lineterm="", n=2)))
        files[rel] = src.replace(old, new) if count == 0 else src.replace(old, new, count)
    try:
        ctx = run_rules(pid, base.overlay(files), "quick")
        for f in ctx.findings:
            if f.key not in bk:
                print("FINDING", f.rule, f.construct, "::", getattr(f, "stmt", ""), "\n    ", f.what[:600])
    except Exception:
        traceback.print_exc()
