#!/venv/bin/python
"""One-off: collect the behaviour-preserving edits tried by the rule reviewers (scripts left under /tmp) into
/verif/twins_corpus/corpus.json: [{pid, name, edits: [[file, old, new, count]]}].  Kept for reference; the corpus
is what tools/run_twins.py replays."""
import glob
import json
import os
import re
import runpy
import sys
import types

out = []


def add(pid, name, edits):
    es = []
    for e in edits:
        if len(e) < 3:
            continue
        es.append([e[0], e[1], e[2], e[3] if len(e) > 3 and isinstance(e[3], int) else (0 if "rename" in name else 1)])
    if es:
        out.append({"pid": pid.upper(), "name": name, "edits": es})


# review-A batteries: t("C01", n, [(file, old, new), ...])
fake = types.ModuleType("rv_try")
cur = {"file": ""}


def t(pid, n, edits, label="", **kw):
    add(pid, f"{os.path.basename(cur['file'])}#{n}{('-' + label) if label else ''}", edits)


fake.t = t
sys.modules["rv_try"] = fake
for f in sorted(glob.glob("/tmp/rv_c0[1-4]_*.py")):
    cur["file"] = f
    try:
        runpy.run_path(f)
    except Exception as e:  # noqa: BLE001
        print("skip", f, repr(e)[:80])
# review-B / D: EDITS dict name -> [(file, old, new)]
for f in sorted(glob.glob("/tmp/rv/c0*_edits*.py") + glob.glob("/tmp/rvd_c1*_edits.py") + glob.glob("/tmp/rvd_c1*b_edits.py")):
    pid = re.search(r"c(\d\d)", os.path.basename(f)).group(0)
    try:
        ns = runpy.run_path(f)
    except Exception as e:  # noqa: BLE001
        print("skip", f, repr(e)[:80])
        continue
    for name, lst in ns.get("EDITS", {}).items():
        add(pid, f"{os.path.basename(f)}:{name}", lst)
# review-E and review-C: EDITS list per file
for f in sorted(glob.glob("/tmp/rvA/edits/C*/e*.py")):
    pid = f.split("/")[-2]
    try:
        ns = runpy.run_path(f)
    except Exception as e:  # noqa: BLE001
        print("skip", f, repr(e)[:80])
        continue
    add(pid, f"{pid}/{os.path.basename(f)}", ns.get("EDITS", []))
for f in sorted(glob.glob("/tmp/rvw/e*.py")):
    try:
        ns = runpy.run_path(f)
    except Exception as e:  # noqa: BLE001
        print("skip", f, repr(e)[:80])
        continue
    add("C09", f"rvw/{os.path.basename(f)}", ns.get("EDITS", []))
for f in sorted(glob.glob("/tmp/rvw/c10/e*.py")):
    try:
        ns = runpy.run_path(f)
    except Exception as e:  # noqa: BLE001
        print("skip", f, repr(e)[:80])
        continue
    add("C10", f"rvw/c10/{os.path.basename(f)}", ns.get("EDITS", []))
try:
    ns = runpy.run_path("/tmp/rv_c11_scripts/edits.py")
    for name, lst in ns.get("E", {}).items():
        add("C11", f"c11:{name}", lst)
except Exception as e:  # noqa: BLE001
    print("skip c11", repr(e)[:80])
json.dump(out, open("/verif/twins_corpus/corpus.json", "w"), indent=1)
print(len(out), "edits harvested")
from collections import Counter

print(Counter(e["pid"] for e in out))
