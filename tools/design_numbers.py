#!/venv/bin/python
"""Rewrite the numbers table of DESIGN.md 12.1 (between the design-numbers markers) from a quick run of every check."""
import importlib
import os
import re
import subprocess
import sys
from pathlib import Path

V = Path(__file__).resolve().parent.parent
sys.path.insert(0, str(V))
rows = []
tw = tn = 0
for i in range(1, 21):
    pid = f"C{i:02d}"
    r = subprocess.run(["/venv/bin/python", "-m", "gv.check", pid, "--tier", "quick", "--no-evidence"], cwd=V, capture_output=True, text=True)
    m = re.search(r"quick: (\d+) obligations over (\d+) constructs", r.stdout)
    mod = importlib.import_module(f"gv.props.c{i:02d}")
    w, t = len(getattr(mod, "WITNESSES", [])), len(getattr(mod, "TWINS", []))
    tw += w
    tn += t
    rows.append(f"| {pid} | {m.group(1)} | {m.group(2)} | {w} | {t} |")
table = "| | obligations | constructs | witnesses (all killed) | twins (all stable) |\n|---|---|---|---|---|\n" + "\n".join(rows) + f"\n\n{tw} witnesses and {tn} twins in total.\n"
p = V / "DESIGN.md"
s = p.read_text()
a, b = "<!-- design-numbers-begin -->", "<!-- design-numbers-end -->"
if a in s:
    s = s[: s.index(a) + len(a)] + "\n" + table + s[s.index(b) :]
    p.write_text(s)
print(table)
