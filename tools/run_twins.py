#!/venv/bin/python
"""Replay the corpus of behaviour-preserving edits (twins_corpus/corpus.json) against the checks, in memory.

    tools/run_twins.py [Cxx ...] [--show]
For each edit: ok (same verdict as the unchanged tree), VIOLATION (new finding), ANALYSIS-ERROR, unapplicable.
A measurement tool for the robustness of the rules; not a check.
"""
import json
import os
import signal
import sys
from concurrent.futures import ProcessPoolExecutor
from pathlib import Path

os.environ["PYTHONHASHSEED"] = "0"
V = Path(__file__).resolve().parent.parent
sys.path.insert(0, str(V))
from gv.astutil import AnalysisError  # noqa: E402
from gv.check import run_rules  # noqa: E402
from gv.index import Index  # noqa: E402

BASE = None
BASEKEYS = {}


def one(entry):
    global BASE
    if BASE is None:
        BASE = Index()
    pid = entry["pid"]
    files = {}
    for rel, old, new, count in entry["edits"]:
        try:
            src = files.get(rel) or BASE.module(rel).source
        except AnalysisError:
            return entry["name"], pid, "unapplicable", "no such file"
        if old not in src:
            return entry["name"], pid, "unapplicable", ""
        files[rel] = src.replace(old, new) if count == 0 else src.replace(old, new, count)
    signal.alarm(120)
    try:
        if pid not in BASEKEYS:
            BASEKEYS[pid] = {f.key for f in run_rules(pid, BASE, "quick").findings}
        ctx = run_rules(pid, BASE.overlay(files), "quick")
        new = [f for f in ctx.findings if f.key not in BASEKEYS[pid]]
        if new:
            return entry["name"], pid, "VIOLATION", "; ".join(sorted({f.rule for f in new}))
        return entry["name"], pid, "ok", ""
    except AnalysisError as e:
        return entry["name"], pid, "ANALYSIS-ERROR", str(e)[:120]
    except Exception as e:  # noqa: BLE001
        return entry["name"], pid, "CRASH", repr(e)[:120]
    finally:
        signal.alarm(0)


def main(argv):
    cname_ = next((a.split("=")[1] for a in argv if a.startswith("--corpus=")), "corpus.json")
    corpus = json.loads((V / "twins_corpus" / cname_).read_text())
    extra = V / "twins_corpus" / "excluded.json"
    excluded = json.loads(extra.read_text()) if extra.exists() else {}
    only = [a for a in argv if a.startswith("C")]
    todo = [e for e in corpus if (not only or e["pid"] in only) and e["name"] not in excluded]
    with ProcessPoolExecutor(16) as ex:
        res = list(ex.map(one, todo, chunksize=4))
    from collections import Counter

    by = Counter((pid, verdict) for _, pid, verdict, _ in res)
    for pid in sorted({p for p, _ in by}):
        print(pid, {v: by[(pid, v)] for v in ("ok", "VIOLATION", "ANALYSIS-ERROR", "CRASH", "unapplicable") if by[(pid, v)]})
    tot = Counter(v for _, _, v, _ in res)
    print("TOTAL", dict(tot))
    if "--show" in argv:
        for name, pid, verdict, info in res:
            if verdict not in ("ok", "unapplicable"):
                print(f"  {pid} {verdict:<15} {name:<50} {info}")
    (V / "twins_corpus" / ("last_run.json" if cname_ == "corpus.json" else "last_run2.json")).write_text(json.dumps([list(r) for r in res], indent=0))


if __name__ == "__main__":
    main(sys.argv[1:])
