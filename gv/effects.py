"""E4 -- which ``self`` attributes a method writes (directly and through self-calls)."""

from __future__ import annotations

import ast
from dataclasses import dataclass

from gv.astutil import mangle
from gv.astutil import stmts_of
from gv.astutil import walk_body
from gv.index import ClassInfo
from gv.index import Index

MUTATING_METHODS = {
    "append", "extend", "insert", "remove", "pop", "popitem", "clear", "update", "setdefault",
    "add", "discard", "sort", "reverse", "fill", "resize", "difference_update",
    "intersection_update", "symmetric_difference_update", "move_to_end", "put", "sort_values",
}  # fmt: skip


@dataclass
class Write:
    attr: str  # as written in the source (un-mangled form of a private name)
    kind: str  # rebind | item | del | call | attr | itemattr
    node: ast.AST  # the statement
    key: ast.AST | None = None  # subscript key for item/del/itemattr
    method: str | None = None  # for kind == call
    sub: str | None = None  # sub attribute for attr/itemattr


def _self_attr_root(node: ast.AST, self_name: str = "self"):
    """Decompose ``self.a``, ``self.a[k]``, ``self.a.b``, ``self.a[k].b`` targets."""
    # returns (attr, path) where path is a list of ("item", key) / ("attr", name)
    path = []
    cur = node
    while True:
        if isinstance(cur, ast.Subscript):
            path.append(("item", cur.slice))
            cur = cur.value
        elif isinstance(cur, ast.Attribute):
            if isinstance(cur.value, ast.Name) and cur.value.id == self_name:
                return cur.attr, list(reversed(path))
            path.append(("attr", cur.attr))
            cur = cur.value
        else:
            return None, []


def _target_writes(t: ast.AST, stmt: ast.AST, self_name: str, is_del: bool = False) -> list[Write]:
    if isinstance(t, (ast.Tuple, ast.List)):
        out = []
        for e in t.elts:
            out += _target_writes(e.value if isinstance(e, ast.Starred) else e, stmt, self_name, is_del)
        return out
    attr, path = _self_attr_root(t, self_name)
    if attr is None:
        return []
    if not path:
        return [Write(attr, "rebind" if not is_del else "rebind", stmt)]
    if len(path) == 1 and path[0][0] == "item":
        return [Write(attr, "del" if is_del else "item", stmt, key=path[0][1])]
    if path[0][0] == "item":
        sub = next((p[1] for p in path[1:] if p[0] == "attr"), None)
        return [Write(attr, "itemattr", stmt, key=path[0][1], sub=sub)]
    return [Write(attr, "attr", stmt, sub=path[0][1])]


def local_aliases(func: ast.AST, self_name: str = "self") -> dict[str, list[str]]:
    """Local names bound to ``self.<attr>`` objects: ``d = self.a`` and ``for d in [self.a, self.b]``."""
    out: dict[str, list[str]] = {}
    for s in stmts_of(func):
        if isinstance(s, ast.Assign) and len(s.targets) == 1 and isinstance(s.targets[0], ast.Name):
            v = s.value
            if isinstance(v, ast.Attribute) and isinstance(v.value, ast.Name) and v.value.id == self_name:
                out.setdefault(s.targets[0].id, []).append(v.attr)
        elif isinstance(s, (ast.For, ast.AsyncFor)) and isinstance(s.target, ast.Name) and isinstance(s.iter, (ast.List, ast.Tuple)):
            attrs = []
            for e in s.iter.elts:
                if isinstance(e, ast.Attribute) and isinstance(e.value, ast.Name) and e.value.id == self_name:
                    attrs.append(e.attr)
            if attrs and len(attrs) == len(s.iter.elts):
                out.setdefault(s.target.id, []).extend(attrs)
    return out


def writes_in(func: ast.AST, cls_name: str | None = None, self_name: str = "self", *, aliases: bool = False) -> list[Write]:
    """Direct writes to ``self`` attributes in the body of ``func``.

    With ``aliases`` the writes through local names bound to ``self.<attr>`` count as writes to
    every attribute the name may stand for.
    """
    out: list[Write] = []
    if aliases:
        al = local_aliases(func, self_name)
        for name, attrs in al.items():
            for w in _bare_name_writes(func, name):
                for a in attrs:
                    out.append(Write(a, w.kind, w.node, key=w.key, method=w.method, sub=w.sub))
    for s in stmts_of(func):
        if isinstance(s, ast.Assign):
            for t in s.targets:
                out += _target_writes(t, s, self_name)
        elif isinstance(s, ast.AnnAssign) and s.value is not None:
            out += _target_writes(s.target, s, self_name)
        elif isinstance(s, ast.AugAssign):
            out += _target_writes(s.target, s, self_name)
        elif isinstance(s, ast.Delete):
            for t in s.targets:
                out += _target_writes(t, s, self_name, is_del=True)
        elif isinstance(s, (ast.For, ast.AsyncFor)):
            out += _target_writes(s.target, s, self_name)
        elif isinstance(s, (ast.With, ast.AsyncWith)):
            for it in s.items:
                if it.optional_vars is not None:
                    out += _target_writes(it.optional_vars, s, self_name)
    for n in walk_body(func):
        if isinstance(n, ast.Call) and isinstance(n.func, ast.Attribute) and n.func.attr in MUTATING_METHODS:
            attr, path = _self_attr_root(n.func.value, self_name)
            if attr is not None:
                if not path:
                    out.append(Write(attr, "call", n, method=n.func.attr))
                elif path[0][0] == "item":
                    out.append(Write(attr, "itemattr", n, key=path[0][1], method=n.func.attr))
                else:
                    out.append(Write(attr, "attr", n, sub=path[0][1], method=n.func.attr))
        elif isinstance(n, ast.Call) and isinstance(n.func, ast.Name) and n.func.id == "setattr":
            if n.args and isinstance(n.args[0], ast.Name) and n.args[0].id == self_name and len(n.args) >= 2:
                if isinstance(n.args[1], ast.Constant) and isinstance(n.args[1].value, str):
                    out.append(Write(n.args[1].value, "rebind", n))
    if cls_name:
        for w in out:
            if w.attr.startswith("_" + cls_name.lstrip("_") + "__"):
                w.attr = w.attr[len("_" + cls_name.lstrip("_")) :]
    return out


def _bare_name_writes(func: ast.AST, name: str) -> list[Write]:
    """Writes through a local ``name``: ``name[k] = v``, ``del name[k]``, ``name.pop(k)`` ..."""
    out: list[Write] = []

    def tgt(t, stmt, is_del=False):
        if isinstance(t, (ast.Tuple, ast.List)):
            for e in t.elts:
                tgt(e, stmt, is_del)
        elif isinstance(t, ast.Subscript) and isinstance(t.value, ast.Name) and t.value.id == name:
            out.append(Write(name, "del" if is_del else "item", stmt, key=t.slice))
        elif isinstance(t, ast.Attribute) and isinstance(t.value, ast.Subscript) and isinstance(t.value.value, ast.Name) and t.value.value.id == name:
            out.append(Write(name, "itemattr", stmt, key=t.value.slice, sub=t.attr))

    for s in stmts_of(func):
        if isinstance(s, ast.Assign):
            for t in s.targets:
                tgt(t, s)
        elif isinstance(s, (ast.AugAssign, ast.AnnAssign)):
            tgt(s.target, s)
        elif isinstance(s, ast.Delete):
            for t in s.targets:
                tgt(t, s, True)
    for n in walk_body(func):
        if isinstance(n, ast.Call) and isinstance(n.func, ast.Attribute) and n.func.attr in MUTATING_METHODS:
            if isinstance(n.func.value, ast.Name) and n.func.value.id == name:
                out.append(Write(name, "call", n, method=n.func.attr))
    return out


def self_callees(func: ast.AST, self_name: str = "self") -> list[tuple[str, ast.Call]]:
    out = []
    for n in walk_body(func):
        if (
            isinstance(n, ast.Call)
            and isinstance(n.func, ast.Attribute)
            and isinstance(n.func.value, ast.Name)
            and n.func.value.id == self_name
        ):
            out.append((n.func.attr, n))
    return out


def reads_in(func: ast.AST, self_name: str = "self") -> list[ast.Attribute]:
    """``self.<attr>`` loads in the body of ``func``."""
    return [
        n
        for n in walk_body(func)
        if isinstance(n, ast.Attribute)
        and isinstance(n.value, ast.Name)
        and n.value.id == self_name
        and isinstance(n.ctx, ast.Load)
    ]


def transitive_self_methods(index: Index, cls: ClassInfo, method: str, *, dynamic: ClassInfo | None = None) -> dict[str, tuple[ClassInfo, ast.FunctionDef]]:
    """Methods reachable from ``cls.method`` through ``self.x()`` calls (resolved along the MRO of ``dynamic``)."""
    dyn = dynamic or cls
    start = index.resolve_method(dyn, method)
    out: dict[str, tuple[ClassInfo, ast.FunctionDef]] = {}
    if start is None:
        return out
    work = [(method, start)]
    while work:
        name, (c, f) = work.pop()
        if name in out:
            continue
        out[name] = (c, f)
        for callee, _ in self_callees(f):
            # private names are resolved in the defining class
            if callee.startswith("__") and not callee.endswith("__"):
                tgt = (c, c.methods[callee]) if callee in c.methods else None
                key = f"{c.name}.{callee}"
            else:
                tgt = index.resolve_method(dyn, callee)
                key = callee
            if tgt is not None and key not in out:
                work.append((key, tgt))
    return out


def writes_closure(index: Index, cls: ClassInfo, method: str) -> list[tuple[str, Write]]:
    """(method name, write) pairs for ``method`` and everything it calls on ``self``."""
    res = []
    for name, (c, f) in transitive_self_methods(index, cls, method).items():
        for w in writes_in(f, c.name):
            res.append((name, w))
    return res


def property_aliases(cls: ClassInfo) -> dict[str, str]:
    """Properties that simply return ``self.<attr>``: property name -> attribute name."""
    out = {}
    for name in cls.properties:
        f = cls.methods.get(name)
        if f is None:
            continue
        body = [s for s in f.body if not (isinstance(s, ast.Expr) and isinstance(s.value, ast.Constant))]
        if len(body) == 1 and isinstance(body[0], ast.Return):
            v = body[0].value
            if isinstance(v, ast.Attribute) and isinstance(v.value, ast.Name) and v.value.id == "self":
                out[name] = v.attr
    return out
