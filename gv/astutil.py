"""Small helpers over ``ast`` used by every rule."""

from __future__ import annotations

import ast
from collections.abc import Callable
from collections.abc import Iterable
from collections.abc import Iterator

FUNC_TYPES = (ast.FunctionDef, ast.AsyncFunctionDef)
SCOPE_TYPES = (ast.FunctionDef, ast.AsyncFunctionDef, ast.Lambda, ast.ClassDef)


class AnalysisError(Exception):
    """The analysis cannot be carried out (missing anchor, unparsable file...)."""


def mangle(cls_name: str, attr: str) -> str:
    """Apply Python's private-name mangling."""
    if attr.startswith("__") and not attr.endswith("__"):
        return "_" + cls_name.lstrip("_") + attr
    return attr


def dotted(node: ast.AST | None) -> str | None:
    """Return ``a.b.c`` for Name/Attribute chains (``None`` otherwise).

    Calls and subscripts in the chain are rendered as ``()`` and ``[]``.
    """
    parts: list[str] = []
    while True:
        if isinstance(node, ast.Attribute):
            parts.append(node.attr)
            node = node.value
        elif isinstance(node, ast.Name):
            parts.append(node.id)
            break
        elif isinstance(node, ast.Call):
            base = dotted(node.func)
            if base is None:
                return None
            parts.append(base + "()")
            break
        elif isinstance(node, ast.Subscript):
            base = dotted(node.value)
            if base is None:
                return None
            parts.append(base + "[]")
            break
        else:
            return None
    return ".".join(reversed(parts))


def call_name(call: ast.Call) -> str | None:
    """Dotted name of the callee of a call."""
    return dotted(call.func)


def last_attr(node: ast.AST) -> str | None:
    """Last component of the callee/attribute chain."""
    if isinstance(node, ast.Call):
        node = node.func
    if isinstance(node, ast.Attribute):
        return node.attr
    if isinstance(node, ast.Name):
        return node.id
    return None


def walk_local(node: ast.AST, *, include_root: bool = True) -> Iterator[ast.AST]:
    """Walk a tree without entering nested function/lambda/class bodies.

    Comprehensions are entered (they are evaluated in place).
    """
    stack = [node]
    first = True
    while stack:
        cur = stack.pop()
        if not first and isinstance(cur, SCOPE_TYPES):
            # The definition statement itself is yielded, not its body;
            # decorators/defaults are evaluated in place.
            yield cur
            if isinstance(cur, (*FUNC_TYPES, ast.ClassDef)):
                stack.extend(cur.decorator_list)
            if isinstance(cur, FUNC_TYPES):
                stack.extend(d for d in cur.args.defaults)
                stack.extend(d for d in cur.args.kw_defaults if d is not None)
            continue
        if include_root or not first:
            yield cur
        first = False
        stack.extend(reversed(list(ast.iter_child_nodes(cur))))


def walk_body(func: ast.AST) -> Iterator[ast.AST]:
    """Walk the body of a function (not nested scopes)."""
    for stmt in getattr(func, "body", []):
        yield from walk_local_stmt(stmt)


def walk_local_stmt(stmt: ast.AST) -> Iterator[ast.AST]:
    if isinstance(stmt, SCOPE_TYPES):
        yield stmt
        return
    yield from _walk_skip_scopes(stmt)


def _walk_skip_scopes(node: ast.AST) -> Iterator[ast.AST]:
    yield node
    for child in ast.iter_child_nodes(node):
        if isinstance(child, SCOPE_TYPES):
            yield child
            continue
        yield from _walk_skip_scopes(child)


def calls_in(node: ast.AST, *, local: bool = True) -> list[ast.Call]:
    it = _walk_skip_scopes(node) if local else ast.walk(node)
    return [n for n in it if isinstance(n, ast.Call)]


def is_self_attr(node: ast.AST, name: str | None = None, self_name: str = "self") -> bool:
    return (
        isinstance(node, ast.Attribute)
        and isinstance(node.value, ast.Name)
        and node.value.id == self_name
        and (name is None or node.attr == name)
    )


def self_attr_name(node: ast.AST, self_name: str = "self") -> str | None:
    if is_self_attr(node, None, self_name):
        return node.attr  # type: ignore[union-attr]
    return None


def names_in(node: ast.AST) -> set[str]:
    return {n.id for n in ast.walk(node) if isinstance(n, ast.Name)}


def unparse(node: ast.AST | None) -> str:
    if node is None:
        return ""
    try:
        return ast.unparse(node)
    except Exception:  # pragma: no cover
        return f"<{type(node).__name__}>"


def norm_stmt(node: ast.AST | None, limit: int = 160) -> str:
    """Normalised one-line text of a statement/expression (key of findings)."""
    if node is None:
        return ""
    if isinstance(node, (ast.If, ast.While)):
        text = ("if " if isinstance(node, ast.If) else "while ") + unparse(node.test)
    elif isinstance(node, ast.For):
        text = f"for {unparse(node.target)} in {unparse(node.iter)}"
    elif isinstance(node, ast.With):
        text = "with " + ", ".join(unparse(i) for i in node.items)
    elif isinstance(node, ast.Try):
        text = "try"
    elif isinstance(node, (*FUNC_TYPES, ast.ClassDef)):
        text = f"def {node.name}"
    else:
        text = unparse(node)
    text = " ".join(text.split())
    return text[:limit]


def const_value(node: ast.AST | None, default=None):
    if isinstance(node, ast.Constant):
        return node.value
    return default


def kwarg(call: ast.Call, name: str) -> ast.AST | None:
    """Argument bound to parameter ``name``: keyword, or positional through the callee's signature (gv.canon)."""
    for kw in call.keywords:
        if kw.arg == name:
            return kw.value
    return getattr(call, "_gv_bind", {}).get(name)


def arg_or_kw(call: ast.Call, pos: int, name: str) -> ast.AST | None:
    """Positional argument ``pos`` or keyword ``name`` of a call."""
    k = kwarg(call, name)
    if k is not None:
        return k
    if pos < len(call.args) and not any(isinstance(a, ast.Starred) for a in call.args[: pos + 1]):
        return call.args[pos]
    return None


def same(a: ast.AST | None, b: ast.AST | None) -> bool:
    """Structural equality of two expressions."""
    if a is None or b is None:
        return a is b
    return ast.dump(a) == ast.dump(b)


def find_all(node: ast.AST, pred: Callable[[ast.AST], bool], *, local: bool = True) -> list[ast.AST]:
    it = _walk_skip_scopes(node) if local else ast.walk(node)
    return [n for n in it if pred(n)]


def stmts_of(func: ast.AST) -> Iterator[ast.stmt]:
    """All statements of a function body, recursively, not entering nested scopes."""
    for n in walk_body(func):
        if isinstance(n, ast.stmt):
            yield n


def param_names(func: ast.FunctionDef) -> list[str]:
    a = func.args
    out = [x.arg for x in a.posonlyargs + a.args]
    if a.vararg:
        out.append(a.vararg.arg)
    out += [x.arg for x in a.kwonlyargs]
    if a.kwarg:
        out.append(a.kwarg.arg)
    return out


def decorator_names(func: ast.AST) -> list[str]:
    out = []
    for d in getattr(func, "decorator_list", []):
        if isinstance(d, ast.Call):
            d = d.func
        n = dotted(d)
        if n:
            out.append(n)
    return out


def parents_map(root: ast.AST) -> dict[int, ast.AST]:
    out: dict[int, ast.AST] = {}
    for p in ast.walk(root):
        for c in ast.iter_child_nodes(p):
            out[id(c)] = p
    return out


def flip_cmp(op: ast.cmpop) -> type | None:
    return {
        ast.Lt: ast.Gt,
        ast.Gt: ast.Lt,
        ast.LtE: ast.GtE,
        ast.GtE: ast.LtE,
        ast.Eq: ast.Eq,
        ast.NotEq: ast.NotEq,
    }.get(type(op))


def compare_parts(node: ast.AST) -> tuple[ast.AST, type, ast.AST] | None:
    """(left, op type, right) of a simple binary comparison."""
    if isinstance(node, ast.Compare) and len(node.ops) == 1:
        return node.left, type(node.ops[0]), node.comparators[0]
    return None


def any_match(items: Iterable, pred) -> bool:
    return any(pred(i) for i in items)


def as_update(stmt: ast.AST) -> tuple[ast.AST, ast.operator, ast.AST] | None:
    """(target, op, operand) of ``T op= e`` and of its spelled-out form ``T = T op e`` (also ``T = e + T`` for + and *)."""
    if isinstance(stmt, ast.AugAssign):
        return stmt.target, stmt.op, stmt.value
    if isinstance(stmt, ast.Assign) and len(stmt.targets) == 1 and isinstance(stmt.value, ast.BinOp):
        t = ast.unparse(stmt.targets[0])
        if ast.unparse(stmt.value.left) == t:
            return stmt.targets[0], stmt.value.op, stmt.value.right
        if isinstance(stmt.value.op, (ast.Add, ast.Mult)) and ast.unparse(stmt.value.right) == t:
            return stmt.targets[0], stmt.value.op, stmt.value.left
    return None
