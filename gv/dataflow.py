"""E5/E6 -- forward abstract interpretation of one function over its CFG.

The abstract value of a name is a frozenset of *tags* (join = union).  The tag ``"?"``
stands for "unknown": rules treat a value containing ``"?"`` as unknown and never report on
it (they may fail closed where the value is known today).
"""

from __future__ import annotations

import ast
from collections.abc import Callable

from gv.cfg import CFG

Tags = frozenset
UNKNOWN: Tags = frozenset({"?"})
Env = dict  # name -> Tags

EvalFn = Callable[[ast.AST, Env], Tags]


def join_env(a: Env, b: Env) -> Env:
    out = dict(a)
    for k, v in b.items():
        out[k] = out[k] | v if k in out else v
    return out


def target_key(t: ast.AST) -> str | None:
    """Key under which a store target is tracked: ``x`` or ``self.attr``."""
    if isinstance(t, ast.Name):
        return t.id
    if isinstance(t, ast.Attribute) and isinstance(t.value, ast.Name):
        return f"{t.value.id}.{t.attr}"
    return None


class Forward:
    """Forward dataflow with a user supplied expression evaluator.

    ``evaluate(expr, env)`` returns the tags of an expression.  ``unpack(tags, i, n)`` gives
    the tags of element ``i`` of an ``n``-tuple value (default: unknown).
    """

    def __init__(
        self,
        cfg: CFG,
        evaluate: EvalFn,
        init: Env | None = None,
        unpack: Callable[[ast.AST, Env, int, int], Tags] | None = None,
        loop_elem: Callable[[ast.AST, Env], Tags] | None = None,
        aug: Callable[[ast.AugAssign, Env], Tags] | None = None,
        effect: Callable[[ast.AST, Env], Env | None] | None = None,
    ):
        self.cfg = cfg
        self.evaluate = evaluate
        self.unpack = unpack
        self.loop_elem = loop_elem
        self.aug = aug
        self.effect = effect
        self.env_in: dict[int, Env] = {cfg.entry: dict(init or {})}
        self._run()

    def _assign(self, target: ast.AST, value_expr: ast.AST | None, tags: Tags, env: Env) -> None:
        if isinstance(target, (ast.Tuple, ast.List)):
            n = len(target.elts)
            for i, el in enumerate(target.elts):
                if isinstance(el, ast.Starred):
                    self._assign(el.value, None, UNKNOWN, env)
                    continue
                if value_expr is not None and isinstance(value_expr, (ast.Tuple, ast.List)) and len(value_expr.elts) == n:
                    self._assign(el, value_expr.elts[i], self.evaluate(value_expr.elts[i], env), env)
                elif value_expr is not None and self.unpack is not None:
                    self._assign(el, None, self.unpack(value_expr, env, i, n), env)
                else:
                    self._assign(el, None, UNKNOWN, env)
            return
        k = target_key(target)
        if k is not None:
            env[k] = tags

    def transfer(self, n: int, env: Env) -> Env:
        node = self.cfg.ast[n]
        kind = self.cfg.kind[n]
        env = dict(env)
        if kind == "stmt":
            if isinstance(node, ast.Assign):
                tags = self.evaluate(node.value, env)
                for t in node.targets:
                    self._assign(t, node.value, tags, env)
            elif isinstance(node, ast.AnnAssign) and node.value is not None:
                self._assign(node.target, node.value, self.evaluate(node.value, env), env)
            elif isinstance(node, ast.AugAssign):
                k = target_key(node.target)
                if k is not None:
                    env[k] = self.aug(node, env) if self.aug else UNKNOWN
            elif isinstance(node, (ast.FunctionDef, ast.ClassDef)):
                env[node.name] = UNKNOWN
            if self.effect is not None and node is not None:
                new = self.effect(node, env)
                if new is not None:
                    env = new
        elif kind == "loop":
            tags = self.loop_elem(node.iter, env) if self.loop_elem else UNKNOWN
            if isinstance(node.target, (ast.Tuple, ast.List)) and self.unpack is not None:
                n_el = len(node.target.elts)
                for i, el in enumerate(node.target.elts):
                    self._assign(el, None, self.unpack(node.iter, env, i, -n_el), env)
            else:
                self._assign(node.target, None, tags, env)
        elif kind == "with":
            for it in node.items:
                if it.optional_vars is not None:
                    self._assign(it.optional_vars, None, self.evaluate(it.context_expr, env), env)
        elif kind == "handler":
            if node.name:
                env[node.name] = UNKNOWN
        # walrus
        if node is not None and kind in ("stmt", "test"):
            root = node.test if kind == "test" else node
            for sub in ast.walk(root):
                if isinstance(sub, ast.NamedExpr):
                    env[sub.target.id] = self.evaluate(sub.value, env)
        return env

    def _run(self) -> None:
        g = self.cfg.g
        work = [self.cfg.entry]
        env_out: dict[int, Env] = {}
        it = 0
        while work:
            it += 1
            if it > 20000:  # pragma: no cover
                break
            n = work.pop()
            out = self.transfer(n, self.env_in.get(n, {}))
            if env_out.get(n) == out and n in env_out:
                continue
            env_out[n] = out
            for s in g.successors(n):
                cur = self.env_in.get(s)
                new = dict(out) if cur is None else join_env(cur, out)
                if new != cur:
                    self.env_in[s] = new
                    work.append(s)
                elif s not in env_out:
                    work.append(s)
        self.env_out = env_out

    def at(self, node: ast.AST) -> Env:
        """Environment in which ``node`` is evaluated."""
        return self.env_in.get(self.cfg.node_of(node), {})

    def tags(self, expr: ast.AST) -> Tags:
        return self.evaluate(expr, self.at(expr))
