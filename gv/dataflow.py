"""E5/E6 -- forward abstract interpretation of one function over its CFG.

The abstract value of a name is a frozenset of *tags* (join = union).  The tag ``"?"``
stands for "unknown": rules treat a value containing ``"?"`` as unknown and never report on
it (they may fail closed where the value is known today).
"""

from __future__ import annotations

import ast
import re
from collections.abc import Callable

from gv.cfg import CFG

Tags = frozenset
UNKNOWN: Tags = frozenset({"?"})
Env = dict  # name -> Tags

EvalFn = Callable[[ast.AST, Env], Tags]


def join_env(a: Env, b: Env) -> Env:
    out = dict(a)
    for k, v in b.items():
        out[k] = out[k] | v if k in out else v
    return out


def target_key(t: ast.AST) -> str | None:
    """Key under which a store target is tracked: ``x`` or ``self.attr``."""
    if isinstance(t, ast.Name):
        return t.id
    if isinstance(t, ast.Attribute) and isinstance(t.value, ast.Name):
        return f"{t.value.id}.{t.attr}"
    return None


class Forward:
    """Forward dataflow with a user supplied expression evaluator.

    ``evaluate(expr, env)`` returns the tags of an expression.  ``unpack(tags, i, n)`` gives
    the tags of element ``i`` of an ``n``-tuple value (default: unknown).
    """

    def __init__(
        self,
        cfg: CFG,
        evaluate: EvalFn,
        init: Env | None = None,
        unpack: Callable[[ast.AST, Env, int, int], Tags] | None = None,
        loop_elem: Callable[[ast.AST, Env], Tags] | None = None,
        aug: Callable[[ast.AugAssign, Env], Tags] | None = None,
        effect: Callable[[ast.AST, Env], Env | None] | None = None,
        rebind: Callable[[set, Env], Env] | None = None,
    ):
        self.cfg = cfg
        self.evaluate = evaluate
        self.unpack = unpack
        self.loop_elem = loop_elem
        self.aug = aug
        self.effect = effect
        self.rebind = rebind  # optional: (names bound by the node, env) -> env
        self.env_in: dict[int, Env] = {cfg.entry: dict(init or {})}
        self._run()

    def _assign(self, target: ast.AST, value_expr: ast.AST | None, tags: Tags, env: Env) -> None:
        if isinstance(target, (ast.Tuple, ast.List)):
            n = len(target.elts)
            for i, el in enumerate(target.elts):
                if isinstance(el, ast.Starred):
                    self._assign(el.value, None, UNKNOWN, env)
                    continue
                if value_expr is not None and isinstance(value_expr, (ast.Tuple, ast.List)) and len(value_expr.elts) == n:
                    # every right-hand side is evaluated before any target is bound (a, b = b, a)
                    pre = getattr(self, "_tuple_pre", None)
                    if pre is None or pre[0] is not value_expr:
                        self._tuple_pre = pre = (value_expr, [self.evaluate(x, env) for x in value_expr.elts])
                    self._assign(el, value_expr.elts[i], pre[1][i], env)
                elif value_expr is not None and self.unpack is not None:
                    self._assign(el, None, self.unpack(value_expr, env, i, n), env)
                else:
                    self._assign(el, None, UNKNOWN, env)
            return
        k = target_key(target)
        if k is not None:
            env[k] = tags

    def transfer(self, n: int, env: Env) -> Env:
        node = self.cfg.ast[n]
        kind = self.cfg.kind[n]
        env = dict(env)
        if kind == "stmt":
            if isinstance(node, ast.Assign):
                tags = self.evaluate(node.value, env)
                for t in node.targets:
                    self._assign(t, node.value, tags, env)
            elif isinstance(node, ast.AnnAssign) and node.value is not None:
                self._assign(node.target, node.value, self.evaluate(node.value, env), env)
            elif isinstance(node, ast.AugAssign):
                k = target_key(node.target)
                if k is not None:
                    env[k] = self.aug(node, env) if self.aug else UNKNOWN
            elif isinstance(node, (ast.FunctionDef, ast.ClassDef)):
                env[node.name] = UNKNOWN
            if self.effect is not None and node is not None:
                new = self.effect(node, env)
                if new is not None:
                    env = new
        elif kind == "loop":
            tags = self.loop_elem(node.iter, env) if self.loop_elem else UNKNOWN
            if isinstance(node.target, (ast.Tuple, ast.List)) and self.unpack is not None:
                n_el = len(node.target.elts)
                for i, el in enumerate(node.target.elts):
                    self._assign(el, None, self.unpack(node.iter, env, i, -n_el), env)
            else:
                self._assign(node.target, None, tags, env)
        elif kind == "with":
            for it in node.items:
                if it.optional_vars is not None:
                    self._assign(it.optional_vars, None, self.evaluate(it.context_expr, env), env)
        elif kind == "handler":
            if node.name:
                env[node.name] = UNKNOWN
        # walrus
        if node is not None and kind in ("stmt", "test"):
            root = node.test if kind == "test" else node
            for sub in ast.walk(root):
                if isinstance(sub, ast.NamedExpr):
                    env[sub.target.id] = self.evaluate(sub.value, env)
        if self.rebind is not None and node is not None:
            tgts: list[ast.AST] = []
            if kind == "stmt" and isinstance(node, ast.Assign):
                tgts = list(node.targets)
            elif kind == "stmt" and isinstance(node, (ast.AnnAssign, ast.AugAssign)):
                tgts = [node.target]
            elif kind == "loop":
                tgts = [node.target]
            elif kind == "with":
                tgts = [it.optional_vars for it in node.items if it.optional_vars is not None]
            names = {x.id for t in tgts for x in ast.walk(t) if isinstance(x, ast.Name) and isinstance(x.ctx, ast.Store)}
            if kind in ("stmt", "test"):
                root = node.test if kind == "test" else node
                names |= {sub.target.id for sub in ast.walk(root) if isinstance(sub, ast.NamedExpr)}
            if names:
                env = self.rebind(names, env)
        return env

    def _run(self) -> None:
        g = self.cfg.g
        work = [self.cfg.entry]
        env_out: dict[int, Env] = {}
        it = 0
        while work:
            it += 1
            if it > 20000:  # pragma: no cover
                break
            n = work.pop()
            out = self.transfer(n, self.env_in.get(n, {}))
            if env_out.get(n) == out and n in env_out:
                continue
            env_out[n] = out
            for s in g.successors(n):
                cur = self.env_in.get(s)
                new = dict(out) if cur is None else join_env(cur, out)
                if new != cur:
                    self.env_in[s] = new
                    work.append(s)
                elif s not in env_out:
                    work.append(s)
        self.env_out = env_out

    def at(self, node: ast.AST) -> Env:
        """Environment in which ``node`` is evaluated."""
        return self.env_in.get(self.cfg.node_of(node), {})

    def tags(self, expr: ast.AST) -> Tags:
        return self.evaluate(expr, self.at(expr))


def possibly_unbound(func: ast.AST) -> list[tuple[ast.Name, str]]:
    """Local names read on some path before any assignment (definite-assignment analysis).

    Only names that are assigned somewhere in the function (and are neither parameters, globals
    nor nonlocals) are considered; comprehension variables are ignored.
    """
    from gv.astutil import param_names
    from gv.astutil import stmts_of
    from gv.cfg import cfg_of

    cfg = cfg_of(func)
    assigned: set[str] = set()
    skip: set[str] = set(param_names(func))
    for s in stmts_of(func):
        if isinstance(s, (ast.Global, ast.Nonlocal)):
            skip |= set(s.names)
        for n in ast.walk(s) if not isinstance(s, (ast.FunctionDef, ast.AsyncFunctionDef, ast.ClassDef)) else []:
            if isinstance(n, ast.Name) and isinstance(n.ctx, ast.Store):
                assigned.add(n.id)
        if isinstance(s, (ast.FunctionDef, ast.AsyncFunctionDef, ast.ClassDef)):
            assigned.add(s.name)
        if isinstance(s, (ast.Import, ast.ImportFrom)):
            for a in s.names:
                assigned.add((a.asname or a.name).split(".")[0])
    local = assigned - skip
    comp_vars = {n.id for c in ast.walk(func) if isinstance(c, (ast.ListComp, ast.SetComp, ast.DictComp, ast.GeneratorExp)) for g in c.generators for n in ast.walk(g.target) if isinstance(n, ast.Name)}
    local -= comp_vars
    DEF, UNDEF = frozenset({"def"}), frozenset({"undef"})

    def ev(e, env):
        return DEF

    fw = Forward(cfg, ev, init={n: UNDEF for n in local}, loop_elem=lambda it, env: DEF, unpack=lambda v, env, i, n: DEF, aug=lambda node, env: DEF)
    out = []
    for n in cfg.stmt_nodes():
        node = cfg.ast[n]
        env = fw.env_in.get(n, {})
        kind = cfg.kind[n]
        roots = []
        if kind == "stmt" and node is not None and not isinstance(node, (ast.FunctionDef, ast.AsyncFunctionDef, ast.ClassDef, ast.Try)):
            if isinstance(node, ast.Assign):
                roots = [node.value]
            elif isinstance(node, ast.AugAssign):
                roots = [node.value, node.target]
            elif isinstance(node, ast.AnnAssign):
                roots = [node.value] if node.value is not None else []
            else:
                roots = [node]
        elif kind == "test":
            roots = [node.test]
        elif kind == "loop":
            roots = [node.iter]
        elif kind == "with":
            roots = [it.context_expr for it in node.items]
        for r in roots:
            for x in ast.walk(r):
                if isinstance(x, (ast.Lambda, ast.ListComp, ast.SetComp, ast.DictComp, ast.GeneratorExp)):
                    continue
                if isinstance(x, ast.Name) and isinstance(x.ctx, ast.Load) and x.id in local and "undef" in env.get(x.id, DEF):
                    out.append((x, x.id))
    return out


_MUTATORS = {"append", "extend", "update", "pop", "clear", "add", "remove", "insert", "sort", "setdefault", "discard", "popitem", "reverse", "fill", "resize", "appendleft", "popleft", "intersection_update", "difference_update"}


class SymValues:
    """Symbolic unfolding of locals: the expressions a sub-expression may stand for at its program point.

    The abstract value of a local is the set of its possible defining expressions (as text), each with the locals it
    reads already replaced by THEIR defining expressions (reaching definitions composed along the CFG).  A rule that
    asks "is this argument ``normalize_vect(get_upper_bounds())``" then gets the same answer whether the code
    writes the expression in place, through one local, or through a local re-assigned under a condition (combine with
    ``shapes.specialise`` to fix the condition).  More than ``max_alts`` alternatives, an expression longer than
    ``max_len`` or a loop-carried value make the local opaque: it stays as its own name.
    """

    def __init__(self, func: ast.AST, *, max_alts: int = 4, max_len: int = 300, kill_on_rebind: bool = False):
        import copy
        import itertools

        from gv.cfg import cfg_of

        self.func = func
        self.cfg = cfg_of(func)
        self.max_alts, self.max_len = max_alts, max_len
        self._copy, self._product = copy.deepcopy, itertools.product

        def aug(node: ast.AugAssign, env):
            if not isinstance(node.target, ast.Name):
                return UNKNOWN
            e = ast.BinOp(left=ast.Name(id=node.target.id, ctx=ast.Load()), op=node.op, right=node.value)
            return self._ev(ast.fix_missing_locations(ast.copy_location(e, node)), env)

        def effect(node, env):
            # a store into ``p.q`` / ``p[i]`` makes every local whose unfolded value reads ``p.q`` / ``p[...]`` opaque
            stored = []
            if isinstance(node, (ast.Assign, ast.AugAssign, ast.AnnAssign, ast.Delete)):
                tgts = node.targets if isinstance(node, (ast.Assign, ast.Delete)) else [node.target]
                for t in tgts:
                    for sub in ast.walk(t):
                        if isinstance(sub, ast.Attribute) and isinstance(sub.ctx, (ast.Store, ast.Del)):
                            stored.append(ast.unparse(sub))
                        elif isinstance(sub, ast.Subscript) and isinstance(sub.ctx, (ast.Store, ast.Del)):
                            stored.append(ast.unparse(sub.value))
                            if isinstance(sub.value, ast.Name):
                                # ``v[k] = e``: the local no longer stands for the expression that defined it
                                env = dict(env)
                                env[sub.value.id] = UNKNOWN
            # a mutating method called on a local: the local (and whatever was unfolded from it) no longer stands for its
            # defining expression
            for sub in ast.walk(node) if isinstance(node, (ast.Expr, ast.Assign, ast.AugAssign, ast.AnnAssign, ast.Return)) else ():
                if isinstance(sub, ast.Call) and isinstance(sub.func, ast.Attribute) and sub.func.attr in _MUTATORS and isinstance(sub.func.value, ast.Name):
                    stored.append(sub.func.value.id)
                    env = dict(env)
                    env[sub.func.value.id] = UNKNOWN
            if not stored:
                return None
            new = dict(env)
            for k, v in env.items():
                if any(re.search(r"(?<![\w.])" + re.escape(p_) + r"(?!\w)", txt) for txt in v for p_ in stored):
                    new[k] = UNKNOWN
            return new

        # a parameter stands for itself until it is re-bound (so that a re-binding on one branch only joins with it)
        init = {}
        a_ = getattr(func, "args", None)
        if a_ is not None:
            for p_ in [*a_.posonlyargs, *a_.args, *a_.kwonlyargs, *([a_.vararg] if a_.vararg else []), *([a_.kwarg] if a_.kwarg else [])]:
                init[p_.arg] = frozenset({p_.arg})
        def rebind(names, env):
            # a local whose unfolded value mentions a name that is bound again here (a loop variable at the next
            # iteration, a parameter that is re-assigned) was computed from the OLD value of that name
            new = None
            for k, v in env.items():
                if k in names or not isinstance(v, frozenset) or "?" in v:
                    continue
                if any(re.search(r"(?<![\w.])" + re.escape(n_) + r"(?!\w)", txt) for txt in v for n_ in names):
                    new = new or dict(env)
                    new[k] = UNKNOWN
            return new or env

        # opt-in: by default a text that mentions an opaque name (a loop variable, a parameter) is read under the binding
        # that name has where the text is used; rules comparing such texts across a re-binding ask for the strict form
        self.fw = Forward(self.cfg, self._ev, init=init, aug=aug, effect=effect, rebind=rebind if kill_on_rebind else None)

    def _alts(self, name: str, env) -> list[str] | None:
        v = env.get(name)
        if v is None or "?" in v or len(v) > self.max_alts or any(len(s) > self.max_len for s in v):
            return None
        return sorted(v)

    def _ev(self, e: ast.AST, env) -> frozenset:
        names = []
        for n in ast.walk(e):
            if isinstance(n, ast.Name) and isinstance(n.ctx, ast.Load) and n.id not in names and self._alts(n.id, env) is not None:
                names.append(n.id)
        # names bound inside the expression (comprehension variables, lambda parameters) are not locals of the function
        bound = {t.id for n in ast.walk(e) if isinstance(n, ast.comprehension) for t in ast.walk(n.target) if isinstance(t, ast.Name)}
        bound |= {a.arg for n in ast.walk(e) if isinstance(n, ast.Lambda) for a in n.args.args}
        names = [n for n in names if n not in bound]
        if not names:
            return frozenset({ast.unparse(e)})
        choices = [self._alts(n, env) for n in names]
        total = 1
        for c in choices:
            total *= len(c)
        if total > self.max_alts * 2:
            return frozenset({ast.unparse(e)})
        out = set()
        for combo in self._product(*choices):
            sub = dict(zip(names, combo))

            class R(ast.NodeTransformer):
                def visit_Name(self, n):  # noqa: N802
                    if isinstance(n.ctx, ast.Load) and n.id in sub:
                        return ast.copy_location(ast.parse(sub[n.id], mode="eval").body, n)
                    return n

            out.add(ast.unparse(R().visit(self._copy(e))))
        return frozenset(out)

    def texts(self, expr: ast.AST) -> list[str]:
        """The unfolded alternatives of ``expr`` (a node of the function) at its program point."""
        return sorted(self._ev(expr, self.fw.at(expr)))

    def exprs(self, expr: ast.AST) -> list[ast.AST]:
        return [ast.parse(t, mode="eval").body for t in self.texts(expr)]
