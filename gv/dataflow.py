"""E5/E6 -- forward abstract interpretation of one function over its CFG.

The abstract value of a name is a frozenset of *tags* (join = union).  The tag ``"?"``
stands for "unknown": rules treat a value containing ``"?"`` as unknown and never report on
it (they may fail closed where the value is known today).
"""

from __future__ import annotations

import ast
from collections.abc import Callable

from gv.cfg import CFG

Tags = frozenset
UNKNOWN: Tags = frozenset({"?"})
Env = dict  # name -> Tags

EvalFn = Callable[[ast.AST, Env], Tags]


def join_env(a: Env, b: Env) -> Env:
    out = dict(a)
    for k, v in b.items():
        out[k] = out[k] | v if k in out else v
    return out


def target_key(t: ast.AST) -> str | None:
    """Key under which a store target is tracked: ``x`` or ``self.attr``."""
    if isinstance(t, ast.Name):
        return t.id
    if isinstance(t, ast.Attribute) and isinstance(t.value, ast.Name):
        return f"{t.value.id}.{t.attr}"
    return None


class Forward:
    """Forward dataflow with a user supplied expression evaluator.

    ``evaluate(expr, env)`` returns the tags of an expression.  ``unpack(tags, i, n)`` gives
    the tags of element ``i`` of an ``n``-tuple value (default: unknown).
    """

    def __init__(
        self,
        cfg: CFG,
        evaluate: EvalFn,
        init: Env | None = None,
        unpack: Callable[[ast.AST, Env, int, int], Tags] | None = None,
        loop_elem: Callable[[ast.AST, Env], Tags] | None = None,
        aug: Callable[[ast.AugAssign, Env], Tags] | None = None,
        effect: Callable[[ast.AST, Env], Env | None] | None = None,
    ):
        self.cfg = cfg
        self.evaluate = evaluate
        self.unpack = unpack
        self.loop_elem = loop_elem
        self.aug = aug
        self.effect = effect
        self.env_in: dict[int, Env] = {cfg.entry: dict(init or {})}
        self._run()

    def _assign(self, target: ast.AST, value_expr: ast.AST | None, tags: Tags, env: Env) -> None:
        if isinstance(target, (ast.Tuple, ast.List)):
            n = len(target.elts)
            for i, el in enumerate(target.elts):
                if isinstance(el, ast.Starred):
                    self._assign(el.value, None, UNKNOWN, env)
                    continue
                if value_expr is not None and isinstance(value_expr, (ast.Tuple, ast.List)) and len(value_expr.elts) == n:
                    self._assign(el, value_expr.elts[i], self.evaluate(value_expr.elts[i], env), env)
                elif value_expr is not None and self.unpack is not None:
                    self._assign(el, None, self.unpack(value_expr, env, i, n), env)
                else:
                    self._assign(el, None, UNKNOWN, env)
            return
        k = target_key(target)
        if k is not None:
            env[k] = tags

    def transfer(self, n: int, env: Env) -> Env:
        node = self.cfg.ast[n]
        kind = self.cfg.kind[n]
        env = dict(env)
        if kind == "stmt":
            if isinstance(node, ast.Assign):
                tags = self.evaluate(node.value, env)
                for t in node.targets:
                    self._assign(t, node.value, tags, env)
            elif isinstance(node, ast.AnnAssign) and node.value is not None:
                self._assign(node.target, node.value, self.evaluate(node.value, env), env)
            elif isinstance(node, ast.AugAssign):
                k = target_key(node.target)
                if k is not None:
                    env[k] = self.aug(node, env) if self.aug else UNKNOWN
            elif isinstance(node, (ast.FunctionDef, ast.ClassDef)):
                env[node.name] = UNKNOWN
            if self.effect is not None and node is not None:
                new = self.effect(node, env)
                if new is not None:
                    env = new
        elif kind == "loop":
            tags = self.loop_elem(node.iter, env) if self.loop_elem else UNKNOWN
            if isinstance(node.target, (ast.Tuple, ast.List)) and self.unpack is not None:
                n_el = len(node.target.elts)
                for i, el in enumerate(node.target.elts):
                    self._assign(el, None, self.unpack(node.iter, env, i, -n_el), env)
            else:
                self._assign(node.target, None, tags, env)
        elif kind == "with":
            for it in node.items:
                if it.optional_vars is not None:
                    self._assign(it.optional_vars, None, self.evaluate(it.context_expr, env), env)
        elif kind == "handler":
            if node.name:
                env[node.name] = UNKNOWN
        # walrus
        if node is not None and kind in ("stmt", "test"):
            root = node.test if kind == "test" else node
            for sub in ast.walk(root):
                if isinstance(sub, ast.NamedExpr):
                    env[sub.target.id] = self.evaluate(sub.value, env)
        return env

    def _run(self) -> None:
        g = self.cfg.g
        work = [self.cfg.entry]
        env_out: dict[int, Env] = {}
        it = 0
        while work:
            it += 1
            if it > 20000:  # pragma: no cover
                break
            n = work.pop()
            out = self.transfer(n, self.env_in.get(n, {}))
            if env_out.get(n) == out and n in env_out:
                continue
            env_out[n] = out
            for s in g.successors(n):
                cur = self.env_in.get(s)
                new = dict(out) if cur is None else join_env(cur, out)
                if new != cur:
                    self.env_in[s] = new
                    work.append(s)
                elif s not in env_out:
                    work.append(s)
        self.env_out = env_out

    def at(self, node: ast.AST) -> Env:
        """Environment in which ``node`` is evaluated."""
        return self.env_in.get(self.cfg.node_of(node), {})

    def tags(self, expr: ast.AST) -> Tags:
        return self.evaluate(expr, self.at(expr))


def possibly_unbound(func: ast.AST) -> list[tuple[ast.Name, str]]:
    """Local names read on some path before any assignment (definite-assignment analysis).

    Only names that are assigned somewhere in the function (and are neither parameters, globals
    nor nonlocals) are considered; comprehension variables are ignored.
    """
    from gv.astutil import param_names
    from gv.astutil import stmts_of
    from gv.cfg import cfg_of

    cfg = cfg_of(func)
    assigned: set[str] = set()
    skip: set[str] = set(param_names(func))
    for s in stmts_of(func):
        if isinstance(s, (ast.Global, ast.Nonlocal)):
            skip |= set(s.names)
        for n in ast.walk(s) if not isinstance(s, (ast.FunctionDef, ast.AsyncFunctionDef, ast.ClassDef)) else []:
            if isinstance(n, ast.Name) and isinstance(n.ctx, ast.Store):
                assigned.add(n.id)
        if isinstance(s, (ast.FunctionDef, ast.AsyncFunctionDef, ast.ClassDef)):
            assigned.add(s.name)
        if isinstance(s, (ast.Import, ast.ImportFrom)):
            for a in s.names:
                assigned.add((a.asname or a.name).split(".")[0])
    local = assigned - skip
    comp_vars = {n.id for c in ast.walk(func) if isinstance(c, (ast.ListComp, ast.SetComp, ast.DictComp, ast.GeneratorExp)) for g in c.generators for n in ast.walk(g.target) if isinstance(n, ast.Name)}
    local -= comp_vars
    DEF, UNDEF = frozenset({"def"}), frozenset({"undef"})

    def ev(e, env):
        return DEF

    fw = Forward(cfg, ev, init={n: UNDEF for n in local}, loop_elem=lambda it, env: DEF, unpack=lambda v, env, i, n: DEF, aug=lambda node, env: DEF)
    out = []
    for n in cfg.stmt_nodes():
        node = cfg.ast[n]
        env = fw.env_in.get(n, {})
        kind = cfg.kind[n]
        roots = []
        if kind == "stmt" and node is not None and not isinstance(node, (ast.FunctionDef, ast.AsyncFunctionDef, ast.ClassDef, ast.Try)):
            if isinstance(node, ast.Assign):
                roots = [node.value]
            elif isinstance(node, ast.AugAssign):
                roots = [node.value, node.target]
            elif isinstance(node, ast.AnnAssign):
                roots = [node.value] if node.value is not None else []
            else:
                roots = [node]
        elif kind == "test":
            roots = [node.test]
        elif kind == "loop":
            roots = [node.iter]
        elif kind == "with":
            roots = [it.context_expr for it in node.items]
        for r in roots:
            for x in ast.walk(r):
                if isinstance(x, (ast.Lambda, ast.ListComp, ast.SetComp, ast.DictComp, ast.GeneratorExp)):
                    continue
                if isinstance(x, ast.Name) and isinstance(x.ctx, ast.Load) and x.id in local and "undef" in env.get(x.id, DEF):
                    out.append((x, x.id))
    return out
