"""Comparison-only predicates decided over the finite set of orderings of their operands.

A function whose result depends on its operands ONLY through comparisons between them (and with the constants it
names) is a function of the weak ordering of those operands: there are finitely many, so the function is known
completely from its source.  ``truth_table`` checks the premise syntactically (every operand of every comparison is
one of the declared atoms or an integer constant; nothing else is computed) and folds the function over every
ordering; two spellings of the same predicate (guard clauses, one boolean expression, a chained comparison, negated
tests) give the same table.  Anything outside this fragment raises ``Unsupported`` and the caller keeps its
syntactic rule.
"""

from __future__ import annotations

import ast
import itertools
import operator

OPS = {ast.Eq: operator.eq, ast.NotEq: operator.ne, ast.Lt: operator.lt, ast.LtE: operator.le, ast.Gt: operator.gt, ast.GtE: operator.ge}


class Unsupported(Exception):
    pass


def _subst(e: ast.AST, local):
    """Replace the locals that stand for a non-boolean expression (``d = ds[0]``) by that expression."""
    import copy

    aliases = {k: v for k, v in local.items() if isinstance(v, ast.AST)}
    if not aliases or not any(isinstance(n, ast.Name) and n.id in aliases for n in ast.walk(e)):
        return e

    class R(ast.NodeTransformer):
        def visit_Name(self, n):  # noqa: N802
            if isinstance(n.ctx, ast.Load) and n.id in aliases:
                return copy.deepcopy(aliases[n.id])
            return n

    return R().visit(copy.deepcopy(e))


def _atom(e: ast.AST, atoms: dict[str, str]):
    if isinstance(e, ast.Constant) and isinstance(e.value, (int, float)) and not isinstance(e.value, bool):
        return ("const", e.value)
    if isinstance(e, ast.UnaryOp) and isinstance(e.op, ast.USub) and isinstance(e.operand, ast.Constant) and isinstance(e.operand.value, (int, float)):
        return ("const", -e.operand.value)
    t = ast.unparse(e)
    if t in atoms:
        return ("atom", atoms[t])
    raise Unsupported(f"operand `{t}` is neither a declared atom nor a constant")


def _eval(e: ast.AST, atoms, env, local):
    e = _subst(e, local)
    if isinstance(e, ast.Constant) and isinstance(e.value, bool):
        return e.value
    if isinstance(e, ast.Name) and e.id in local and not isinstance(local[e.id], ast.AST):
        return local[e.id]
    if isinstance(e, ast.UnaryOp) and isinstance(e.op, ast.Not):
        return not _truth(e.operand, atoms, env, local)
    if isinstance(e, ast.BoolOp):
        if isinstance(e.op, ast.And):
            for v in e.values:
                if not _truth(v, atoms, env, local):
                    return False
            return True
        for v in e.values:
            if _truth(v, atoms, env, local):
                return True
        return False
    if isinstance(e, ast.Call) and isinstance(e.func, ast.Name) and e.func.id == "bool" and len(e.args) == 1 and not e.keywords:
        return _truth(e.args[0], atoms, env, local)
    if isinstance(e, ast.IfExp):
        return _eval(e.body if _truth(e.test, atoms, env, local) else e.orelse, atoms, env, local)
    if isinstance(e, ast.Compare):
        left = _val(e.left, atoms, env)
        for op, right in zip(e.ops, e.comparators):
            if type(op) not in OPS:
                raise Unsupported(f"comparison operator {type(op).__name__}")
            r = _val(right, atoms, env)
            if not OPS[type(op)](left, r):
                return False
            left = r
        return True
    raise Unsupported(f"expression `{ast.unparse(e)}`")


def _val(e, atoms, env):
    kind, v = _atom(e, atoms)
    return v if kind == "const" else env[v]


def _truth(e, atoms, env, local):
    try:
        return bool(_eval(e, atoms, env, local))
    except Unsupported:
        # truthiness of a bare atom: non-zero
        return _val(_subst(e, local), atoms, env) != 0


def _run(stmts, atoms, env, local):
    for s in stmts:
        if isinstance(s, ast.Expr) and isinstance(s.value, ast.Constant):
            continue
        if isinstance(s, ast.Pass):
            continue
        if isinstance(s, ast.Return):
            if s.value is None:
                raise Unsupported("bare return")
            return ("ret", _truth(s.value, atoms, env, local))
        if isinstance(s, ast.If):
            r = _run(s.body if _truth(s.test, atoms, env, local) else s.orelse, atoms, env, local)
            if r is not None:
                return r
            continue
        if isinstance(s, ast.Assign) and len(s.targets) == 1 and isinstance(s.targets[0], ast.Name):
            try:
                local[s.targets[0].id] = _eval(s.value, atoms, env, local)
            except Unsupported:
                local[s.targets[0].id] = _subst(s.value, local)  # an alias of a non-boolean expression
            continue
        raise Unsupported(f"statement `{ast.unparse(s)[:60]}`")
    return None


def truth_table(func: ast.AST, atoms: dict[str, str], constants: tuple = (0,), where=None) -> dict[tuple, bool]:
    """{(value of each atom, in the order of sorted atom names): result} over a grid realising every weak ordering
    of the atoms and the constants.  ``atoms``: source text -> short name."""
    names = sorted(set(atoms.values()))
    consts = sorted(set(constants) | {n.value for n in ast.walk(func) if isinstance(n, ast.Constant) and isinstance(n.value, (int, float)) and not isinstance(n.value, bool)})
    # candidate values: every constant, the midpoints between consecutive constants, one below and one above, and a
    # second point in each open interval so that two atoms can be ordered both ways inside it
    pts = set(consts)
    lo, hi = consts[0], consts[-1]
    pts |= {lo - 1, lo - 2, hi + 1, hi + 2}
    for a, b in zip(consts, consts[1:]):
        pts |= {a + (b - a) / 3, a + 2 * (b - a) / 3}
    grid = sorted(pts)
    table = {}
    for combo in itertools.product(grid, repeat=len(names)):
        env = dict(zip(names, combo))
        if where is not None and not where(**env):
            continue
        r = _run(func.body, atoms, env, {})
        if r is None:
            raise Unsupported("a path ends without a return")
        table[combo] = r[1]
    return table


def same_predicate(func: ast.AST, atoms: dict[str, str], spec, constants: tuple = (0,), where=None) -> tuple[bool, str]:
    """Does ``func`` compute ``spec(**atom values)`` on every ordering (allowed by ``where``)?  (ok, first counter-example)."""
    names = sorted(set(atoms.values()))
    for combo, got in truth_table(func, atoms, constants, where).items():
        want = bool(spec(**dict(zip(names, combo))))
        if got != want:
            return False, ", ".join(f"{n}={v:g}" for n, v in zip(names, combo)) + f": returns {got}, expected {want}"
    return True, ""


def executed(stmts, atoms: dict[str, str], env: dict) -> list[ast.stmt]:
    """The simple statements executed, in order, when the tests (comparisons of the atoms) have the outcome they have
    under ``env``; stops at the first return."""
    out = []
    for st in stmts:
        if isinstance(st, ast.If):
            out.extend(executed(st.body if _truth(st.test, atoms, env, {}) else st.orelse, atoms, env))
            if out and isinstance(out[-1], ast.Return):
                return out
        elif isinstance(st, (ast.For, ast.While, ast.Try, ast.With, ast.Match)):
            raise Unsupported(f"statement `{ast.unparse(st)[:40]}`")
        else:
            out.append(st)
            if isinstance(st, ast.Return):
                return out
    return out
