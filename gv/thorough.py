"""Thorough tier: liveness witnesses (seeded faults) and refactoring twins, in memory.

A *witness* is a small edit of the current source (``old`` -> ``new`` in one file) that breaks
exactly one rule instance; it is applied to an in-memory overlay of the parsed tree (nothing is
written, nothing is executed) and the property's rules must report a new finding (of the
expected rule).  A rule whose witness applies but is not reported is vacuous: exit 2.

A *twin* is a behaviour-preserving rewrite; the set of findings must not change.

A witness/twin whose ``old`` text no longer occurs (the source was refactored) is counted as
``unapplicable`` and does not fail the run; at least ``MIN_APPLICABLE`` of a property's witnesses
must still apply.
"""

from __future__ import annotations

import importlib
import os
import random
from concurrent.futures import ProcessPoolExecutor
from multiprocessing import get_context

from gv.astutil import AnalysisError
from gv.index import Index

_STATE: dict = {}


def _apply(index: Index, w: dict) -> Index | None:
    files = {}
    edits = w.get("edits") or [w]
    for e in edits:
        rel = e["file"]
        if rel not in index.modules:
            return None
        src = files.get(rel, index.modules[rel].source)
        if src.count(e["old"]) < 1:
            return None
        if "nth" in e:
            # replace the n-th (0-based) occurrence only
            pos = -1
            for _ in range(e["nth"] + 1):
                pos = src.find(e["old"], pos + 1)
                if pos < 0:
                    return None
            src = src[:pos] + e["new"] + src[pos + len(e["old"]) :]
            files[rel] = src
            continue
        if e.get("count", 1) == 1 and src.count(e["old"]) != 1 and not e.get("first"):
            return None
        src = src.replace(e["old"], e["new"], 1 if e.get("first") or e.get("count", 1) == 1 else -1)
        files[rel] = src
    try:
        return index.overlay(files)
    except AnalysisError:
        return None


def _one(args):
    pid, kind, i = args
    from gv.check import run_rules

    index: Index = _STATE["index"]
    base_keys = _STATE["base_keys"]
    mod = importlib.import_module(f"gv.props.{pid.lower()}")
    w = (mod.WITNESSES if kind == "w" else mod.TWINS)[i]
    ov = _apply(index, w)
    if ov is None:
        return (kind, w["name"], "unapplicable", [])
    import signal

    def _timeout(signum, frame):
        raise TimeoutError("rule evaluation exceeded 120 s on this variant")

    signal.signal(signal.SIGALRM, _timeout)
    signal.alarm(120)
    try:
        ctx = run_rules(pid, ov, "quick")
        signal.alarm(0)
    except AnalysisError as e:
        # failing closed on a broken anchor also counts as noticing the fault
        return (kind, w["name"], "analysis-error", [str(e)[:200]])
    except Exception as e:  # noqa: BLE001
        signal.alarm(0)
        return (kind, w["name"], "crash", [f"{type(e).__name__}: {e}"[:300]])
    keys = {f.key for f in ctx.findings}
    new = sorted(keys - base_keys)
    gone = sorted(base_keys - keys)
    if kind == "w":
        exp = w.get("expect")
        hit = [k for k in new if exp is None or any(k[1].startswith(x) for x in ([exp] if isinstance(exp, str) else exp))]
        return (kind, w["name"], "killed" if hit else ("wrong-rule" if new else "survived"), [list(k) for k in new[:5]])
    return (kind, w["name"], "stable" if not new and not gone else "unstable", [list(k) for k in (new + gone)[:5]])


def run(pid: str, index: Index, base_ctx, seed: int = 0) -> dict:
    mod = importlib.import_module(f"gv.props.{pid.lower()}")
    witnesses = getattr(mod, "WITNESSES", [])
    twins = getattr(mod, "TWINS", [])
    _STATE["index"] = index
    _STATE["base_keys"] = {f.key for f in base_ctx.findings}
    jobs = [(pid, "w", i) for i in range(len(witnesses))] + [(pid, "t", i) for i in range(len(twins))]
    random.Random(seed).shuffle(jobs)
    results = []
    if jobs:
        n = min(16, os.cpu_count() or 1, len(jobs))
        if n > 1:
            with ProcessPoolExecutor(max_workers=n, mp_context=get_context("fork")) as ex:
                results = list(ex.map(_one, jobs, chunksize=1))
        else:
            results = [_one(j) for j in jobs]
    wres = [r for r in results if r[0] == "w"]
    tres = [r for r in results if r[0] == "t"]
    killed = [r for r in wres if r[2] == "killed"]
    # a witness that only makes the analysis fail (exit 2) is not a detection: the check would be "broken", not red
    vac = [f"{r[1]} ({r[2]}{': ' + str(r[3]) if r[3] else ''})" for r in wres if r[2] in ("survived", "wrong-rule", "crash", "analysis-error")]
    unapp = [r[1] for r in wres if r[2] == "unapplicable"]
    unstable = [f"{r[1]} {r[3]}" for r in tres if r[2] in ("unstable", "crash", "analysis-error")]
    min_app = getattr(mod, "MIN_APPLICABLE", max(1, len(witnesses) // 2)) if witnesses else 0
    out = {
        "witnesses_defined": len(witnesses),
        "witnesses_applied": len(wres) - len(unapp),
        "witnesses_killed": len(killed),
        "witnesses_unapplicable": unapp,
        "witness_results": [{"name": r[1], "verdict": r[2], "new_findings": r[3]} for r in sorted(wres, key=lambda r: r[1])],
        "twins_defined": len(twins),
        "twins_applied": len([r for r in tres if r[2] != "unapplicable"]),
        "twins_stable": len([r for r in tres if r[2] == "stable"]),
        "twin_results": [{"name": r[1], "verdict": r[2], "changed": r[3]} for r in sorted(tres, key=lambda r: r[1])],
    }
    if vac:
        out["vacuous_witnesses"] = vac
    if unstable:
        out["unstable_twins"] = unstable
    if witnesses and len(wres) - len(unapp) < min_app:
        out["vacuous_witnesses"] = [*out.get("vacuous_witnesses", []), f"only {len(wres) - len(unapp)} of {len(witnesses)} witnesses still apply (< {min_app})"]
    return out
