"""E6/K4 -- axis-kind typing of NumPy code.

Abstract values (hashable tuples, carried as one-element frozensets by :mod:`gv.dataflow`):

* ``("arr", kinds)``      an array whose axes have the given *kinds* (strings; ``"?"`` unknown)
* ``("dim", kind)``       an integer equal to the size of an axis of that kind
* ``("idx", kind)``       an integer index into an axis of that kind
* ``("idxarr", kinds, elem)``  an integer array (axes ``kinds``) whose elements index an axis of kind ``elem``
* ``("shape", kinds)``    the ``.shape`` tuple of an array
* ``("dict", value)``     a mapping whose values all have the abstract value ``value``
* ``("lp", kinds)``       ``LinearProblem(lhs)`` with ``lhs`` of these kinds
* ``("solver", kinds)``   ``factorized(lhs)``
* ``("scalar",)``         a number

Singleton axes are dropped everywhere (``a[i, :]`` of a sparse matrix is ``(1, n)``, of an ndarray
``(n,)``: both are ``(n,)`` here), so ``.T`` of a vector is a no-op.  Anything not understood is
``UNKNOWN`` and never produces a report.
"""

from __future__ import annotations

import ast
from collections.abc import Callable

from gv.astutil import dotted
from gv.astutil import last_attr
from gv.astutil import norm_stmt
from gv.astutil import stmts_of
from gv.cfg import CFG
from gv.cfg import cfg_of
from gv.dataflow import UNKNOWN
from gv.dataflow import Forward

SAME_SHAPE_METHODS = {"toarray", "todense", "copy", "astype", "tocsr", "tocsc", "todok", "tolil", "conj", "conjugate", "squeeze", "ravel", "flatten", "view", "__neg__", "tocoo"}
SAME_SHAPE_FUNCS = {"csc_matrix", "csr_matrix", "dok_matrix", "array", "asarray", "np_array", "atleast_1d", "atleast_2d", "abs", "absolute", "np_abs", "real", "imag", "negative", "exp", "log", "sqrt", "sign", "ascontiguousarray", "to_real", "copy", "deepcopy"}
CREATORS = {"empty", "zeros", "ones", "full"}
SCALAR_FUNCS = {"norm", "float", "int", "len_scalar", "max", "min", "sum_all"}


def one(v) -> frozenset:
    return frozenset({v})


def single(tags: frozenset):
    if len(tags) > 1 and all(isinstance(t, tuple) and t and t[0] == "dict" for t in tags):
        # an empty dict joined with the same dict after it was filled in a loop
        filled = {t for t in tags if t[1] is not None}
        if len(filled) == 1:
            return next(iter(filled))
    if len(tags) == 1:
        (v,) = tags
        if isinstance(v, tuple):
            return v
    return None


def arr(*kinds) -> frozenset:
    return one(("arr", tuple(kinds)))


class ShapeAnalysis:
    """Axis-kind typing of one function."""

    def __init__(self, func: ast.AST, init: dict[str, frozenset], *, extra_call: Callable | None = None, loop_elem: Callable | None = None, attr_hook: Callable | None = None):
        self.func = func
        self.cfg: CFG = cfg_of(func)
        self.problems: list[tuple[ast.AST, str]] = []
        self.sites: dict[int, tuple[ast.AST, str]] = {}  # typed sinks: id(node) -> (node, what)
        self._seen: set[tuple[int, str]] = set()
        self.extra_call = extra_call
        self.extra_loop = loop_elem
        self.attr_hook = attr_hook
        self._collect = False
        self.fw = Forward(self.cfg, self.evaluate, init=init, loop_elem=self._loop_elem, unpack=self._unpack, effect=self._effect, aug=self._aug)
        # second pass: evaluate every statement once more, now recording the problems
        self._collect = True
        self._check_all()

    # ------------------------------------------------------------ helpers
    def problem(self, node: ast.AST, msg: str) -> None:
        if not self._collect:
            return
        key = (id(node), msg)
        if key not in self._seen:
            self._seen.add(key)
            self.problems.append((node, msg))

    def site(self, node: ast.AST, what: str) -> None:
        if self._collect:
            self.sites.setdefault((id(node), what), (node, what))

    def value(self, expr: ast.AST):
        return single(self.fw.tags(expr))

    def _loop_elem(self, it: ast.AST, env) -> frozenset:
        if self.extra_loop is not None:
            r = self.extra_loop(self, it, env)
            if r is not None:
                return r
        if isinstance(it, ast.Call) and dotted(it.func) == "range" and len(it.args) == 1:
            v = single(self.evaluate(it.args[0], env))
            if v and v[0] == "dim":
                return one(("idx", v[1]))
        v = single(self.evaluate(it, env))
        if v and v[0] == "idxarr" and len(v[1]) == 1:
            return one(("idx", v[2]))
        if v and v[0] == "arr" and len(v[1]) >= 1:
            return one(("arr", v[1][1:])) if len(v[1]) > 1 else one(("scalar",))
        return UNKNOWN

    def _unpack(self, value_expr: ast.AST, env, i: int, n: int) -> frozenset:
        # for i, x in enumerate(seq)
        if n < 0 and isinstance(value_expr, ast.Call) and dotted(value_expr.func) == "enumerate" and value_expr.args:
            if i == 0:
                v = single(self.evaluate(value_expr.args[0], env))
                if v and v[0] in ("arr", "idxarr") and v[1]:
                    return one(("idx", v[1][0]))
                return UNKNOWN
            return self._loop_elem(value_expr.args[0], env)
        v = single(self.evaluate(value_expr, env))
        if v and v[0] == "shape" and 0 <= i < len(v[1]):
            return one(("dim", v[1][i]))
        return UNKNOWN

    def _aug(self, node: ast.AugAssign, env) -> frozenset:
        return self._binop(node, self.evaluate(node.target, env), self.evaluate(node.value, env), node.op)

    def _effect(self, node: ast.AST, env):
        # d[k] = value  makes d a dict of that value when d is an (empty) dict
        if isinstance(node, ast.Assign) and len(node.targets) == 1 and isinstance(node.targets[0], ast.Subscript) and isinstance(node.targets[0].value, ast.Name):
            name = node.targets[0].value.id
            cur = single(env.get(name, UNKNOWN))
            if cur and cur[0] == "dict":
                v = single(self.evaluate(node.value, env))
                if v is not None:
                    new = dict(env)
                    if cur[1] is None or cur[1] == v:
                        new[name] = one(("dict", v))
                    else:
                        new[name] = one(("dict", ("unknown",)))
                    return new
        return None

    # ----------------------------------------------------------- evaluate
    def evaluate(self, e: ast.AST, env) -> frozenset:
        try:
            return self._eval(e, env)
        except RecursionError:  # pragma: no cover
            return UNKNOWN

    def _eval(self, e: ast.AST, env) -> frozenset:
        if isinstance(e, ast.Name):
            return env.get(e.id, UNKNOWN)
        if isinstance(e, ast.Constant):
            if isinstance(e.value, (int, float, complex)) and not isinstance(e.value, bool):
                return one(("scalar",))
            return UNKNOWN
        if isinstance(e, ast.Dict) and not e.keys:
            return one(("dict", None))
        if isinstance(e, ast.Attribute):
            if self.attr_hook is not None:
                r = self.attr_hook(self, e, env)
                if r is not None:
                    return r
            d = dotted(e)
            if d and d in env:
                return env[d]
            base = single(self._eval(e.value, env))
            if base is None:
                return UNKNOWN
            if base[0] == "arr":
                if e.attr == "T":
                    return one(("arr", tuple(reversed(base[1]))))
                if e.attr in ("real", "imag", "data", "A"):
                    return one(base)
                if e.attr == "shape":
                    return one(("shape", base[1]))
                if e.attr == "size" and len(base[1]) == 1:
                    return one(("dim", base[1][0]))
                if e.attr == "ndim":
                    return one(("scalar",))
            if base[0] == "idxarr":
                if e.attr == "shape":
                    return one(("shape", base[1]))
                if e.attr == "size" and len(base[1]) == 1:
                    return one(("dim", base[1][0]))
            if base[0] == "lp" and e.attr == "solution":
                return one(("arr", (base[1][1],))) if len(base[1]) == 2 else UNKNOWN
            if base[0] == "scalar" and e.attr in ("real", "imag"):
                return one(base)
            return UNKNOWN
        if isinstance(e, ast.UnaryOp):
            return self._eval(e.operand, env)
        if isinstance(e, ast.BinOp):
            if isinstance(e.op, ast.MatMult):
                return self._dot(e, self._eval(e.left, env), self._eval(e.right, env))
            return self._binop(e, self._eval(e.left, env), self._eval(e.right, env), e.op)
        if isinstance(e, ast.Subscript):
            return self._subscript(e, env)
        if isinstance(e, ast.Tuple):
            vals = [single(self._eval(x, env)) for x in e.elts]
            if vals and all(v and v[0] == "dim" for v in vals):
                return one(("shape", tuple(v[1] for v in vals)))
            return UNKNOWN
        if isinstance(e, ast.Call):
            return self._call(e, env)
        if isinstance(e, ast.IfExp):
            a, b = self._eval(e.body, env), self._eval(e.orelse, env)
            return a if a == b else UNKNOWN
        if isinstance(e, ast.Compare) and len(e.ops) == 1 and not isinstance(e.ops[0], (ast.Is, ast.IsNot, ast.In, ast.NotIn)):
            # element-wise comparison: same broadcasting as arithmetic
            return self._binop(e, self._eval(e.left, env), self._eval(e.comparators[0], env), ast.Add())
        if isinstance(e, (ast.ListComp, ast.GeneratorExp, ast.SetComp)):
            env2 = dict(env)
            for g in e.generators:
                elem = self._loop_elem(g.iter, env2)
                if isinstance(g.target, ast.Name):
                    env2[g.target.id] = elem
                elif isinstance(g.target, (ast.Tuple, ast.List)):
                    for i, el in enumerate(g.target.elts):
                        if isinstance(el, ast.Name):
                            env2[el.id] = self._unpack(g.iter, env2, i, -len(g.target.elts))
            self._eval(e.elt, env2)
            return UNKNOWN
        if isinstance(e, ast.DictComp):
            # {k: v for t in it}: the same as the loop `d[k] = v` over `it`: a mapping whose values have the kind of v
            env2 = dict(env)
            for g in e.generators:
                elem = self._loop_elem(g.iter, env2)
                if isinstance(g.target, ast.Name):
                    env2[g.target.id] = elem
                elif isinstance(g.target, (ast.Tuple, ast.List)):
                    for i, el in enumerate(g.target.elts):
                        if isinstance(el, ast.Name):
                            env2[el.id] = self._unpack(g.iter, env2, i, -len(g.target.elts))
                for cond in g.ifs:
                    self._eval(cond, env2)
            self._eval(e.key, env2)
            v = single(self._eval(e.value, env2))
            return one(("dict", v if v is not None else ("unknown",)))
        if isinstance(e, (ast.List, ast.Set)):
            for x in e.elts:
                self._eval(x.value if isinstance(x, ast.Starred) else x, env)
            return UNKNOWN
        return UNKNOWN

    def _binop(self, node, a: frozenset, b: frozenset, op) -> frozenset:
        va, vb = single(a), single(b)
        if va is None or vb is None:
            return UNKNOWN
        if va[0] == "scalar" and vb[0] == "scalar":
            return one(("scalar",))
        if va[0] == "dim" or vb[0] == "dim" or va[0] == "idx" or vb[0] == "idx":
            # arithmetic on sizes/indices: keep the kind only for +- with a scalar
            for x, y in ((va, vb), (vb, va)):
                if x[0] in ("dim", "idx") and y[0] == "scalar" and isinstance(op, (ast.Add, ast.Sub)):
                    return one(x)
            if va[0] in ("dim", "idx") and vb[0] in ("dim", "idx"):
                return one(("scalar",))
            return UNKNOWN
        if va[0] == "scalar" and vb[0] == "arr":
            return one(vb)
        if vb[0] == "scalar" and va[0] == "arr":
            return one(va)
        if va[0] == "arr" and vb[0] == "arr":
            ka, kb = va[1], vb[1]
            if ka and kb:
                self.site(node, "broadcast")
            n = max(len(ka), len(kb))
            pa = ("1",) * (n - len(ka)) + ka
            pb = ("1",) * (n - len(kb)) + kb
            out = []
            for x, y in zip(pa, pb):
                if x == "1":
                    out.append(y)
                elif y == "1" or x == y:
                    out.append(x)
                elif x == "?" or y == "?":
                    out.append(x if y == "?" else y)
                else:
                    self.problem(node, f"broadcast unifies an axis of kind {x} with an axis of kind {y} in `{norm_stmt(node, 70)}` (operands {ka} and {kb})")
                    out.append("?")
            # a unit axis survives only where both operands have one explicitly
            keep = [not (x == "1" and y == "1" and (i < n - len(ka) or i < n - len(kb))) for i, (x, y) in enumerate(zip(pa, pb))]
            return one(("arr", tuple(k for k, kp in zip(out, keep) if kp)))
        return UNKNOWN

    def _dot(self, node, a: frozenset, b: frozenset) -> frozenset:
        va, vb = single(a), single(b)
        if va is None or vb is None or va[0] != "arr" or vb[0] != "arr":
            if va and vb and "scalar" in (va[0], vb[0]):
                return one(va if vb[0] == "scalar" else vb)
            return UNKNOWN
        ka, kb = va[1], vb[1]
        if not ka or not kb:
            return UNKNOWN
        inner_a, inner_b = ka[-1], kb[0]
        self.site(node, "product")
        if inner_a != inner_b and "?" not in (inner_a, inner_b):
            self.problem(node, f"matrix product contracts an axis of kind {inner_a} with an axis of kind {inner_b} in `{norm_stmt(node, 70)}` (operands {ka} and {kb})")
        return one(("arr", ka[:-1] + kb[1:]))

    def _index_axis(self, node, kinds, pos, ix, env):
        """Result axes (tuple) of indexing axis ``pos`` with expression ``ix``."""
        if pos >= len(kinds):
            return None
        k = kinds[pos]
        if isinstance(ix, ast.Slice):
            for bound in (ix.lower, ix.upper):
                if bound is not None:
                    bv = single(self._eval(bound, env))
                    if bv and bv[0] in ("idx", "dim") and bv[1] != k and "?" not in (bv[1], k):
                        self.problem(node, f"slice bound of kind {bv[1]} applied to an axis of kind {k} in `{norm_stmt(node, 70)}`")
            if ix.lower is None and ix.upper is None and ix.step is None:
                return (k,)
            return (k,)
        v = single(self._eval(ix, env))
        if v is None:
            return ("?",) if not isinstance(ix, ast.Constant) else ()
        if v[0] in ("idx",):
            self.site(node, "index")
            if v[1] != k and "?" not in (v[1], k):
                self.problem(node, f"index of kind {v[1]} applied to an axis of kind {k} in `{norm_stmt(node, 70)}`")
            return ()
        if v[0] == "dim":
            return ()
        if v[0] == "scalar":
            return ()
        if v[0] == "idxarr":
            self.site(node, "index-array")
            if v[2] != k and "?" not in (v[2], k):
                self.problem(node, f"index array whose elements are of kind {v[2]} applied to an axis of kind {k} in `{norm_stmt(node, 70)}`")
            return tuple(v[1])
        if v[0] == "arr":
            # boolean mask or integer array of unknown element kind
            return ("?",) * max(1, len(v[1]))
        return ("?",)

    def _subscript(self, e: ast.Subscript, env) -> frozenset:
        base = single(self._eval(e.value, env))
        if base is None:
            return UNKNOWN
        if base[0] == "dict":
            return one(base[1]) if base[1] and base[1] != ("unknown",) else UNKNOWN
        if base[0] == "shape":
            if isinstance(e.slice, ast.Constant) and isinstance(e.slice.value, int) and -len(base[1]) <= e.slice.value < len(base[1]):
                return one(("dim", base[1][e.slice.value]))
            return UNKNOWN
        if base[0] not in ("arr", "idxarr"):
            return UNKNOWN
        kinds = base[1]
        items = list(e.slice.elts) if isinstance(e.slice, ast.Tuple) else [e.slice]
        # ellipsis: align the remaining items on the last axes
        if any(isinstance(x, ast.Constant) and x.value is Ellipsis for x in items):
            pos_e = next(i for i, x in enumerate(items) if isinstance(x, ast.Constant) and x.value is Ellipsis)
            after = items[pos_e + 1 :]
            n_explicit = len([x for x in items if not (isinstance(x, ast.Constant) and (x.value is Ellipsis or x.value is None))])
            fill = max(0, len(kinds) - n_explicit)
            items = items[:pos_e] + [ast.Slice(None, None, None)] * fill + after
        # several index arrays / ranges are broadcast together into ONE axis (paired fancy indexing)
        def _as_index_array(ix):
            if isinstance(ix, ast.Call) and dotted(ix.func) in ("range", "arange") and len(ix.args) in (1, 2):
                v = single(self._eval(ix.args[-1], env))
                if v and v[0] == "dim":
                    return ("idxarr", (v[1],), v[1])
                return ("idxarr", ("?",), "?")
            v = single(self._eval(ix, env))
            return v if v and v[0] == "idxarr" else None

        arrays = [(i, _as_index_array(ix)) for i, ix in enumerate(items)]
        arrays = [(i, a) for i, a in arrays if a is not None]
        if len(arrays) >= 2 and base[0] == "arr":
            out = []
            placed = False
            for pos, ix in enumerate(items):
                if pos >= len(kinds):
                    return UNKNOWN
                a = dict(arrays).get(pos)
                if a is not None:
                    self.site(e, "index-array")
                    if a[2] != kinds[pos] and "?" not in (a[2], kinds[pos]):
                        self.problem(e, f"index array whose elements are of kind {a[2]} applied to an axis of kind {kinds[pos]} in `{norm_stmt(e, 70)}`")
                    if not placed:
                        out.extend(arrays[0][1][1])
                        placed = True
                else:
                    r = self._index_axis(e, kinds, pos, ix, env)
                    if r is None:
                        return UNKNOWN
                    out.extend(r)
            out.extend(kinds[len(items) :])
            return one(("arr", tuple(out))) if out else one(("scalar",))
        out = []
        pos = 0
        for ix in items:
            if (isinstance(ix, ast.Constant) and ix.value is None) or (isinstance(ix, ast.Name) and ix.id == "newaxis"):
                out.append("1")  # newaxis: a unit axis
                continue
            r = self._index_axis(e, kinds, pos, ix, env)
            if r is None:
                return UNKNOWN
            out.extend(r)
            pos += 1
        out.extend(kinds[pos:])
        if base[0] == "idxarr":
            return one(("idxarr", tuple(out), base[2])) if out else one(("idx", base[2]))
        return one(("arr", tuple(out))) if out else one(("scalar",))

    def _call(self, e: ast.Call, env) -> frozenset:
        if self.extra_call is not None:
            r = self.extra_call(self, e, env)
            if r is not None:
                return r
        name = last_attr(e)
        f = e.func
        # solver / linear problem
        if isinstance(f, ast.Name):
            fv = single(env.get(f.id, UNKNOWN))
            if fv and fv[0] == "solver" and e.args:
                rhs = single(self._eval(e.args[0], env))
                rows, cols = fv[1][0], fv[1][1]
                if rhs and rhs[0] == "arr" and rhs[1]:
                    self.site(e, "solve")
                    if rhs[1][0] != rows and "?" not in (rhs[1][0], rows):
                        self.problem(e, f"linear system with rows of kind {rows} solved for a right-hand side of kind {rhs[1][0]} in `{norm_stmt(e, 60)}`")
                    return one(("arr", (cols, *rhs[1][1:])))
                return UNKNOWN
        if name == "LinearProblem" and e.args:
            v = single(self._eval(e.args[0], env))
            return one(("lp", v[1])) if v and v[0] == "arr" and len(v[1]) == 2 else UNKNOWN
        if name == "factorized" and e.args:
            v = single(self._eval(e.args[0], env))
            return one(("solver", v[1])) if v and v[0] == "arr" and len(v[1]) == 2 else UNKNOWN
        if name in CREATORS and e.args:
            v = single(self._eval(e.args[0], env))
            if v and v[0] == "shape":
                return one(("arr", tuple(k for k in v[1])))
            if v and v[0] == "dim":
                return one(("arr", (v[1],)))
            if isinstance(e.args[0], (ast.Tuple, ast.List)):
                dims = [single(self._eval(x, env)) for x in e.args[0].elts]
                return one(("arr", tuple(d[1] if d and d[0] == "dim" else "?" for d in dims)))
            return UNKNOWN
        if name in ("zeros_like", "ones_like", "empty_like", "full_like") and e.args:
            return self._eval(e.args[0], env)
        if name == "len" and e.args:
            v = single(self._eval(e.args[0], env))
            if v and v[0] in ("arr", "idxarr") and v[1]:
                return one(("dim", v[1][0]))
            return UNKNOWN
        if name in ("dot", "matmul"):
            if isinstance(f, ast.Attribute) and e.args and dotted(f.value) not in ("np", "numpy"):
                return self._dot(e, self._eval(f.value, env), self._eval(e.args[0], env))
            if len(e.args) == 2:
                return self._dot(e, self._eval(e.args[0], env), self._eval(e.args[1], env))
        if name in SAME_SHAPE_METHODS and isinstance(f, ast.Attribute):
            return self._eval(f.value, env)
        if name == "atleast_2d" and e.args and isinstance(f, ast.Name):
            v = single(self._eval(e.args[0], env))
            if v and v[0] == "arr" and len(v[1]) == 1:
                return one(("arr", ("1", v[1][0])))
            if v and v[0] == "scalar":
                return one(("arr", ("1", "1")))
            return self._eval(e.args[0], env)
        if name in SAME_SHAPE_FUNCS and e.args and isinstance(f, ast.Name):
            return self._eval(e.args[0], env)
        if name in ("norm", "float", "int", "time"):
            return one(("scalar",))
        if name == "where" and len(e.args) == 3:
            a = self._binop(e, self._eval(e.args[0], env), self._eval(e.args[1], env), ast.Add())
            return self._binop(e, a, self._eval(e.args[2], env), ast.Add())
        if name == "transpose" and len(e.args) == 1 and (isinstance(f, ast.Name) or dotted(getattr(f, "value", None)) in ("np", "numpy")):
            v = single(self._eval(e.args[0], env))
            return one(("arr", tuple(reversed(v[1])))) if v and v[0] == "arr" else UNKNOWN
        if name == "transpose" and isinstance(f, ast.Attribute) and not e.args:
            v = single(self._eval(f.value, env))
            return one(("arr", tuple(reversed(v[1])))) if v and v[0] == "arr" else UNKNOWN
        if name == "reshape" and isinstance(f, ast.Attribute) and e.args:
            shp = e.args[0] if len(e.args) == 1 else ast.Tuple(elts=list(e.args), ctx=ast.Load())
            if isinstance(shp, (ast.Tuple, ast.List)):
                dims = [single(self._eval(x, env)) for x in shp.elts]
                return one(("arr", tuple(d[1] if d and d[0] == "dim" else "?" for d in dims)))
            return UNKNOWN
        if name == "tile" and len(e.args) == 2 and not isinstance(e.args[1], (ast.Tuple, ast.List)):
            return one(("arr", ("?",)))
        if name == "tile" and len(e.args) == 2:
            v = single(self._eval(e.args[0], env))
            reps = e.args[1]
            if v and v[0] == "arr" and isinstance(reps, ast.Tuple) and len(reps.elts) == 2:
                r0 = single(self._eval(reps.elts[0], env))
                if isinstance(reps.elts[1], ast.Constant) and reps.elts[1].value == 1 and len(v[1]) == 1:
                    return one(("arr", (r0[1] if r0 and r0[0] == "dim" else "?", v[1][0])))
            return UNKNOWN
        # not modelled: still look inside the arguments (indexing / products there are checked)
        for a in e.args:
            self._eval(a.value if isinstance(a, ast.Starred) else a, env)
        for k in e.keywords:
            self._eval(k.value, env)
        if isinstance(f, ast.Attribute):
            self._eval(f.value, env)
        return UNKNOWN

    # -------------------------------------------------------------- sinks
    def _check_all(self) -> None:
        for n in self.cfg.stmt_nodes():
            node = self.cfg.ast[n]
            env = self.fw.env_in.get(n, {})
            kind = self.cfg.kind[n]
            if kind == "stmt" and isinstance(node, (ast.Assign, ast.AugAssign, ast.AnnAssign)):
                value = node.value
                if value is None:
                    continue
                vt = self.evaluate(value, env)
                targets = node.targets if isinstance(node, ast.Assign) else [node.target]
                for t in targets:
                    self._check_store(node, t, vt, env)
            elif kind == "stmt" and isinstance(node, (ast.Expr, ast.Return)) and node.value is not None:
                self.evaluate(node.value, env)
            elif kind == "test":
                self.evaluate(node.test, env)
            elif kind == "loop":
                self.evaluate(node.iter, env)

    def _check_store(self, stmt, target, vt: frozenset, env) -> None:
        v = single(vt)
        if isinstance(target, ast.Subscript):
            tt = single(self._subscript(target, env))
            if tt and v and tt[0] == "arr" and v[0] == "arr":
                self._binop(stmt, one(tt), one(v), ast.Add())
            elif tt and v and tt[0] == "scalar" and v[0] == "arr" and v[1] and "?" not in v[1]:
                pass
        elif isinstance(target, ast.Attribute) and target.attr == "rhs":
            lp = single(self.evaluate(target.value, env))
            if lp and lp[0] == "lp" and v and v[0] == "arr" and v[1]:
                rows = lp[1][0]
                self.site(stmt, "rhs")
                if v[1][0] != rows and "?" not in (v[1][0], rows):
                    self.problem(stmt, f"right-hand side of kind {v[1][0]} given to a linear system whose rows are of kind {rows} in `{norm_stmt(stmt, 70)}`")


def specialise(func: ast.AST, facts: dict[str, bool]) -> ast.AST:
    """Deep copy of ``func`` in which the expressions whose text is a key of ``facts`` are replaced by the constant."""
    import copy as _copy

    new = _copy.deepcopy(func)

    class T(ast.NodeTransformer):
        def generic_visit(self, node):
            node = super().generic_visit(node)
            if isinstance(node, ast.expr):
                txt = norm_stmt(node)
                if txt in facts:
                    return ast.copy_location(ast.Constant(value=facts[txt]), node)
                if isinstance(node, ast.UnaryOp) and isinstance(node.op, ast.Not) and isinstance(node.operand, ast.Constant) and isinstance(node.operand.value, bool):
                    return ast.copy_location(ast.Constant(value=not node.operand.value), node)
                if isinstance(node, ast.IfExp) and isinstance(node.test, ast.Constant) and isinstance(node.test.value, bool):
                    return node.body if node.test.value else node.orelse
                if isinstance(node, ast.BoolOp) and any(isinstance(v, ast.Constant) and isinstance(v.value, bool) for v in node.values):
                    absorbing = isinstance(node.op, ast.Or)
                    rest = []
                    for v in node.values:
                        if isinstance(v, ast.Constant) and isinstance(v.value, bool):
                            if v.value is absorbing:
                                # everything before was neutral or unknown: the result is the absorbing constant only if nothing unknown precedes
                                if not rest:
                                    return ast.copy_location(ast.Constant(value=absorbing), node)
                                rest.append(v)
                                break
                            continue  # neutral element
                        rest.append(v)
                    if not rest:
                        return ast.copy_location(ast.Constant(value=not absorbing), node)
                    if len(rest) == 1:
                        return rest[0]
                    node.values = rest
            return node

    new = T().visit(new)
    ast.fix_missing_locations(new)
    return new
