"""Reusable rule templates (K1, K2, K9, K11, K12 ...)."""

from __future__ import annotations

import ast
from collections.abc import Callable
from collections.abc import Iterable

from gv.astutil import FUNC_TYPES
from gv.astutil import AnalysisError
from gv.astutil import call_name
from gv.astutil import calls_in
from gv.astutil import dotted
from gv.astutil import is_self_attr
from gv.astutil import last_attr
from gv.astutil import mangle
from gv.astutil import norm_stmt
from gv.astutil import param_names
from gv.astutil import stmts_of
from gv.astutil import walk_body
from gv.cfg import CFG
from gv.cfg import cfg_of
from gv.index import ClassInfo
from gv.index import Index
from gv.report import Ctx
from gv.report import cname


# ------------------------------------------------------------------ locating
def method_calls(func: ast.AST, pred: Callable[[ast.Call], bool]) -> list[ast.Call]:
    return [n for n in walk_body(func) if isinstance(n, ast.Call) and pred(n)]


def calls_named(func: ast.AST, *names: str) -> list[ast.Call]:
    """Calls whose callee's last component is one of ``names``."""
    return method_calls(func, lambda c: last_attr(c) in names)


def self_calls(func: ast.AST, name: str, cls_name: str | None = None) -> list[ast.Call]:
    """Calls ``self.<name>(...)`` (``name`` may be private: matched raw or mangled)."""
    want = {name}
    if cls_name:
        want.add(mangle(cls_name, name))
    return method_calls(
        func,
        lambda c: isinstance(c.func, ast.Attribute)
        and c.func.attr in want
        and isinstance(c.func.value, ast.Name)
        and c.func.value.id in ("self", "cls"),
    )


def super_calls(func: ast.AST, name: str | None = None) -> list[ast.Call]:
    def pred(c: ast.Call) -> bool:
        f = c.func
        return (
            isinstance(f, ast.Attribute)
            and (name is None or f.attr == name)
            and isinstance(f.value, ast.Call)
            and isinstance(f.value.func, ast.Name)
            and f.value.func.id == "super"
        )

    return method_calls(func, pred)


def assigns_to_self(func: ast.AST, attr: str, cls_name: str | None = None) -> list[ast.stmt]:
    """Statements that rebind ``self.<attr>`` (Assign / AnnAssign / AugAssign)."""
    want = {attr}
    if cls_name:
        want.add(mangle(cls_name, attr))
    out = []
    for s in stmts_of(func):
        targets: list[ast.AST] = []
        if isinstance(s, ast.Assign):
            for t in s.targets:
                targets.extend(t.elts if isinstance(t, (ast.Tuple, ast.List)) else [t])
        elif isinstance(s, (ast.AnnAssign, ast.AugAssign)):
            if isinstance(s, ast.AnnAssign) and s.value is None:
                continue
            targets = [s.target]
        if any(isinstance(t, ast.Attribute) and t.attr in want and isinstance(t.value, ast.Name) and t.value.id == "self" for t in targets):
            out.append(s)
    return out


def first_effectful_stmt(func: ast.FunctionDef) -> ast.stmt | None:
    for s in func.body:
        if isinstance(s, ast.Expr) and isinstance(s.value, ast.Constant) and isinstance(s.value.value, str):
            continue
        return s
    return None


def enclosing_stmt(func: ast.AST, node: ast.AST) -> ast.stmt:
    """Innermost statement of ``func`` containing ``node``."""
    best = None
    for s in stmts_of(func):
        if any(sub is node for sub in ast.walk(s)):
            best = s if best is None or _size(s) < _size(best) else best
    if best is None:
        raise AnalysisError(f"node {norm_stmt(node)} not in function")
    return best


def _size(n: ast.AST) -> int:
    return sum(1 for _ in ast.walk(n))


# ------------------------------------------------------------- K9 forwarding
def rule_passthrough_names(ctx: Ctx, rule: str, cls: ClassInfo, what: str) -> int:
    """A parameter handed on to a method that has a parameter of the same name lands on THAT parameter.

    ``def untransform_vect(self, vector, no_check=False)`` calling ``self.unnormalize_vect(vector, no_check)`` binds the
    flag to the callee's second parameter (``minus_lb``) although the callee has a ``no_check`` of its own: the call
    type-checks, runs, and silently changes the meaning of both flags.  Decided on the binding parameter -> argument
    that the call normalisation (gv.canon) computes from the signatures of the analysed tree.
    """
    n = 0
    for mname, f in sorted(cls.methods.items()):
        own = set(param_names(f)) - {"self", "cls"}
        for call in walk_body(f):
            if not isinstance(call, ast.Call) or not isinstance(call.func, ast.Attribute) or dotted(call.func.value) not in ("self", "super()", "cls"):
                continue
            if any(isinstance(a, ast.Starred) for a in call.args):
                continue
            # the callee as this class sees it (a subclass may extend the signature: its own calls are checked there)
            found = ctx.index.resolve_method(cls, mangle(cls.name, call.func.attr)) or ctx.index.resolve_method(cls, call.func.attr)
            if found is None:
                continue
            callee = [p_ for p_ in param_names(found[1]) if p_ not in ("self", "cls")]
            if len(call.args) > len(callee):
                continue
            bind = {callee[i]: a for i, a in enumerate(call.args)}
            bind.update({k.arg: k.value for k in call.keywords if k.arg})
            for p_, a in bind.items():
                if isinstance(a, ast.Name) and a.id in own and a.id in callee:
                    n += 1
                    ctx.ob(rule, cname(cls.module.relpath, cls.qualname, mname), a.id == p_, f"{what}: `{a.id}` is passed to {call.func.attr}() as its parameter `{p_}` although {call.func.attr}() has a parameter `{a.id}`: a positional argument landed on the wrong parameter", node=call, stmt=f"{a.id} reaches the parameter {a.id} of {call.func.attr}")
    return n


def rule_forwarding(ctx: Ctx, rule: str, base: ClassInfo, methods: Iterable[str], what: str) -> int:
    """An override that delegates to ``super().m(...)`` forwards every shared parameter.

    Only plain delegations are looked at: the ``super()`` call carries the override's own first
    data parameter as first argument.  A parameter is shared when both signatures have it; it is
    forwarded when it appears as keyword ``p=p`` or positionally at the callee's position.
    """
    index = ctx.index
    n = 0
    for m in methods:
        for cls in index.subclasses(base):
            if m not in cls.methods:
                continue
            over = cls.methods[m]
            found = index.resolve_method(cls, m, after=cls)
            if found is None:
                continue
            sup_cls, sup = found
            own = [p for p in param_names(over) if p != "self"]
            theirs = [p for p in param_names(sup) if p != "self"]
            shared = [p for p in own if p in theirs]
            for call in super_calls(over, m):
                if not call.args or not (isinstance(call.args[0], ast.Name) and call.args[0].id == own[0]):
                    continue  # not a plain delegation of the override's own input
                passed = set()
                for i, a in enumerate(call.args):
                    if i < len(theirs) and isinstance(a, ast.Name) and a.id == theirs[i]:
                        passed.add(theirs[i])
                for kw in call.keywords:
                    if kw.arg is None:
                        passed.update(shared)  # **kwargs forwards everything
                    elif isinstance(kw.value, ast.Name) and kw.value.id == kw.arg:
                        passed.add(kw.arg)
                    elif kw.arg in shared:
                        # given another value on purpose (e.g. a literal): counts as handled only
                        # when the override does not have the parameter's value to forward
                        pass
                missing = [p for p in shared if p not in passed]
                n += 1
                ctx.ob(
                    rule,
                    cname(cls.module.relpath, cls.qualname, m),
                    not missing,
                    f"{what}: the override drops {missing} when delegating to {sup_cls.qualname}.{m}, "
                    "so the caller's value is silently replaced by the default",
                    node=call,
                    slots={"shared": shared, "forwarded": sorted(passed)},
                )
    return n


# ------------------------------------------------------- K11 who may write
def rule_private_attr_writers(
    ctx: Ctx,
    rule: str,
    owner: ClassInfo,
    attr: str,
    allowed_methods: set[str],
    what: str,
    *,
    kinds: tuple[str, ...] = ("rebind", "item", "del", "call"),
) -> None:
    """Only the listed methods of ``owner`` modify ``self.<attr>`` (a private attribute).

    The mangled name must not be used anywhere else in the source tree.
    """
    from gv.effects import writes_in

    mangled = owner.mangle(attr)
    for name, func in {**owner.methods, **{f"{k}@setter": v for k, v in owner.setters.items()}}.items():
        ws = [w for w in writes_in(func, owner.name) if w.attr in (attr, mangled) and w.kind in kinds]
        if not ws:
            continue
        ok = name in allowed_methods
        ctx.ob(
            rule,
            cname(owner.module.relpath, owner.qualname, name),
            ok,
            f"{what}: {owner.name}.{name} modifies {attr} but is not one of the owner methods {sorted(allowed_methods)}",
            node=ws[0].node,
        )
    # no use of the mangled name from outside the class
    if mangled != attr:
        for mod in ctx.index.modules.values():
            if mangled not in mod.source:
                continue
            for node in ast.walk(mod.tree):
                hit = (isinstance(node, ast.Attribute) and node.attr == mangled) or (
                    isinstance(node, ast.Constant) and isinstance(node.value, str) and node.value == mangled
                )
                if hit:
                    ctx.ob(
                        rule,
                        cname(mod.relpath, None, "<module>"),
                        False,
                        f"{what}: the mangled name {mangled} is used outside {owner.name}",
                        node=node,
                    )
    ctx.ob(rule, cname(owner.module.relpath, owner.qualname), True, what, stmt=f"no foreign use of {mangled}")


# ------------------------------------------------------- K1 path helpers
def nodes_of_calls(cfg: CFG, calls: Iterable[ast.AST]) -> set[int]:
    return {cfg.node_of(c) for c in calls}


def raises_unconditionally(body: list[ast.stmt], exc_names: set[str] | None = None) -> bool:
    """The block ends by raising (optionally one of the named exceptions) on every path."""
    if not body:
        return False
    last = body[-1]
    if isinstance(last, ast.Raise):
        if exc_names is None:
            return True
        e = last.exc.func if isinstance(last.exc, ast.Call) else last.exc
        d = dotted(e) if e is not None else None
        return d is not None and d.split(".")[-1] in exc_names
    if isinstance(last, ast.If) and last.orelse:
        return raises_unconditionally(last.body, exc_names) and raises_unconditionally(last.orelse, exc_names)
    return False
