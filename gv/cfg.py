"""E2 -- statement-level control-flow graph of one function on networkx."""

from __future__ import annotations

import ast
from collections.abc import Callable
from collections.abc import Iterable

import networkx as nx

from gv.astutil import FUNC_TYPES
from gv.astutil import AnalysisError
from gv.astutil import dotted
from gv.astutil import norm_stmt

CATCH_ALL = {"Exception", "BaseException"}


class CFG:
    """Control-flow graph.

    Nodes are integers; ``self.kind[n]`` is one of ``entry exit raise stmt test loop with
    handler branch match case``; ``self.ast[n]`` is the statement (or handler) the node
    stands for.  Every ``if``/``while``/``for`` test has two *branch* pseudo nodes so that
    "is executed only under the true branch of t" is a dominance query on a node.

    Edge attribute ``k``: ``n`` normal, ``exc`` exceptional (from a statement inside a
    ``try`` body to the handlers, and from ``raise``).
    """

    def __init__(self, func: ast.AST):
        self.func = func
        self.g = nx.DiGraph()
        self.kind: dict[int, str] = {}
        self.ast: dict[int, ast.AST | None] = {}
        self.branch: dict[tuple[int, bool], int] = {}
        self.branch_of: dict[int, tuple[int, bool]] = {}
        self._owner: dict[int, int] = {}
        self._loops: list[dict] = []
        self._tries: list[dict] = []
        self._n = 0
        self.entry = self._new("entry", None)
        self.exit = self._new("exit", None)
        self.raise_exit = self._new("raise", None)
        outs = self._seq(func.body, [self.entry])
        for o in outs:
            self._edge(o, self.exit)
        self._dom = None
        self._pdom: dict[bool, dict[int, int]] = {}

    # ----------------------------------------------------------------- build
    def _new(self, kind: str, node: ast.AST | None, owned: Iterable[ast.AST] = ()) -> int:
        n = self._n
        self._n += 1
        self.g.add_node(n)
        self.kind[n] = kind
        self.ast[n] = node
        if node is not None and kind not in ("branch",):
            self._owner.setdefault(id(node), n)
        for root in owned:
            if root is None:
                continue
            for sub in ast.walk(root):
                self._owner.setdefault(id(sub), n)
        # exceptional edges to the enclosing handlers
        if kind not in ("entry", "exit", "raise", "branch", "handler"):
            for fr in reversed(self._tries):
                if fr["in_body"]:
                    for h in fr["handlers"]:
                        self.g.add_edge(n, h, k="exc")
                    break
        return n

    def _edge(self, a: int, b: int, k: str = "n") -> None:
        if self.g.has_edge(a, b) and self.g[a][b]["k"] == "n":
            return
        self.g.add_edge(a, b, k=k)

    def _connect(self, preds: list[int], n: int) -> None:
        for p in preds:
            self._edge(p, n)

    def _seq(self, stmts: list[ast.stmt], preds: list[int]) -> list[int]:
        for s in stmts:
            preds = self._stmt(s, preds)
        return preds

    def _branches(self, t: int, *, true: bool = True, false: bool = True) -> tuple[int | None, int | None]:
        bt = bf = None
        if true:
            bt = self._new("branch", self.ast[t])
            self.branch[t, True] = bt
            self.branch_of[bt] = (t, True)
            self._edge(t, bt)
        if false:
            bf = self._new("branch", self.ast[t])
            self.branch[t, False] = bf
            self.branch_of[bf] = (t, False)
            self._edge(t, bf)
        return bt, bf

    def _jump(self, n: int, target_kind: str) -> None:
        """Route a return/raise/break/continue through enclosing ``finally`` blocks."""
        # innermost try frames with a finally body intercept the jump
        for fr in reversed(self._tries):
            if fr.get("finally_pending") is not None and not fr.get("in_finally"):
                if target_kind in ("break", "continue") and fr["loop_depth"] < len(self._loops):
                    # the loop is inside the try: no interception
                    continue
                fr["finally_pending"].append((n, target_kind))
                return
        self._jump_direct(n, target_kind)

    def _jump_direct(self, n: int, target_kind: str) -> None:
        if target_kind == "return":
            self._edge(n, self.exit)
        elif target_kind == "raise":
            self._edge(n, self.raise_exit, "exc")
        elif target_kind == "break":
            self._loops[-1]["breaks"].append(n)
        elif target_kind == "continue":
            self._edge(n, self._loops[-1]["head"])

    def _stmt(self, s: ast.stmt, preds: list[int]) -> list[int]:
        if isinstance(s, ast.If):
            t = self._new("test", s, [s.test])
            self._connect(preds, t)
            const = _const_truth(s.test)
            bt, bf = self._branches(t, true=const is not False, false=const is not True)
            outs: list[int] = []
            if bt is not None:
                outs += self._seq(s.body, [bt])
            if bf is not None:
                outs += self._seq(s.orelse, [bf])
            return outs
        if isinstance(s, ast.While):
            t = self._new("test", s, [s.test])
            self._connect(preds, t)
            const = _const_truth(s.test)
            bt, bf = self._branches(t, true=const is not False, false=const is not True)
            frame = {"head": t, "breaks": []}
            self._loops.append(frame)
            if bt is not None:
                body_out = self._seq(s.body, [bt])
                self._connect(body_out, t)
            self._loops.pop()
            outs = list(frame["breaks"])
            if bf is not None:
                outs += self._seq(s.orelse, [bf])
            return outs
        if isinstance(s, (ast.For, ast.AsyncFor)):
            h = self._new("loop", s, [s.target, s.iter])
            self._connect(preds, h)
            bt, bf = self._branches(h)
            frame = {"head": h, "breaks": []}
            self._loops.append(frame)
            body_out = self._seq(s.body, [bt])
            self._connect(body_out, h)
            self._loops.pop()
            return list(frame["breaks"]) + self._seq(s.orelse, [bf])
        if isinstance(s, (ast.With, ast.AsyncWith)):
            owned = []
            for it in s.items:
                owned.append(it.context_expr)
                if it.optional_vars is not None:
                    owned.append(it.optional_vars)
            h = self._new("with", s, owned)
            self._connect(preds, h)
            return self._seq(s.body, [h])
        if isinstance(s, ast.Try) or type(s).__name__ == "TryStar":
            return self._try(s, preds)
        if isinstance(s, ast.Match):
            m = self._new("match", s, [s.subject])
            self._connect(preds, m)
            outs = []
            irrefutable = False
            prev = m
            for case in s.cases:
                c = self._new("case", case, [case.pattern, case.guard] if case.guard else [case.pattern])
                self._edge(prev, c)
                outs += self._seq(case.body, [c])
                if isinstance(case.pattern, ast.MatchAs) and case.pattern.pattern is None and case.guard is None:
                    irrefutable = True
                prev = c
            if not irrefutable:
                outs.append(prev)
            return outs
        # simple statements
        n = self._new("stmt", s, [s] if not isinstance(s, (*FUNC_TYPES, ast.ClassDef)) else [])
        self._connect(preds, n)
        if isinstance(s, ast.Return):
            self._jump(n, "return")
            return []
        if isinstance(s, ast.Raise):
            self._raise(n)
            return []
        if isinstance(s, ast.Break):
            self._jump(n, "break")
            return []
        if isinstance(s, ast.Continue):
            self._jump(n, "continue")
            return []
        return [n]

    def _raise(self, n: int) -> None:
        # edges to the handlers of the innermost try whose body we are in were added by
        # _new; propagate outwards unless a catch-all handler exists
        for fr in reversed(self._tries):
            if fr["in_body"]:
                for h in fr["handlers"]:
                    self.g.add_edge(n, h, k="exc")
                if fr["catch_all"]:
                    return
        self._jump(n, "raise")

    def _try(self, s: ast.Try, preds: list[int]) -> list[int]:
        handlers = []
        catch_all = False
        for h in s.handlers:
            hn = self._new("handler", h, [h.type] if h.type is not None else [])
            handlers.append(hn)
            names = _handler_names(h)
            if h.type is None or names & CATCH_ALL:
                catch_all = True
        frame = {
            "handlers": handlers,
            "catch_all": catch_all,
            "in_body": True,
            "finally_pending": [] if s.finalbody else None,
            "in_finally": False,
            "loop_depth": len(self._loops),
        }
        self._tries.append(frame)
        start = self._new("stmt", s)  # the ``try`` keyword itself (no effect)
        self._connect(preds, start)
        body_out = self._seq(s.body, [start])
        frame["in_body"] = False
        outs = self._seq(s.orelse, body_out)
        for hn, h in zip(handlers, s.handlers):
            outs += self._seq(h.body, [hn])
        if s.finalbody:
            frame["in_finally"] = True
            pending = frame["finally_pending"]
            fin_entry_preds = outs + [n for n, _ in pending]
            fin_out = self._seq(s.finalbody, fin_entry_preds)
            self._tries.pop()
            for kind in sorted({k for _, k in pending}):
                for fo in fin_out:
                    # over-approximation: every exit of ``finally`` may resume any pending jump
                    self._jump(fo, kind)
            return fin_out if outs else []
        self._tries.pop()
        return outs

    # --------------------------------------------------------------- queries
    def node_of(self, node: ast.AST) -> int:
        """CFG node that evaluates ``node`` (an expression or a statement)."""
        try:
            return self._owner[id(node)]
        except KeyError:
            raise AnalysisError(
                f"node {norm_stmt(node)!r} is not part of the CFG of {getattr(self.func, 'name', '?')}"
            ) from None

    def has(self, node: ast.AST) -> bool:
        return id(node) in self._owner

    def nodes(self, pred: Callable[[int], bool] | None = None) -> list[int]:
        return [n for n in self.g.nodes if pred is None or pred(n)]

    def stmt_nodes(self) -> list[int]:
        return [n for n in self.g.nodes if self.kind[n] not in ("entry", "exit", "raise", "branch")]

    def _graph(self, exc: bool) -> nx.DiGraph:
        if exc:
            return self.g
        return nx.subgraph_view(self.g, filter_edge=lambda a, b: self.g[a][b]["k"] != "exc")

    def dominators(self) -> dict[int, int]:
        if self._dom is None:
            self._dom = nx.immediate_dominators(self.g, self.entry)
        return self._dom

    def dominates(self, a: int, b: int) -> bool:
        """Every path (normal or exceptional) from entry to ``b`` passes ``a``."""
        dom = self.dominators()
        if b not in dom:
            return True  # unreachable
        cur = b
        while True:
            if cur == a:
                return True
            nxt = dom.get(cur)
            if nxt is None or nxt == cur:
                return False
            cur = nxt

    def under_branch(self, n: int, test: int, value: bool) -> bool:
        """``n`` executes only when ``test`` evaluated to ``value`` (last time it ran)."""
        b = self.branch.get((test, value))
        return b is not None and self.dominates(b, n)

    def reachable(self, a: int, b: int, avoid: Iterable[int] = (), *, exc: bool = False) -> bool:
        return self.path(a, b, avoid, exc=exc) is not None

    def path(self, a: int, b: int, avoid: Iterable[int] = (), *, exc: bool = False) -> list[int] | None:
        """A path a -> ... -> b (length >= 1 edge unless a == b) avoiding nodes in ``avoid``."""
        avoid = set(avoid) - {a, b}
        g = self._graph(exc)
        seen = {a}
        stack = [(a, [a])]
        if a == b:
            return [a]
        while stack:
            cur, p = stack.pop()
            for nx_ in g.successors(cur):
                if nx_ in avoid or nx_ in seen:
                    continue
                if nx_ == b:
                    return [*p, nx_]
                seen.add(nx_)
                stack.append((nx_, [*p, nx_]))
        return None

    def must_pass(self, src: int, through: Iterable[int], dst: int | None = None, *, exc: bool = False) -> bool:
        """Every path from ``src`` to ``dst`` (default: normal exit) passes a node of ``through``.

        ``src`` itself does not count.
        """
        dst = self.exit if dst is None else dst
        through = set(through) - {src}
        return self.path(src, dst, through, exc=exc) is None

    def escape_path(self, src: int, through: Iterable[int], dst: int | None = None, *, exc: bool = False):
        dst = self.exit if dst is None else dst
        through = set(through) - {src}
        return self.path(src, dst, through, exc=exc)

    def describe_path(self, p: list[int] | None) -> str:
        if not p:
            return ""
        out = []
        for n in p:
            k = self.kind[n]
            if k in ("entry", "exit", "raise"):
                out.append(k.upper())
            elif k == "branch":
                t, v = self.branch_of[n]
                out.append(f"[{'T' if v else 'F'}]")
            else:
                a = self.ast[n]
                out.append(f"L{getattr(a, 'lineno', '?')}:{norm_stmt(a, 50)}")
        return " -> ".join(out)

    def can_reach_exit(self, n: int) -> bool:
        return self.reachable(n, self.exit)


def _const_truth(test: ast.AST) -> bool | None:
    if isinstance(test, ast.Constant):
        return bool(test.value)
    if isinstance(test, ast.Name) and test.id == "TYPE_CHECKING":
        return None
    return None


def _handler_names(h: ast.ExceptHandler) -> set[str]:
    if h.type is None:
        return set()
    elts = h.type.elts if isinstance(h.type, ast.Tuple) else [h.type]
    out = set()
    for e in elts:
        d = dotted(e)
        if d:
            out.add(d.split(".")[-1])
    return out


_CFG_CACHE: dict[int, CFG] = {}


def cfg_of(func: ast.AST) -> CFG:
    c = _CFG_CACHE.get(id(func))
    if c is None or c.func is not func:
        c = CFG(func)
        _CFG_CACHE[id(func)] = c
    return c
