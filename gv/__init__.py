"""gv -- static verification machinery for the twenty GEMSEO properties.

Nothing in this package imports or runs GEMSEO: every decision is taken from the
syntax trees of ``$GV_REPO/src/gemseo`` (default ``/repo``), parsed on every run.
"""

from __future__ import annotations
