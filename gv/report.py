"""E7 -- obligations, findings, known findings, evidence, exit codes."""

from __future__ import annotations

import ast
import hashlib
import json
import os
import time
from dataclasses import dataclass
from dataclasses import field
from pathlib import Path

from gv.astutil import AnalysisError
from gv.astutil import norm_stmt
from gv.index import Index

VERIF = Path(__file__).resolve().parent.parent
KNOWN_FILE = VERIF / "known_findings.json"


@dataclass
class Finding:
    prop: str
    rule: str
    construct: str  # file::Class.method
    stmt: str  # normalised statement or instance label
    what: str
    file: str = ""
    line: int = 0
    detail: str = ""

    @property
    def key(self) -> tuple[str, str, str, str]:
        return (self.prop, self.rule, self.construct, self.stmt)

    @property
    def slug(self) -> str:
        h = hashlib.sha1("|".join(self.key).encode()).hexdigest()[:10]
        safe = "".join(c if c.isalnum() else "_" for c in f"{self.rule}_{self.construct.split('::')[-1]}")[:60]
        return f"{safe}_{h}"

    def to_json(self) -> dict:
        return {
            "property": self.prop,
            "rule": self.rule,
            "construct": self.construct,
            "stmt": self.stmt,
            "what": self.what,
            "file": self.file,
            "line": self.line,
            "detail": self.detail,
        }


@dataclass
class Ctx:
    prop: str
    tier: str
    index: Index
    seed: int = 0
    quiet: bool = False
    obligations: list[dict] = field(default_factory=list)
    findings: list[Finding] = field(default_factory=list)
    floors: dict[str, int] = field(default_factory=dict)
    counts: dict[str, int] = field(default_factory=dict)
    notes: list[str] = field(default_factory=list)
    extra: dict = field(default_factory=dict)
    functions_analysed: set = field(default_factory=set)

    # ----------------------------------------------------------- obligations
    def ob(
        self,
        rule: str,
        construct: str,
        ok: bool,
        what: str,
        *,
        node: ast.AST | None = None,
        stmt: str | None = None,
        file: str = "",
        detail: str = "",
        slots: dict | None = None,
    ) -> bool:
        """Record one obligation (one rule instance at one construct)."""
        self.counts[rule] = self.counts.get(rule, 0) + 1
        text = stmt if stmt is not None else norm_stmt(node)
        line = getattr(node, "lineno", 0) if node is not None else 0
        rec = {
            "rule": rule,
            "construct": construct,
            "instance": text,
            "line": line,
            "verdict": "ok" if ok else "FAIL",
        }
        if slots:
            rec["slots"] = slots
        self.obligations.append(rec)
        self.functions_analysed.add(construct)
        if not ok:
            self.findings.append(
                Finding(
                    prop=self.prop,
                    rule=rule,
                    construct=construct,
                    stmt=text,
                    what=what,
                    file=file or construct.split("::")[0],
                    line=line,
                    detail=detail,
                )
            )
        return ok

    def floor(self, rule: str, n: int) -> None:
        """Declare the minimum number of instances the rule must have evaluated."""
        self.floors[rule] = n

    def need(self, cond, msg: str):
        """Fail closed when an anchor shape the rule relies on is missing."""
        if not cond:
            raise AnalysisError(msg)
        return cond

    def note(self, text: str) -> None:
        self.notes.append(text)

    def check_floors(self) -> None:
        failing = {f.rule for f in self.findings} | {f.rule.split("-")[0] for f in self.findings}
        failing_files = {f.construct.split("::")[0] for f in self.findings}
        files_of = {}
        for rec in self.obligations:
            files_of.setdefault(rec["rule"], set()).add(rec["construct"].split("::")[0])
        for rule, n in self.floors.items():
            got = self.counts.get(rule, 0)
            if rule in failing or rule.split("-")[0] in failing:
                continue  # a reported violation of the rule explains missing follow-up instances
            if files_of.get(rule, set()) & failing_files:
                continue  # so does a violation reported (by another rule) in a file where this rule has its instances
            if got < n:
                raise AnalysisError(
                    f"rule {rule} evaluated {got} instance(s), fewer than the {n} confirmed by hand "
                    "(an anchor vanished or the rule no longer recognises it)"
                )


def cname(relpath: str, cls: str | None, func: str | None = None) -> str:
    """Qualified construct name used in reports and as key of findings."""
    if cls and func:
        return f"{relpath}::{cls}.{func}"
    if cls:
        return f"{relpath}::{cls}"
    return f"{relpath}::{func}"


def load_known() -> list[dict]:
    if not KNOWN_FILE.exists():
        return []
    data = json.loads(KNOWN_FILE.read_text())
    return data.get("findings", [])


def split_findings(findings: list[Finding], known: list[dict]):
    """Partition into (listed known findings, new violations)."""
    listed, new = [], []
    table = {}
    for k in known:
        if k.get("status") != "known":
            continue  # a ``fixed`` entry suppresses nothing
        table[(k["property"], k["rule"], k["construct"], k["stmt"])] = k
    seen = set()
    for f in findings:
        if f.key in seen:
            continue
        seen.add(f.key)
        if f.key in table:
            listed.append((f, table[f.key]))
        else:
            new.append(f)
    return listed, new


def write_evidence(ctx: Ctx, *, wall: float, n_viol: int, known_matched: int, extra: dict | None = None) -> Path:
    ev_dir = VERIF / "evidence"
    ev_dir.mkdir(exist_ok=True)
    obl = ctx.obligations
    distinct = {(o["rule"], o["construct"], o["instance"]) for o in obl}
    per_rule: dict[str, dict] = {}
    for o in obl:
        r = per_rule.setdefault(o["rule"], {"instances": 0, "ok": 0})
        r["instances"] += 1
        r["ok"] += o["verdict"] == "ok"
    # a few written-out samples per rule
    samples, seen_rules = [], {}
    for o in obl:
        c = seen_rules.get(o["rule"], 0)
        if c < 3:
            samples.append(o)
            seen_rules[o["rule"]] = c + 1
    for o in obl:
        if o["verdict"] != "ok" and o not in samples:
            samples.append(o)
    from gv import props

    meta = props.META.get(ctx.prop, {})
    coverage = {
        "explanation": meta.get("explanation", ""),
        "rule": (
            "one evaluation = one rule instance (rule x construct x statement) decided on the syntax tree of "
            "/repo's current working tree; an instance is non-trivial when it matched a concrete construct of "
            "the source and carried an obligation; distinct = distinct (rule, construct, statement) triples"
        ),
        "evaluations": len(obl),
        "distinct_nontrivial": len(distinct),
        "obligations": len(obl),
        "discharged": sum(1 for o in obl if o["verdict"] == "ok"),
        "samples": samples[:60],
        "per_rule": per_rule,
        "instance_floors": ctx.floors,
        "constructs_analysed": len(ctx.functions_analysed),
        "known_findings_matched": known_matched,
        "clauses_decided": meta.get("decided", []),
        "clauses_not_decided": meta.get("not_decided", []),
        "trusted_base": [
            "CPython ast (parser)",
            "networkx immediate_dominators / graph search",
            "the rule tables in gv/props (frozen slots, one reason per exception)",
            *meta.get("trusted", []),
        ],
        "notes": ctx.notes,
        "exhaustive": True,
        **ctx.index.stats(),
    }
    coverage.update(ctx.extra)
    if extra:
        coverage.update(extra)
    ev = {
        "property_id": ctx.prop,
        "tier": ctx.tier,
        "seed": ctx.seed,
        "level": "other",
        "coverage": coverage,
        "assumptions": [
            "only the structural (S) clauses listed in coverage.clauses_decided are decided; the numerical (N) "
            "clauses in coverage.clauses_not_decided are not decided by this check",
            "the analysed source is the working tree under $GV_REPO (default /repo)/src/gemseo at the time of the run",
            "callees outside src/gemseo (numpy, scipy, h5py, networkx...) behave as documented",
        ],
        "wall_s": round(wall, 3),
        "violations": n_viol,
    }
    path = ev_dir / f"{ctx.prop}.json"
    path.write_text(json.dumps(ev, indent=1, default=str) + "\n")
    return path


def write_replay(f: Finding) -> Path:
    out = Path(os.environ.get("GV_OUT", VERIF / "out")) / f.prop
    out.mkdir(parents=True, exist_ok=True)
    p = out / f"{f.slug}.json"
    p.write_text(json.dumps(f.to_json(), indent=1) + "\n")
    return p


class Timer:
    def __init__(self):
        self.t0 = time.time()

    def wall(self) -> float:
        return time.time() - self.t0
