"""Command line: ``python -m gv.check C01 --tier quick|thorough [--replay path]``.

Exit codes: 0 = every obligation discharged (or only listed known findings remain),
1 = at least one violation not listed in known_findings.json (one ``VIOLATION`` line each),
2 = the analysis itself could not be carried out (``ANALYSIS-ERROR``).
"""

from __future__ import annotations

import argparse
import importlib
import json
import os
import sys
import traceback

from gv.astutil import AnalysisError
from gv.index import Index
from gv.report import Ctx
from gv.report import Timer
from gv.report import load_known
from gv.report import split_findings
from gv.report import write_evidence
from gv.report import write_replay


def load_prop(pid: str):
    try:
        return importlib.import_module(f"gv.props.{pid.lower()}")
    except ModuleNotFoundError as e:
        raise AnalysisError(f"no checker for property {pid}: {e}") from e


def run_rules(pid: str, index: Index, tier: str, seed: int = 0) -> Ctx:
    mod = load_prop(pid)
    ctx = Ctx(prop=pid, tier=tier, index=index, seed=seed)
    mod.run(ctx)
    ctx.check_floors()
    return ctx


def _pin_hash_seed() -> None:
    """Re-execute with PYTHONHASHSEED=0: set iteration order must never decide a verdict, and pinning
    the seed makes every run of a check on the same tree bit-for-bit reproducible."""
    if os.environ.get("PYTHONHASHSEED") != "0" and not os.environ.get("GV_NO_REEXEC"):
        env = dict(os.environ, PYTHONHASHSEED="0")
        os.execve(sys.executable, [sys.executable, "-m", "gv.check", *sys.argv[1:]], env)


def main(argv: list[str] | None = None) -> int:
    if argv is None:
        _pin_hash_seed()
    ap = argparse.ArgumentParser(prog="gv.check")
    ap.add_argument("prop")
    ap.add_argument("--tier", default=os.environ.get("VERIF_TIER", "quick"), choices=["quick", "thorough"])
    ap.add_argument("--replay", default=None)
    ap.add_argument("--no-evidence", action="store_true")
    ap.add_argument("--list", action="store_true", help="print every obligation")
    args = ap.parse_args(argv)
    pid = args.prop.upper()
    seed = int(os.environ.get("VERIF_SEED", "0") or 0)
    timer = Timer()
    try:
        index = Index()
        ctx = run_rules(pid, index, args.tier, seed)
        extra = {}
        if args.tier == "thorough" and not args.replay:
            from gv import thorough

            extra = thorough.run(pid, index, ctx, seed)
    except AnalysisError as e:
        print(f"ANALYSIS-ERROR property={pid} {e}")
        return 2
    except Exception:  # noqa: BLE001 - a crash of the analysis is not a violation
        traceback.print_exc()
        print(f"ANALYSIS-ERROR property={pid} internal error in the checker (traceback above)")
        return 2

    known = load_known()
    listed, new = split_findings(ctx.findings, known)

    if args.replay:
        want = json.loads(open(args.replay).read())
        key = (want["property"], want["rule"], want["construct"], want["stmt"])
        hit = [f for f in ctx.findings if f.key == key]
        if hit:
            f = hit[0]
            print(f"REPRODUCED property={pid} rule={f.rule}\n  at {f.file}:{f.line} {f.construct}\n  {f.stmt}\n  {f.what}\n  {f.detail}")
            return 1
        print(f"NOT-REPRODUCED property={pid} rule={want['rule']} construct={want['construct']} (instance holds on the current tree)")
        return 0

    if args.list:
        for o in ctx.obligations:
            print(f"  [{o['verdict']:4}] {o['rule']:10} {o['construct']} :: {o['instance']}")

    for f, k in listed:
        print(f"KNOWN-FINDING: property={pid} {f.rule} {f.construct} [{f.stmt}] -- {k.get('what', f.what)}")
    for f in new:
        path = write_replay(f)
        print(f"  {f.file}:{f.line} {f.construct} -- rule {f.rule} -- {f.stmt}\n    {f.what}" + (f"\n    {f.detail}" if f.detail else ""))
        print(f"VIOLATION property={pid} replay={path}")
    if not args.no_evidence:
        write_evidence(ctx, wall=timer.wall(), n_viol=len(new), known_matched=len(listed), extra=extra)
    n_ok = sum(1 for o in ctx.obligations if o["verdict"] == "ok")
    print(
        f"{pid} {args.tier}: {len(ctx.obligations)} obligations over {len(ctx.functions_analysed)} constructs, "
        f"{n_ok} discharged, {len(listed)} known finding(s), {len(new)} violation(s), {timer.wall():.2f}s"
    )
    if extra.get("vacuous_witnesses"):
        print(f"ANALYSIS-ERROR property={pid} vacuous rule(s): {extra['vacuous_witnesses']}")
        return 2
    if extra.get("unstable_twins"):
        print(f"ANALYSIS-ERROR property={pid} verdict changed under a refactoring twin: {extra['unstable_twins']}")
        return 2
    return 1 if new else 0


if __name__ == "__main__":
    sys.exit(main())
