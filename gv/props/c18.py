"""C18 -- surrogate models: RBF kernel derivatives vs. SciPy's kernels; surrogate discipline pass-through."""

from __future__ import annotations

import ast
import sys
from pathlib import Path

from gv.astutil import AnalysisError
from gv.astutil import dotted
from gv.astutil import last_attr
from gv.astutil import names_in
from gv.astutil import norm_stmt
from gv.astutil import stmts_of
from gv.astutil import walk_body
from gv.props import describe
from gv.report import Ctx
from gv.report import cname

RBF = "mlearning/regression/algos/rbf.py"
RBS = "mlearning/regression/algos/rbf_settings.py"
SUR = "disciplines/surrogate.py"

describe(
    "C18",
    explanation=(
        "That the predicted Jacobian is the derivative of the prediction for all regressors and transformers, "
        "interpolation and transformer inverses are numerical and NOT decided. Decided (cross-library, on the two "
        "source trees, nothing imported): every kernel name offered by RBFRegressor has a derivative function; "
        "a derivative depends on the correlation length eps if and only if SciPy's kernel of the same name "
        "depends on epsilon; the Jacobian routine selects the derivative by the kernel name, feeds it the "
        "differences to the learning points and the SciPy model's own epsilon, weights it by the model's nodes; "
        "the surrogate discipline returns exactly the model's predictions and Jacobian for its own input data."
    ),
    decided=["18.1 kernel/derivative agreement on the use of epsilon", "18.2 surrogate discipline pass-through"],
    not_decided=["Jacobian = derivative of the prediction for every regressor and transformer pipeline", "interpolation of the learning data", "transformer inverse identities"],
    trusted=["the installed scipy/interpolate/_rbf.py is the code scipy.interpolate.Rbf runs"],
)


def _scipy_rbf_source() -> Path:
    for p in sys.path:
        cand = Path(p) / "scipy" / "interpolate" / "_rbf.py"
        if cand.is_file():
            return cand
    raise AnalysisError("scipy/interpolate/_rbf.py not found on sys.path (the cross-library rule cannot be evaluated)")


def check_kernels(ctx: Ctx) -> None:
    enum = ctx.index.cls(RBS, "Function")
    names = [s.value.value for s in enum.node.body if isinstance(s, ast.Assign) and isinstance(s.value, ast.Constant) and isinstance(s.value.value, str)]
    ctx.need(len(names) >= 5, "rbf_settings.Function members not found")
    ders = ctx.index.cls(RBF, "RBFRegressor.RBFDerivatives")
    path = _scipy_rbf_source()
    tree = ast.parse(path.read_text(encoding="utf-8"))
    rbf_cls = next((n for n in tree.body if isinstance(n, ast.ClassDef) and n.name == "Rbf"), None)
    if rbf_cls is None:
        raise AnalysisError(f"class Rbf not found in {path}")
    kernels = {n.name[3:]: n for n in rbf_cls.body if isinstance(n, ast.FunctionDef) and n.name.startswith("_h_")}
    ctx.extra["scipy_rbf_source"] = str(path)
    for name in names:
        der = ders.methods.get(f"der_{name}")
        con = cname(RBF, "RBFRegressor.RBFDerivatives", f"der_{name}")
        ctx.ob("18.1-exists", con, der is not None, f"the kernel '{name}' is offered by RBFRegressor but has no derivative der_{name}: predict_jacobian fails for it", node=der or ders.node, stmt=f"der_{name} defined")
        k = kernels.get(name)
        if der is None:
            continue
        if k is None:
            raise AnalysisError(f"SciPy's Rbf has no kernel _h_{name}")
        uses_eps = any(isinstance(n, ast.Name) and n.id == "eps" and isinstance(n.ctx, ast.Load) for n in walk_body(der))
        scipy_uses = any(isinstance(n, ast.Attribute) and n.attr == "epsilon" for n in ast.walk(k))
        ctx.ob("18.1-epsilon", con, uses_eps == scipy_uses, f"SciPy's kernel _h_{name} {'uses' if scipy_uses else 'does not use'} epsilon but der_{name} {'uses' if uses_eps else 'does not use'} eps: the predicted Jacobian is not the derivative of the prediction as soon as epsilon != 1", node=der, stmt=f"der_{name} uses eps iff _h_{name} uses epsilon", slots={"scipy": scipy_uses, "gemseo": uses_eps})
        # parameters
        params = [a.arg for a in der.args.args if a.arg not in ("cls", "self")]
        ctx.ob("18.1-signature", con, params == ["input_data", "norm_input_data", "eps"], f"der_{name} must take (input_data, norm_input_data, eps), the way _predict_jacobian calls it", node=der, stmt=f"der_{name}(input_data, norm_input_data, eps)")
    ctx.floor("18.1-epsilon", 7)
    # the derivative function is the derivative of SciPy's kernel: d h(|x|)/dx = h'(r) x / r  (generic point r > 0)
    import sympy as sp

    x, r, eps = sp.Symbol("x", real=True), sp.Symbol("r", positive=True), sp.Symbol("eps", positive=True)

    def term(e, env):
        if isinstance(e, ast.Constant) and isinstance(e.value, (int, float)) and not isinstance(e.value, bool):
            return sp.nsimplify(e.value)
        if isinstance(e, ast.Name):
            return env.get(e.id)
        if isinstance(e, ast.Attribute):
            if e.attr == "TOL":
                return sp.Integer(0)  # a guard against 0/0 at r = 0, irrelevant at a generic point
            if e.attr == "epsilon" and dotted(e.value) == "self":
                return eps
            return None
        if isinstance(e, ast.Compare):
            return sp.Integer(1)  # `r > TOL` is true at a generic point
        if isinstance(e, ast.UnaryOp) and isinstance(e.op, (ast.USub, ast.UAdd)):
            v = term(e.operand, env)
            return None if v is None else (-v if isinstance(e.op, ast.USub) else v)
        if isinstance(e, ast.BinOp):
            a, b = term(e.left, env), term(e.right, env)
            if a is None or b is None:
                return None
            ops = {ast.Add: lambda: a + b, ast.Sub: lambda: a - b, ast.Mult: lambda: a * b, ast.Div: lambda: a / b, ast.Pow: lambda: a**b}
            f_ = ops.get(type(e.op))
            return f_() if f_ else None
        if isinstance(e, ast.Call) and not e.keywords:
            fn = last_attr(e) or dotted(e.func)
            args = [term(a, env) for a in e.args]
            if any(a is None for a in args):
                return None
            if fn == "sqrt" and len(args) == 1:
                return sp.sqrt(args[0])
            if fn == "exp" and len(args) == 1:
                return sp.exp(args[0])
            if fn == "log" and len(args) == 1:
                return sp.log(args[0])
            if fn == "xlogy" and len(args) == 2:
                return args[0] * sp.log(args[1])
        return None

    def single_return(fn):
        rets = [s for s in stmts_of(fn) if isinstance(s, ast.Return) and s.value is not None]
        return rets[0].value if len(rets) == 1 else None

    n_der = 0
    for name in names:
        der, k = ders.methods.get(f"der_{name}"), kernels.get(name)
        if der is None or k is None:
            continue
        con = cname(RBF, "RBFRegressor.RBFDerivatives", f"der_{name}")
        kr, dr = single_return(k), single_return(der)
        h = term(kr, {k.args.args[1].arg: r}) if kr is not None else None
        d = term(dr, {"input_data": x, "norm_input_data": r, "eps": eps}) if dr is not None else None
        if h is None:
            raise AnalysisError(f"SciPy kernel _h_{name} is not an expression the derivative rule understands")
        if d is None:
            ctx.ob("18.1-derivative", con, False, f"der_{name} is not a closed-form expression of (input_data, norm_input_data, eps) that can be compared with the derivative of SciPy's kernel", node=der, stmt=f"der_{name} = d _h_{name}(|x|) / dx")
            continue
        want = sp.diff(h, r) * x / r
        from gv import symexpr

        eq = symexpr.equal(d, want, positive=("r", "eps"))
        n_der += 1
        ctx.ob("18.1-derivative", con, eq is True, f"der_{name} = {sp.simplify(d)} but the derivative of SciPy's kernel h(r) = {h} with respect to x is h'(r) x / r = {sp.simplify(want)}: the predicted Jacobian is not the derivative of the prediction", node=der, stmt=f"der_{name} = d _h_{name}(|x|) / dx")
    ctx.floor("18.1-derivative", 7)
    extra = sorted(set(m[4:] for m in ders.methods if m.startswith("der_")) - set(names))
    ctx.ob("18.1-exists", cname(RBF, "RBFRegressor.RBFDerivatives"), not extra, f"derivatives without a kernel of that name: {extra}", node=ders.node, stmt="no orphan derivative")
    # the Jacobian routine
    f = ctx.index.method(RBF, "RBFRegressor", "_predict_jacobian")
    con = cname(RBF, "RBFRegressor", "_predict_jacobian")
    sel = [c for c in walk_body(f) if isinstance(c, ast.Call) and dotted(c.func) == "getattr"]
    ok = len(sel) == 1 and norm_stmt(sel[0].args[0]) == "self.RBFDerivatives" and isinstance(sel[0].args[1], ast.JoinedStr) and norm_stmt(sel[0].args[1]) == "f'der_{self.function}'"
    ctx.ob("18.1-dispatch", con, ok, "the derivative must be selected by the name of the kernel the model was built with", node=(sel or [f])[0])
    call = [c for c in walk_body(f) if isinstance(c, ast.Call) and dotted(c.func) == "der_func"]
    ok = len(call) == 1 and [dotted(a) for a in call[0].args] == ["diffs", "dists"] and any(k.arg == "eps" and norm_stmt(k.value) == "self.algo.epsilon" for k in call[0].keywords)
    ctx.ob("18.1-dispatch", con, ok, "the derivative must be evaluated at (differences, distances) with the SciPy model's own epsilon", node=(call or [f])[0])
    defs = {dotted(s.targets[0]): s for s in stmts_of(f) if isinstance(s, ast.Assign)}
    ok = "diffs" in defs and isinstance(defs["diffs"].value, ast.BinOp) and isinstance(defs["diffs"].value.op, ast.Sub) and dotted(defs["diffs"].value.left) == "input_data" and dotted(defs["diffs"].value.right) == "ref_points"
    ctx.ob("18.1-dispatch", con, ok, "differences are query point minus learning point (the sign of the Jacobian depends on it)", node=defs.get("diffs", f))
    ok = "ref_points" in defs and "self.algo.xi" in norm_stmt(defs["ref_points"].value) and "nodes" in defs and "self.algo.nodes" in norm_stmt(defs["nodes"].value)
    ctx.ob("18.1-dispatch", con, ok, "learning points and weights are those of the fitted SciPy model", node=defs.get("ref_points", f), stmt="xi and nodes of self.algo")
    ok = "dists" in defs and isinstance(defs["dists"].value, ast.Subscript) and isinstance(defs["dists"].value.value, ast.Call) and last_attr(defs["dists"].value.value) == "norm" and dotted(defs["dists"].value.value.args[0]) == "diffs" and any(k.arg == "axis" and getattr(k.value, "value", None) == 2 for k in defs["dists"].value.value.keywords)
    ctx.ob("18.1-dispatch", con, ok, "distances are the norms of the differences over the input axis", node=defs.get("dists", f))
    rets = [s for s in stmts_of(f) if isinstance(s, ast.Return)]
    ok = len(rets) == 1 and isinstance(rets[0].value, ast.Call) and last_attr(rets[0].value) == "sum" and isinstance(rets[0].value.func.value, ast.BinOp) and isinstance(rets[0].value.func.value.op, ast.Mult) and "nodes" in names_in(rets[0].value.func.value) and call and call[0] in list(ast.walk(rets[0].value))
    ctx.ob("18.1-dispatch", con, bool(ok), "the Jacobian is the sum over the learning points of weight x kernel derivative", node=(rets or [f])[0])
    # the value side uses the same model
    p = ctx.index.method(RBF, "RBFRegressor", "_predict")
    ok = any(isinstance(c, ast.Call) and dotted(c.func) == "self.algo" for c in walk_body(p))
    ctx.ob("18.1-dispatch", cname(RBF, "RBFRegressor", "_predict"), ok, "predictions come from the same fitted SciPy model", node=p, stmt="predict with self.algo")
    fit = ctx.index.method(RBF, "RBFRegressor", "_fit")
    ctor = [c for c in walk_body(fit) if isinstance(c, ast.Call) and dotted(c.func) == "Rbf"]
    kw = {k.arg: norm_stmt(k.value) for k in ctor[0].keywords} if ctor else {}
    ok = kw.get("function") == "self._settings.function" and kw.get("epsilon") == "self._settings.epsilon"
    ctx.ob("18.1-dispatch", cname(RBF, "RBFRegressor", "_fit"), ok, "the SciPy model is built with the kernel and the epsilon of the settings", node=(ctor or [fit])[0])


def check_surrogate(ctx: Ctx) -> None:
    f = ctx.index.method(SUR, "SurrogateDiscipline", "_run")
    con = cname(SUR, "SurrogateDiscipline", "_run")
    pr = [c for c in walk_body(f) if isinstance(c, ast.Call) and norm_stmt(c.func) == "self.regression_model.predict"]
    ok = len(pr) == 1 and dotted(pr[0].args[0]) == f.args.args[1].arg
    ctx.ob("18.2-predict", con, ok, "the surrogate discipline must predict at its own input data", node=(pr or [f])[0])
    loops = [s for s in stmts_of(f) if isinstance(s, ast.For) and pr and pr[0] in list(ast.walk(s.iter))]
    ok = len(loops) == 1 and isinstance(loops[0].target, ast.Tuple)
    if ok:
        nm, val = (dotted(e) for e in loops[0].target.elts)
        st = [s for s in ast.walk(loops[0]) if isinstance(s, ast.Assign) and isinstance(s.targets[0], ast.Subscript)]
        ok = len(st) == 1 and dotted(st[0].targets[0].slice) == nm and isinstance(st[0].value, ast.Call) and last_attr(st[0].value) in ("flatten", "ravel", "copy") and dotted(st[0].value.func.value) == val
        rets = [s for s in stmts_of(f) if isinstance(s, ast.Return)]
        ok = ok and len(rets) == 1 and dotted(rets[0].value) == dotted(st[0].targets[0].value)
    if not ok:
        # the same as a dict comprehension over the predictions
        comps = [s for s in stmts_of(f) if isinstance(s, (ast.Assign, ast.Return)) and isinstance(s.value, ast.DictComp) and pr and pr[0] in list(ast.walk(s.value.generators[0].iter))]
        if len(comps) == 1 and len(comps[0].value.generators) == 1 and not comps[0].value.generators[0].ifs and isinstance(comps[0].value.generators[0].target, ast.Tuple):
            dc = comps[0].value
            nm, val = (dotted(e) for e in dc.generators[0].target.elts)
            ok = dotted(dc.key) == nm and isinstance(dc.value, ast.Call) and last_attr(dc.value) in ("flatten", "ravel", "copy") and dotted(dc.value.func.value) == val
            rets = [s for s in stmts_of(f) if isinstance(s, ast.Return)]
            ok = ok and len(rets) == 1 and (rets[0] is comps[0] or dotted(rets[0].value) == dotted(comps[0].targets[0]))
            loops = comps
    ctx.ob("18.2-predict", con, ok, "each output is the model's prediction for the output of the same name (only flattened)", node=(loops or [f])[0], stmt="outputs = predictions, name by name")
    g = ctx.index.method(SUR, "SurrogateDiscipline", "_compute_jacobian")
    cong = cname(SUR, "SurrogateDiscipline", "_compute_jacobian")
    st = [s for s in stmts_of(g) if isinstance(s, ast.Assign) and dotted(s.targets[0]) == "self.jac"]
    ok = len(st) == 1 and isinstance(st[0].value, ast.Call) and norm_stmt(st[0].value.func) == "self.regression_model.predict_jacobian" and norm_stmt(st[0].value.args[0]) == "self.io.get_input_data()"
    ctx.ob("18.2-jacobian", cong, ok, "the Jacobian of the surrogate discipline must be the model's predicted Jacobian at the discipline's current input data", node=(st or [g])[0])
    others = [s for s in stmts_of(g) if isinstance(s, (ast.AugAssign,)) or (isinstance(s, ast.Assign) and isinstance(s.targets[0], ast.Subscript) and "jac" in norm_stmt(s.targets[0]))]
    ctx.ob("18.2-jacobian", cong, not others, "the predicted Jacobian must not be altered", node=(others or [g])[0], stmt="no further edit of self.jac")


PIP = "mlearning/transformers/pipeline.py"
MOE = "mlearning/regression/algos/moe.py"


def check_pipeline(ctx: Ctx) -> None:
    """18.3 chain rule of a pipeline of transformers: J = J_k(data_k) ... J_1(data_1), each stage at its own input."""
    cls = ctx.index.cls(PIP, "Pipeline")
    for jname, tname, reverse in (("compute_jacobian", "transform", False), ("compute_jacobian_inverse", "inverse_transform", True)):
        f = cls.methods[jname]
        con = cname(PIP, "Pipeline", jname)
        data = [a.arg for a in f.args.args if a.arg != "self"][0]
        loops = [s for s in stmts_of(f) if isinstance(s, ast.For)]
        ok = len(loops) == 1 and isinstance(loops[0].target, ast.Name)
        order_ok = prod_ok = at_ok = False
        if ok:
            lp = loops[0]
            t = lp.target.id
            it = norm_stmt(lp.iter)
            order_ok = it in (("self.transformers[::-1]", "reversed(self.transformers)") if reverse else ("self.transformers",))
            jac_st = [s for s in lp.body if isinstance(s, ast.Assign) and any(isinstance(c, ast.Call) and norm_stmt(c.func) == f"{t}.{jname}" for c in ast.walk(s.value))]
            dat_st = [s for s in lp.body if isinstance(s, ast.Assign) and dotted(s.targets[0]) == data and isinstance(s.value, ast.Call) and norm_stmt(s.value.func) == f"{t}.{tname}"]
            if len(jac_st) == 1 and len(dat_st) == 1:
                js = jac_st[0]
                acc = dotted(js.targets[0])
                v = js.value
                # new stage on the left: J_stage @ acc   (or matmul / dot forms)
                if isinstance(v, ast.BinOp) and isinstance(v.op, ast.MatMult):
                    left, right = v.left, v.right
                elif isinstance(v, ast.Call) and last_attr(v) in ("matmul", "dot") and len(v.args) == 2:
                    left, right = v.args
                elif isinstance(v, ast.Call) and last_attr(v) == "dot" and len(v.args) == 1:
                    left, right = v.func.value, v.args[0]
                else:
                    left = right = None
                prod_ok = left is not None and isinstance(left, ast.Call) and norm_stmt(left.func) == f"{t}.{jname}" and dotted(right) == acc
                at_ok = prod_ok and left.args and dotted(left.args[0]) == data and dotted(dat_st[0].value.args[0]) == data and js.lineno < dat_st[0].lineno
        ctx.ob("18.3-pipeline", con, bool(ok and order_ok), f"{jname} must visit the transformers in the order in which {tname} applies them ({'last to first' if reverse else 'first to last'})", node=(loops or [f])[0], stmt=f"{jname}: stages in the order of {tname}")
        ctx.ob("18.3-pipeline", con, bool(prod_ok), "chain rule: the Jacobian of the stage multiplies the accumulated Jacobian on the LEFT (J_stage @ J); the other order is only right when the stage Jacobians commute", node=(loops or [f])[0], stmt=f"{jname}: J = J_stage @ J")
        ctx.ob("18.3-pipeline", con, bool(at_ok), "each stage Jacobian is evaluated at the data entering that stage: the Jacobian statement comes before the data is transformed, both on the running data", node=(loops or [f])[0], stmt=f"{jname}: stage Jacobian at the stage input")
        g = cls.methods[tname]
        lg = [s for s in stmts_of(g) if isinstance(s, ast.For)]
        okg = len(lg) == 1 and norm_stmt(lg[0].iter) in (("self.transformers[::-1]", "reversed(self.transformers)") if reverse else ("self.transformers",))
        ctx.ob("18.3-pipeline", cname(PIP, "Pipeline", tname), okg, f"{tname} applies the transformers {'last to first' if reverse else 'first to last'}", node=(lg or [g])[0], stmt=f"{tname}: order of the stages")


def check_moe(ctx: Ctx) -> None:
    """18.4 mixture of experts (hard): the Jacobian of a point comes from the local model of its own cluster label."""
    f = ctx.index.method(MOE, "MOERegressor", "_predict_jacobian_hard")
    con = cname(MOE, "MOERegressor", "_predict_jacobian_hard")
    loops = [s for s in stmts_of(f) if isinstance(s, ast.For) and isinstance(s.target, ast.Name)]
    ok = False
    node = f
    for lp in loops:
        node = lp
        k = lp.target.id
        it = lp.iter
        classes = dotted(it.args[0]) if isinstance(it, ast.Call) and last_attr(it) in ("unique", "set", "sorted") and it.args else None
        if classes is None:
            continue
        calls = [c for c in ast.walk(lp) if isinstance(c, ast.Call) and last_attr(c) == "predict_jacobian"]
        sel = [s for s in lp.body if isinstance(s, ast.Assign) and isinstance(s.targets[0], ast.Name) and any(isinstance(c, ast.Compare) and {dotted(c.left), dotted(c.comparators[0])} == {classes, k} for c in ast.walk(s.value))]
        if len(calls) != 1 or len(sel) != 1:
            continue
        idx = sel[0].targets[0].id
        c = calls[0]
        model = c.func.value
        okm = isinstance(model, ast.Subscript) and norm_stmt(model.value) == "self.regress_models" and dotted(model.slice) == k
        oki = bool(c.args) and isinstance(c.args[0], ast.Subscript) and dotted(c.args[0].slice) == idx
        st = rules_enclosing(f, c)
        okt = isinstance(st, ast.Assign) and isinstance(st.targets[0], ast.Subscript) and dotted(st.targets[0].slice) == idx
        src = [s for s in stmts_of(f) if isinstance(s, ast.Assign) and dotted(s.targets[0]) == classes]
        okc = len(src) == 1 and "self.classifier.predict" in norm_stmt(src[0].value)
        ok = okm and oki and okt and okc
    ctx.ob("18.4-moe", con, bool(ok), "the Jacobian rows of the points of cluster k must come from self.regress_models[k] (k the cluster LABEL given by the classifier), evaluated at those points and stored at their positions", node=node, stmt="Jacobian of cluster k from regress_models[k] at the points of cluster k")
    g = ctx.index.method(MOE, "MOERegressor", "_predict_all")
    con = cname(MOE, "MOERegressor", "_predict_all")
    st = [s for s in ast.walk(g) if isinstance(s, ast.Assign) and isinstance(s.targets[0], ast.Subscript) and any(isinstance(c, ast.Call) and last_attr(c) == "predict" for c in ast.walk(s.value))]
    ok = len(st) == 1
    if ok:
        c = next(c for c in ast.walk(st[0].value) if isinstance(c, ast.Call) and last_attr(c) == "predict")
        i = dotted(c.func.value.slice) if isinstance(c.func.value, ast.Subscript) else None
        tgt = st[0].targets[0]
        sl = tgt.slice.elts[1] if isinstance(tgt.slice, ast.Tuple) and len(tgt.slice.elts) == 2 else None
        ok = i is not None and dotted(sl) == i
    ctx.ob("18.4-moe", con, bool(ok), "column i of the local outputs is the prediction of local model i (the probabilities that weight it are indexed by the same cluster label)", node=(st or [g])[0], stmt="local_outputs[:, i] = regress_models[i].predict")


def rules_enclosing(f, node):
    from gv.rules import enclosing_stmt

    return enclosing_stmt(f, node)


def check_openturns_gradients(ctx: Ctx) -> None:
    """18.5: an OpenTURNS function's ``gradient(point)`` is the TRANSPOSED Jacobian (inputs x outputs); every
    regressor that returns it as a Jacobian (outputs x inputs) transposes it -- the siblings must agree."""
    from gv.dataflow import SymValues

    n = 0
    for rel, mod in sorted(ctx.index.modules.items()):
        if not rel.startswith("mlearning/regression/algos/"):
            continue
        for cn, c in sorted(mod.classes.items()):
            for mname, m in sorted(c.methods.items()):
                if "jacobian" not in mname:
                    continue
                sv = None
                parents = None
                for call in walk_body(m):
                    if not (isinstance(call, ast.Call) and len(call.args) == 1 and isinstance(call.args[0], ast.Call) and last_attr(call.args[0]) == "Point"):
                        continue
                    sv = sv or SymValues(m)
                    if not any(t.endswith(".gradient") for t in sv.texts(call.func)):
                        continue
                    if parents is None:
                        parents = {id(ch): p_ for p_ in ast.walk(m) for ch in ast.iter_child_nodes(p_)}
                    # climb through array(...) wrappers up to the transposition
                    cur = call
                    transposed = False
                    for _ in range(4):
                        par = parents.get(id(cur))
                        if isinstance(par, ast.Call) and last_attr(par) in ("array", "asarray", "atleast_2d") and par.args and par.args[0] is cur:
                            cur = par
                        elif isinstance(par, ast.Attribute) and par.attr == "T":
                            transposed = True
                            break
                        else:
                            break
                    n += 1
                    ctx.ob("18.5-openturns-gradient", cname(rel, cn, mname), transposed, "the OpenTURNS gradient of the model at a point is inputs x outputs: it must be transposed to give the Jacobian (outputs x inputs); untransposed it is silently wrong for as many outputs as inputs and mis-shaped otherwise", node=call, stmt=f"array({norm_stmt(call, 40)}).T")
    ctx.floor("18.5-openturns-gradient", 2)


def run(ctx: Ctx) -> None:
    check_kernels(ctx)
    check_openturns_gradients(ctx)
    check_surrogate(ctx)
    check_pipeline(ctx)
    check_moe(ctx)


_SC = "/scipy"
WITNESSES = [
    {"name": "multiquadric-derivative-loses-epsilon", "file": RBF, "old": "            return input_data / eps**2 / sqrt((norm_input_data / eps) ** 2 + 1)", "new": "            return input_data / sqrt(norm_input_data**2 + eps**2)", "expect": "18.1"},
    {"name": "gaussian-derivative-sign", "file": RBF, "old": "            return -2 * input_data / eps**2 * exp(-((norm_input_data / eps) ** 2))", "new": "            return 2 * input_data / eps**2 * exp(-((norm_input_data / eps) ** 2))", "expect": "18.1"},
    {"name": "inverse-multiquadric-exponent", "file": RBF, "old": "((norm_input_data / eps) ** 2 + 1) ** 1.5", "new": "((norm_input_data / eps) ** 2 + 1) ** 0.5", "expect": "18.1"},
    {"name": "quintic-derivative-power", "file": RBF, "old": "            return 5 * norm_input_data**3 * input_data", "new": "            return 5 * norm_input_data**4 * input_data", "expect": "18.1"},
    {"name": "pipeline-jacobian-right-multiplied", "file": PIP, "old": "            jacobian = transformer.compute_jacobian(data) @ jacobian", "new": "            jacobian = jacobian @ transformer.compute_jacobian(data)", "expect": "18.3"},
    {"name": "pipeline-jacobian-at-transformed-data", "file": PIP, "old": "            jacobian = transformer.compute_jacobian(data) @ jacobian\n            data = transformer.transform(data)", "new": "            data = transformer.transform(data)\n            jacobian = transformer.compute_jacobian(data) @ jacobian", "expect": "18.3"},
    {"name": "pipeline-inverse-jacobian-forward-order", "file": PIP, "old": "        for transformer in self.transformers[::-1]:\n            jacobian = transformer.compute_jacobian_inverse(data) @ jacobian", "new": "        for transformer in self.transformers:\n            jacobian = transformer.compute_jacobian_inverse(data) @ jacobian", "expect": "18.3"},
    {"name": "moe-jacobian-by-loop-position", "file": MOE, "old": "        for klass in unique(classes):\n            inds_kls = (classes == klass).nonzero()[0]\n            jacobians[inds_kls] = self.regress_models[klass].predict_jacobian(", "new": "        for index, klass in enumerate(unique(classes)):\n            inds_kls = (classes == klass).nonzero()[0]\n            jacobians[inds_kls] = self.regress_models[index].predict_jacobian(", "expect": "18.4"},
    {"name": "moe-jacobian-of-first-model", "file": MOE, "old": "            jacobians[inds_kls] = self.regress_models[klass].predict_jacobian(", "new": "            jacobians[inds_kls] = self.regress_models[0].predict_jacobian(", "expect": "18.4"},
    {"name": "cubic-divided-by-eps", "file": RBF, "old": "            return 3 * norm_input_data * input_data\n", "new": "            return 3 * norm_input_data * input_data / eps**3\n", "expect": "18.1"},
    {"name": "thin-plate-scaled-by-eps", "file": RBF, "old": "                * (1 + 2 * log(norm_input_data + cls.TOL))", "new": "                / eps**2\n                * (1 + 2 * log(norm_input_data / eps + cls.TOL))", "expect": "18.1"},
    {"name": "gaussian-ignores-eps", "file": RBF, "old": "            return -2 * input_data / eps**2 * exp(-((norm_input_data / eps) ** 2))", "new": "            return -2 * input_data * exp(-(norm_input_data**2))", "expect": "18.1"},
    {"name": "derivative-removed", "file": RBF, "old": "        def der_quintic(", "new": "        def der_quintic_disabled(", "expect": "18.1"},
    {"name": "new-kernel-without-derivative", "file": RBS, "old": "    THIN_PLATE = \"thin_plate\"\n", "new": "    THIN_PLATE = \"thin_plate\"\n    MATERN = \"matern\"\n", "expect": "18.1"},
    {"name": "jacobian-uses-unit-epsilon", "file": RBF, "old": "der_func(diffs, dists, eps=self.algo.epsilon)", "new": "der_func(diffs, dists, eps=1.0)", "expect": "18.1"},
    {"name": "differences-reversed", "file": RBF, "old": "        diffs = input_data - ref_points", "new": "        diffs = ref_points - input_data", "expect": "18.1"},
    {"name": "derivative-of-fixed-kernel", "file": RBF, "old": "            self.RBFDerivatives, f\"der_{self.function}\"", "new": "            self.RBFDerivatives, \"der_multiquadric\"", "expect": "18.1"},
    {"name": "surrogate-predicts-defaults", "file": SUR, "old": "self.regression_model.predict(input_data).items()", "new": "self.regression_model.predict(self.io.input_grammar.defaults).items()", "expect": "18.2"},
    {"name": "surrogate-jacobian-at-defaults", "file": SUR, "old": "self.regression_model.predict_jacobian(self.io.get_input_data())", "new": "self.regression_model.predict_jacobian(self.io.input_grammar.defaults)", "expect": "18.2"},
    {"name": "surrogate-output-under-other-name", "file": SUR, "old": "            output_data[name] = value.flatten()", "new": "            output_data[name.lower()] = value.flatten()", "expect": "18.2"},
]
TWINS = [
    {"name": "multiquadric-derivative-rewritten", "file": RBF, "old": "            return input_data / eps**2 / sqrt((norm_input_data / eps) ** 2 + 1)", "new": "            return input_data / (eps * sqrt(norm_input_data**2 + eps**2))"},
    {"name": "cubic-derivative-commuted", "file": RBF, "old": "            return 3 * norm_input_data * input_data", "new": "            return input_data * norm_input_data * 3"},
    {"name": "pipeline-reversed-builtin", "file": PIP, "old": "        for transformer in self.transformers[::-1]:\n            jacobian = transformer.compute_jacobian_inverse(data) @ jacobian", "new": "        for transformer in reversed(self.transformers):\n            jacobian = transformer.compute_jacobian_inverse(data) @ jacobian"},
    {"name": "flatten-to-ravel", "file": SUR, "old": "            output_data[name] = value.flatten()", "new": "            output_data[name] = value.ravel()"},
]
