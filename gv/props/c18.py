"""C18 -- surrogate models: RBF kernel derivatives vs. SciPy's kernels; surrogate discipline pass-through."""

from __future__ import annotations

import ast
import re
import sys
from pathlib import Path

from gv.astutil import AnalysisError
from gv.astutil import dotted
from gv.astutil import last_attr
from gv.astutil import names_in
from gv.astutil import norm_stmt
from gv.astutil import stmts_of
from gv.astutil import walk_body
from gv.cfg import cfg_of
from gv.dataflow import SymValues
from gv.props import describe
from gv.props.shared import unfolded
from gv.report import Ctx
from gv.report import cname

RBF = "mlearning/regression/algos/rbf.py"
RBS = "mlearning/regression/algos/rbf_settings.py"
SUR = "disciplines/surrogate.py"

describe(
    "C18",
    explanation=(
        "That the predicted Jacobian is the derivative of the prediction for all regressors and transformers, "
        "interpolation and transformer inverses are numerical and NOT decided. Decided (cross-library, on the two "
        "source trees, nothing imported): every kernel name offered by RBFRegressor has a derivative function; "
        "a derivative depends on the correlation length eps if and only if SciPy's kernel of the same name "
        "depends on epsilon; the Jacobian routine selects the derivative by the kernel name, feeds it the "
        "differences to the learning points and the SciPy model's own epsilon, weights it by the model's nodes; "
        "the surrogate discipline returns exactly the model's predictions and Jacobian for its own input data; "
        "the affine scaler's four maps agree (inverse o transform = identity, each Jacobian is the derivative of its map, "
        "proved on component-wise terms with sympy; MinMaxScaler and StandardScaler inherit them); the PCA Jacobians are "
        "the chain rule of the compositions that transform / inverse_transform compute; the Jacobian of a regressor with "
        "transformers is J_{T_out^-1}(raw(T_in(x))) @ J_raw(T_in(x)) @ J_{T_in}(x), each factor at its own point, in "
        "each of the four configurations (with / without input and output transformer)."
    ),
    decided=["18.1 kernel/derivative agreement on the use of epsilon", "18.2 surrogate discipline pass-through", "18.5 OpenTURNS gradients transposed", "18.3 pipeline chain rule", "18.4 mixture of experts by cluster label", "18.6 affine scaler maps and Jacobians (symbolic)", "18.7 PCA chain rule", "18.8 regressor Jacobian through the transformers"],
    not_decided=["Jacobian = derivative of the raw prediction for the regressors other than RBF (linear, polynomial, GP, PCE...)", "interpolation of the learning data", "inverse identities of the power transforms, PLS and KLSVD (delegated to scikit-learn / OpenTURNS)"],
    trusted=["the installed scipy/interpolate/_rbf.py is the code scipy.interpolate.Rbf runs"],
)


def _scipy_rbf_source() -> Path:
    for p in sys.path:
        cand = Path(p) / "scipy" / "interpolate" / "_rbf.py"
        if cand.is_file():
            return cand
    raise AnalysisError("scipy/interpolate/_rbf.py not found on sys.path (the cross-library rule cannot be evaluated)")


def check_kernels(ctx: Ctx) -> None:
    enum = ctx.index.cls(RBS, "Function")
    names = [s.value.value for s in enum.node.body if isinstance(s, ast.Assign) and isinstance(s.value, ast.Constant) and isinstance(s.value.value, str)]
    ctx.need(len(names) >= 5, "rbf_settings.Function members not found")
    ders = ctx.index.cls(RBF, "RBFRegressor.RBFDerivatives")
    path = _scipy_rbf_source()
    tree = ast.parse(path.read_text(encoding="utf-8"))
    rbf_cls = next((n for n in tree.body if isinstance(n, ast.ClassDef) and n.name == "Rbf"), None)
    if rbf_cls is None:
        raise AnalysisError(f"class Rbf not found in {path}")
    kernels = {n.name[3:]: n for n in rbf_cls.body if isinstance(n, ast.FunctionDef) and n.name.startswith("_h_")}
    ctx.extra["scipy_rbf_source"] = str(path)
    for name in names:
        der = ders.methods.get(f"der_{name}")
        con = cname(RBF, "RBFRegressor.RBFDerivatives", f"der_{name}")
        ctx.ob("18.1-exists", con, der is not None, f"the kernel '{name}' is offered by RBFRegressor but has no derivative der_{name}: predict_jacobian fails for it", node=der or ders.node, stmt=f"der_{name} defined")
        k = kernels.get(name)
        if der is None:
            continue
        if k is None:
            raise AnalysisError(f"SciPy's Rbf has no kernel _h_{name}")
        uses_eps = any(isinstance(n, ast.Name) and n.id == "eps" and isinstance(n.ctx, ast.Load) for n in walk_body(der))
        scipy_uses = any(isinstance(n, ast.Attribute) and n.attr == "epsilon" for n in ast.walk(k))
        ctx.ob("18.1-epsilon", con, uses_eps == scipy_uses, f"SciPy's kernel _h_{name} {'uses' if scipy_uses else 'does not use'} epsilon but der_{name} {'uses' if uses_eps else 'does not use'} eps: the predicted Jacobian is not the derivative of the prediction as soon as epsilon != 1", node=der, stmt=f"der_{name} uses eps iff _h_{name} uses epsilon", slots={"scipy": scipy_uses, "gemseo": uses_eps})
        # parameters
        params = [a.arg for a in der.args.args if a.arg not in ("cls", "self")]
        ctx.ob("18.1-signature", con, params == ["input_data", "norm_input_data", "eps"], f"der_{name} must take (input_data, norm_input_data, eps), the way _predict_jacobian calls it", node=der, stmt=f"der_{name}(input_data, norm_input_data, eps)")
    ctx.floor("18.1-epsilon", 7)
    # the derivative function is the derivative of SciPy's kernel: d h(|x|)/dx = h'(r) x / r  (generic point r > 0)
    import sympy as sp

    x, r, eps = sp.Symbol("x", real=True), sp.Symbol("r", positive=True), sp.Symbol("eps", positive=True)

    def term(e, env):
        if isinstance(e, ast.Constant) and isinstance(e.value, (int, float)) and not isinstance(e.value, bool):
            return sp.nsimplify(e.value)
        if isinstance(e, ast.Name):
            return env.get(e.id)
        if isinstance(e, ast.Attribute):
            if e.attr == "TOL":
                return sp.Integer(0)  # a guard against 0/0 at r = 0, irrelevant at a generic point
            if e.attr == "epsilon" and dotted(e.value) == "self":
                return eps
            return None
        if isinstance(e, ast.Compare):
            return sp.Integer(1)  # `r > TOL` is true at a generic point
        if isinstance(e, ast.UnaryOp) and isinstance(e.op, (ast.USub, ast.UAdd)):
            v = term(e.operand, env)
            return None if v is None else (-v if isinstance(e.op, ast.USub) else v)
        if isinstance(e, ast.BinOp):
            a, b = term(e.left, env), term(e.right, env)
            if a is None or b is None:
                return None
            ops = {ast.Add: lambda: a + b, ast.Sub: lambda: a - b, ast.Mult: lambda: a * b, ast.Div: lambda: a / b, ast.Pow: lambda: a**b}
            f_ = ops.get(type(e.op))
            return f_() if f_ else None
        if isinstance(e, ast.Call) and not e.keywords:
            fn = last_attr(e) or dotted(e.func)
            args = [term(a, env) for a in e.args]
            if any(a is None for a in args):
                return None
            if fn == "sqrt" and len(args) == 1:
                return sp.sqrt(args[0])
            if fn == "exp" and len(args) == 1:
                return sp.exp(args[0])
            if fn == "log" and len(args) == 1:
                return sp.log(args[0])
            if fn == "xlogy" and len(args) == 2:
                return args[0] * sp.log(args[1])
        return None

    def single_return(fn):
        rets = [s for s in stmts_of(fn) if isinstance(s, ast.Return) and s.value is not None]
        return rets[0].value if len(rets) == 1 else None

    n_der = 0
    for name in names:
        der, k = ders.methods.get(f"der_{name}"), kernels.get(name)
        if der is None or k is None:
            continue
        con = cname(RBF, "RBFRegressor.RBFDerivatives", f"der_{name}")
        kr, dr = single_return(k), single_return(der)
        h = term(kr, {k.args.args[1].arg: r}) if kr is not None else None
        d = term(dr, {"input_data": x, "norm_input_data": r, "eps": eps}) if dr is not None else None
        if h is None:
            raise AnalysisError(f"SciPy kernel _h_{name} is not an expression the derivative rule understands")
        if d is None:
            ctx.ob("18.1-derivative", con, False, f"der_{name} is not a closed-form expression of (input_data, norm_input_data, eps) that can be compared with the derivative of SciPy's kernel", node=der, stmt=f"der_{name} = d _h_{name}(|x|) / dx")
            continue
        want = sp.diff(h, r) * x / r
        from gv import symexpr

        eq = symexpr.equal(d, want, positive=("r", "eps"))
        n_der += 1
        ctx.ob("18.1-derivative", con, eq is True, f"der_{name} = {sp.simplify(d)} but the derivative of SciPy's kernel h(r) = {h} with respect to x is h'(r) x / r = {sp.simplify(want)}: the predicted Jacobian is not the derivative of the prediction", node=der, stmt=f"der_{name} = d _h_{name}(|x|) / dx")
    ctx.floor("18.1-derivative", 7)
    extra = sorted(set(m[4:] for m in ders.methods if m.startswith("der_")) - set(names))
    ctx.ob("18.1-exists", cname(RBF, "RBFRegressor.RBFDerivatives"), not extra, f"derivatives without a kernel of that name: {extra}", node=ders.node, stmt="no orphan derivative")
    # the Jacobian routine: every fact is asked of the expressions with the locals unfolded, so that a value written in
    # place, through a local or through a renamed local is the same thing
    f = ctx.index.method(RBF, "RBFRegressor", "_predict_jacobian")
    con = cname(RBF, "RBFRegressor", "_predict_jacobian")
    sv = SymValues(f)
    sel = [c for c in walk_body(f) if _is_getattr(c)]
    ok = len(sel) == 1 and len(sel[0].args) == 2 and sv.texts(sel[0].args[0]) == ["self.RBFDerivatives"]
    if ok:
        alts = [_str_pieces(e) for e in sv.exprs(sel[0].args[1])]
        ok = all(len(a) == 2 and a[0] == "der_" and isinstance(a[1], ast.AST) and norm_stmt(a[1]) == "self.function" for a in alts)
    # the call of the selected derivative: the callee is the getattr above, at most behind the user-given derivative
    call = [c for c in walk_body(f) if isinstance(c, ast.Call) and not _is_getattr(c) and any(_has_getattr(e) for e in sv.exprs(c.func))]
    ok = ok and len(call) == 1 and all(_only_user_given_before(e) for e in sv.exprs(call[0].func))
    ctx.ob("18.1-dispatch", con, ok, "the derivative must be selected by the name of the kernel the model was built with", node=(sel or [f])[0])
    a_diff = a_dist = a_eps = None
    if len(call) == 1 and not any(isinstance(a, ast.Starred) for a in call[0].args) and all(k.arg for k in call[0].keywords):
        c = call[0]
        kws = {k.arg: k.value for k in c.keywords}
        # 18.1-signature makes (input_data, norm_input_data, eps) the parameters of every derivative, in that order
        pos = dict(zip(("input_data", "norm_input_data", "eps"), c.args))
        if len(c.args) <= 3 and not set(pos) & set(kws) and set(pos) | set(kws) == {"input_data", "norm_input_data", "eps"}:
            a_diff, a_dist, a_eps = ({**pos, **kws}[n] for n in ("input_data", "norm_input_data", "eps"))
    ok = a_eps is not None and sv.texts(a_eps) == ["self.algo.epsilon"]
    ctx.ob("18.1-dispatch", con, ok, "the derivative must be evaluated at (differences, distances) with the SciPy model's own epsilon", node=(call or [f])[0])
    query = f.args.args[1].arg
    diff_alts = sv.exprs(a_diff) if a_diff is not None else []
    ok = bool(diff_alts)
    xi_ok = bool(diff_alts)
    for e in diff_alts:
        lr = _difference(e)
        ok = ok and lr is not None and query in names_in(lr[0]) and "self.algo" not in ast.unparse(lr[0]) and query not in names_in(lr[1])
        xi_ok = xi_ok and lr is not None and _reads(lr[1], "self.algo.xi")
    ctx.ob("18.1-dispatch", con, ok, "differences are query point minus learning point (the sign of the Jacobian depends on it)", node=a_diff if a_diff is not None else f)
    dist_alts = sv.exprs(a_dist) if a_dist is not None else []
    ok = bool(dist_alts) and all(_norm_over_inputs(e, {ast.unparse(d) for d in diff_alts}) for e in dist_alts)
    ctx.ob("18.1-dispatch", con, ok, "distances are the norms of the differences over the input axis", node=a_dist if a_dist is not None else f)
    rets = [s for s in stmts_of(f) if isinstance(s, ast.Return)]
    ok = nodes_ok = len(rets) == 1 and rets[0].value is not None and len(call) == 1
    for e in sv.exprs(rets[0].value) if ok else []:
        summed = _summed_over_last(e)
        facs = (summed.left, summed.right) if isinstance(summed, ast.BinOp) and isinstance(summed.op, ast.Mult) else None
        ders_ = set(sv.texts(call[0]))  # the derivative call above, unfolded
        der = [x for x in facs or () if ast.unparse(x) in ders_]
        wts = [x for x in facs or () if not any(ast.unparse(n) in ders_ for n in ast.walk(x) if isinstance(n, ast.Call))]
        ok = ok and len(der) == 1 and len(wts) == 1
        nodes_ok = nodes_ok and len(wts) == 1 and _reads(wts[0], "self.algo.nodes")
    ctx.ob("18.1-dispatch", con, bool(xi_ok and nodes_ok), "learning points and weights are those of the fitted SciPy model", node=(rets or [f])[0], stmt="xi and nodes of self.algo")
    ctx.ob("18.1-dispatch", con, bool(ok), "the Jacobian is the sum over the learning points of weight x kernel derivative", node=(rets or [f])[0])
    # the value side uses the same model
    p = ctx.index.method(RBF, "RBFRegressor", "_predict")
    svp = SymValues(p)
    ok = any(isinstance(c, ast.Call) and "self.algo" in svp.texts(c.func) for c in walk_body(p))
    ctx.ob("18.1-dispatch", cname(RBF, "RBFRegressor", "_predict"), ok, "predictions come from the same fitted SciPy model", node=p, stmt="predict with self.algo")
    fit = ctx.index.method(RBF, "RBFRegressor", "_fit")
    svf = SymValues(fit)
    ctor = [c for c in walk_body(fit) if isinstance(c, ast.Call) and dotted(c.func) == "Rbf"]
    kw = {k.arg: svf.texts(k.value) for k in ctor[0].keywords} if len(ctor) == 1 else {}
    ok = kw.get("function") == ["self._settings.function"] and kw.get("epsilon") == ["self._settings.epsilon"]
    ctx.ob("18.1-dispatch", cname(RBF, "RBFRegressor", "_fit"), ok, "the SciPy model is built with the kernel and the epsilon of the settings", node=(ctor or [fit])[0])


def _is_getattr(n: ast.AST) -> bool:
    return isinstance(n, ast.Call) and dotted(n.func) == "getattr"


def _has_getattr(e: ast.AST) -> bool:
    """``e`` (a callee) is the derivative looked up by getattr, possibly behind a user-given one (``a or getattr(..)``,
    ``a if c else getattr(..)``)."""
    if isinstance(e, ast.BoolOp):
        return any(_has_getattr(v) for v in e.values)
    if isinstance(e, ast.IfExp):
        return _has_getattr(e.body) or _has_getattr(e.orelse)
    return _is_getattr(e)


def _only_user_given_before(e: ast.AST) -> bool:
    """The callee ``e`` is the looked-up derivative, or the user's own ``self.der_function`` when there is one: nothing
    else can take the place of the derivative named after the kernel."""
    if isinstance(e, ast.BoolOp) and isinstance(e.op, ast.Or):
        return all(dotted(v) == "self.der_function" for v in e.values[:-1]) and _only_user_given_before(e.values[-1])
    if isinstance(e, ast.IfExp):
        return all(dotted(v) == "self.der_function" or _only_user_given_before(v) for v in (e.body, e.orelse)) and _has_getattr(e)
    return _is_getattr(e) or dotted(e) == "self.der_function"


def _reads(e: ast.AST, path: str) -> bool:
    """``e`` reads the attribute path ``path`` (e.g. self.algo.xi), whatever is done to it afterwards."""
    return any(isinstance(n, ast.Attribute) and dotted(n) == path for n in ast.walk(e))


def _str_pieces(e: ast.AST) -> list:
    """A string-building expression as its pieces, literal text (str, adjacent ones merged) and embedded expressions
    (ast): f"der_{x}", "der_" + x, "der_%s" % x, "der_{}".format(x) and "".join(("der_", x)) are all ["der_", x]."""

    def pieces(e):
        if isinstance(e, ast.Constant) and isinstance(e.value, str):
            return [e.value]
        if isinstance(e, ast.JoinedStr):
            out = []
            for v in e.values:
                if isinstance(v, ast.FormattedValue):
                    if v.conversion not in (-1, 115) or v.format_spec is not None:
                        return [e]
                    out += pieces(v.value)
                else:
                    out += pieces(v)
            return out
        if isinstance(e, ast.BinOp) and isinstance(e.op, ast.Add):
            return pieces(e.left) + pieces(e.right)
        if isinstance(e, ast.Call) and dotted(e.func) == "str" and len(e.args) == 1 and not e.keywords:
            return pieces(e.args[0])
        fmt = args = None
        if isinstance(e, ast.BinOp) and isinstance(e.op, ast.Mod) and isinstance(e.left, ast.Constant) and isinstance(e.left.value, str):
            fmt, args, hole = e.left.value, (e.right.elts if isinstance(e.right, ast.Tuple) else [e.right]), "%s"
            if "%" in fmt.replace("%s", ""):
                return [e]
        elif isinstance(e, ast.Call) and isinstance(e.func, ast.Attribute) and e.func.attr == "format" and isinstance(e.func.value, ast.Constant) and isinstance(e.func.value.value, str) and not e.keywords:
            fmt, args, hole = e.func.value.value, e.args, "{}"
            if "{" in fmt.replace("{}", "") or "}" in fmt.replace("{}", ""):
                return [e]
        elif isinstance(e, ast.Call) and isinstance(e.func, ast.Attribute) and e.func.attr == "join" and isinstance(e.func.value, ast.Constant) and e.func.value.value == "" and len(e.args) == 1 and isinstance(e.args[0], (ast.Tuple, ast.List)) and not e.keywords:
            return [x for a in e.args[0].elts for x in pieces(a)]
        if fmt is not None:
            lits = fmt.split(hole)
            if len(lits) != len(args) + 1 or any(isinstance(a, ast.Starred) for a in args):
                return [e]
            out = [lits[0]]
            for a, lit in zip(args, lits[1:]):
                out += [*pieces(a), lit]
            return out
        return [e]

    out: list = []
    for x in pieces(e):
        if isinstance(x, str) and not x:
            continue
        if isinstance(x, str) and out and isinstance(out[-1], str):
            out[-1] += x
        else:
            out.append(x)
    return out


def _difference(e: ast.AST):
    """(a, b) when ``e`` is a - b, also spelled subtract(a, b)."""
    if isinstance(e, ast.BinOp) and isinstance(e.op, ast.Sub):
        return e.left, e.right
    if isinstance(e, ast.Call) and last_attr(e) == "subtract" and len(e.args) == 2 and not e.keywords:
        return e.args[0], e.args[1]
    return None


def _is_none_axis(e: ast.AST) -> bool:
    return dotted(e) in ("newaxis", "np.newaxis", "numpy.newaxis") or (isinstance(e, ast.Constant) and e.value is None)


def _is_full_slice(e: ast.AST) -> bool:
    return isinstance(e, ast.Slice) and e.lower is None and e.upper is None and e.step is None


def _int(e: ast.AST | None):
    if isinstance(e, ast.UnaryOp) and isinstance(e.op, ast.USub) and isinstance(e.operand, ast.Constant) and type(e.operand.value) is int:
        return -e.operand.value
    return e.value if isinstance(e, ast.Constant) and type(e.value) is int else None


def _kw(call: ast.Call, name: str) -> ast.AST | None:
    return next((k.value for k in call.keywords if k.arg == name), None)


def _norm_over_inputs(e: ast.AST, diffs: set[str]) -> bool:
    """``e`` is the Euclidean norm of (one of the texts) ``diffs`` over axis 2 of the 4-d array (samples, outputs,
    inputs, learning samples), the reduced axis kept as an axis of length 1: norm(d, axis=2)[:, :, newaxis],
    norm(d, axis=2, keepdims=True) or expand_dims(norm(d, axis=2), 2)."""
    kept = False
    if isinstance(e, ast.Subscript):
        idx = e.slice.elts if isinstance(e.slice, ast.Tuple) else [e.slice]
        if not (len(idx) in (3, 4) and _is_full_slice(idx[0]) and _is_full_slice(idx[1]) and _is_none_axis(idx[2]) and all(_is_full_slice(i) or (isinstance(i, ast.Constant) and i.value is Ellipsis) for i in idx[3:])):
            return False
        kept, e = True, e.value
    elif isinstance(e, ast.Call) and last_attr(e) == "expand_dims" and e.args:
        ax = _kw(e, "axis") if len(e.args) == 1 else e.args[1] if len(e.args) == 2 else None
        if _int(ax) not in (2, -2):
            return False
        kept, e = True, e.args[0]
    if not (isinstance(e, ast.Call) and last_attr(e) == "norm" and len(e.args) == 1 and ast.unparse(e.args[0]) in diffs):
        return False
    kws = {k.arg: k.value for k in e.keywords}
    if set(kws) - {"axis", "keepdims", "ord"} or _int(kws.get("axis")) not in (2, -2):  # the axis of the 4-d argument
        return False
    if "ord" in kws and not ((isinstance(kws["ord"], ast.Constant) and kws["ord"].value in (None, 2))):
        return False
    keep = kws.get("keepdims")
    keep = isinstance(keep, ast.Constant) and keep.value is True if keep is not None else False
    return keep != kept


def _summed_over_last(e: ast.AST) -> ast.AST | None:
    """x when ``e`` is the sum of x over its last axis (the learning samples of the 4-d array): x.sum(-1), x.sum(axis=-1),
    sum(x, axis=-1) of numpy, with 3 for -1."""
    if not (isinstance(e, ast.Call) and last_attr(e) == "sum"):
        return None
    if isinstance(e.func, ast.Attribute) and dotted(e.func.value) not in ("np", "numpy"):
        x, rest = e.func.value, e.args
    elif e.args:
        x, rest = e.args[0], e.args[1:]
    else:
        return None
    if isinstance(e.func, ast.Name) and not e.keywords:
        return None  # the builtin sum adds along the FIRST axis
    ax = rest[0] if len(rest) == 1 and not e.keywords else _kw(e, "axis") if not rest and [k.arg for k in e.keywords] == ["axis"] else None
    return x if _int(ax) in (-1, 3) else None


def _flat_of(e: ast.AST) -> str | None:
    """The name v when ``e`` is v with at most its shape flattened: v.flatten() / v.ravel() / v.copy(), v.reshape(-1),
    v.reshape((-1,)), ravel(v), reshape(v, -1)."""
    if not (isinstance(e, ast.Call) and not e.keywords):
        return None
    minus_one = lambda a: _int(a) == -1 or (isinstance(a, ast.Tuple) and len(a.elts) == 1 and _int(a.elts[0]) == -1)  # noqa: E731
    if isinstance(e.func, ast.Attribute) and isinstance(e.func.value, ast.Name) and e.func.value.id not in ("np", "numpy"):
        if (e.func.attr in ("flatten", "ravel", "copy") and not e.args) or (e.func.attr == "reshape" and len(e.args) == 1 and minus_one(e.args[0])):
            return e.func.value.id
        return None
    fn = last_attr(e)
    if (fn == "ravel" and len(e.args) == 1) or (fn == "reshape" and len(e.args) == 2 and minus_one(e.args[1])):
        return dotted(e.args[0]) if isinstance(e.args[0], ast.Name) else None
    return None


def _only_argument(call: ast.Call, name: str) -> ast.AST | None:
    """The single argument of a call, given by position or under the keyword ``name``."""
    if len(call.args) == 1 and not call.keywords and not isinstance(call.args[0], ast.Starred):
        return call.args[0]
    if not call.args and [k.arg for k in call.keywords] == [name]:
        return call.keywords[0].value
    return None


def check_surrogate(ctx: Ctx) -> None:
    f = ctx.index.method(SUR, "SurrogateDiscipline", "_run")
    con = cname(SUR, "SurrogateDiscipline", "_run")
    pr = [c for c in walk_body(f) if isinstance(c, ast.Call) and norm_stmt(c.func) == "self.regression_model.predict"]
    at = _only_argument(pr[0], "input_data") if len(pr) == 1 else None
    ok = at is not None and SymValues(f).texts(at) == [f.args.args[1].arg]
    ctx.ob("18.2-predict", con, ok, "the surrogate discipline must predict at its own input data", node=(pr or [f])[0])
    loops = [s for s in stmts_of(f) if isinstance(s, ast.For) and pr and pr[0] in list(ast.walk(s.iter))]
    ok = len(loops) == 1 and isinstance(loops[0].target, ast.Tuple)
    if ok:
        nm, val = (dotted(e) for e in loops[0].target.elts)
        st = [s for s in ast.walk(loops[0]) if isinstance(s, ast.Assign) and isinstance(s.targets[0], ast.Subscript)]
        ok = len(st) == 1 and dotted(st[0].targets[0].slice) == nm and _flat_of(st[0].value) == val
        rets = [s for s in stmts_of(f) if isinstance(s, ast.Return)]
        ok = ok and len(rets) == 1 and dotted(rets[0].value) == dotted(st[0].targets[0].value)
    if not ok:
        # the same as a dict comprehension over the predictions
        comps = [s for s in stmts_of(f) if isinstance(s, (ast.Assign, ast.Return)) and isinstance(s.value, ast.DictComp) and pr and pr[0] in list(ast.walk(s.value.generators[0].iter))]
        if len(comps) == 1 and len(comps[0].value.generators) == 1 and not comps[0].value.generators[0].ifs and isinstance(comps[0].value.generators[0].target, ast.Tuple):
            dc = comps[0].value
            nm, val = (dotted(e) for e in dc.generators[0].target.elts)
            ok = dotted(dc.key) == nm and _flat_of(dc.value) == val
            rets = [s for s in stmts_of(f) if isinstance(s, ast.Return)]
            ok = ok and len(rets) == 1 and (rets[0] is comps[0] or dotted(rets[0].value) == dotted(comps[0].targets[0]))
            loops = comps
    ctx.ob("18.2-predict", con, ok, "each output is the model's prediction for the output of the same name (only flattened)", node=(loops or [f])[0], stmt="outputs = predictions, name by name")
    g = ctx.index.method(SUR, "SurrogateDiscipline", "_compute_jacobian")
    cong = cname(SUR, "SurrogateDiscipline", "_compute_jacobian")
    st = [s for s in stmts_of(g) if isinstance(s, ast.Assign) and dotted(s.targets[0]) == "self.jac"]
    ok = len(st) == 1 and isinstance(st[0].value, ast.Call) and norm_stmt(st[0].value.func) == "self.regression_model.predict_jacobian" and _only_argument(st[0].value, "input_data") is not None and SymValues(g).texts(_only_argument(st[0].value, "input_data")) == ["self.io.get_input_data()"]
    ctx.ob("18.2-jacobian", cong, ok, "the Jacobian of the surrogate discipline must be the model's predicted Jacobian at the discipline's current input data", node=(st or [g])[0])
    others = [s for s in stmts_of(g) if isinstance(s, (ast.AugAssign,)) or (isinstance(s, ast.Assign) and isinstance(s.targets[0], ast.Subscript) and "jac" in norm_stmt(s.targets[0]))]
    ctx.ob("18.2-jacobian", cong, not others, "the predicted Jacobian must not be altered", node=(others or [g])[0], stmt="no further edit of self.jac")


PIP = "mlearning/transformers/pipeline.py"
MOE = "mlearning/regression/algos/moe.py"


def _int_value(e: ast.AST, env: dict, length: str):
    """The integer an index expression stands for: integers, the names of ``env``, ``len(seq)`` (text ``length``, value
    env["#len"]) combined by + - unary - ~ and products with a constant (so: an affine expression); None otherwise."""
    v = _int(e)
    if v is not None:
        return v
    if isinstance(e, ast.Name):
        return env.get(e.id)
    if isinstance(e, ast.Call):
        return env["#len"] if norm_stmt(e) == length else None
    if isinstance(e, ast.UnaryOp) and isinstance(e.op, (ast.USub, ast.UAdd, ast.Invert)):
        v = _int_value(e.operand, env, length)
        return None if v is None else -v if isinstance(e.op, ast.USub) else ~v if isinstance(e.op, ast.Invert) else v
    if isinstance(e, ast.BinOp) and isinstance(e.op, (ast.Add, ast.Sub, ast.Mult)):
        if isinstance(e.op, ast.Mult) and _int(e.left) is None and _int(e.right) is None:
            return None
        a, b = _int_value(e.left, env, length), _int_value(e.right, env, length)
        if a is None or b is None:
            return None
        return a + b if isinstance(e.op, ast.Add) else a - b if isinstance(e.op, ast.Sub) else a * b
    return None


def _index_order(it: ast.AST, ivar: str, idx: ast.AST, seq: str):
    """Visited last to first? when ``seq[idx]``, ``ivar`` running over the iterable ``it`` (a range over affine bounds,
    possibly reversed), is every element of ``seq`` once, in order (False) or in reverse order (True); None otherwise.
    Decided by running the indices for the lengths 0..6: bounds and index are affine in (ivar, len(seq)) and every
    index must be a valid one, so what holds for these lengths holds for all."""
    length = f"len({seq})"

    def values(e, n):
        if isinstance(e, ast.Call) and not e.keywords and dotted(e.func) in ("reversed", "list", "tuple") and len(e.args) == 1:
            v = values(e.args[0], n)
            return v[::-1] if v is not None and dotted(e.func) == "reversed" else v
        if isinstance(e, ast.Call) and not e.keywords and dotted(e.func) == "range" and 1 <= len(e.args) <= 3:
            a = [_int_value(x, {"#len": n}, length) for x in e.args]
            if any(x is None for x in a) or (len(a) == 3 and a[2] == 0):
                return None
            return list(range(*a))
        return None

    dirs = {False, True}
    for n in range(7):
        vs = values(it, n)
        if vs is None:
            return None
        pos = []
        for i in vs:
            p = _int_value(idx, {ivar: i, "#len": n}, length)
            if p is None or not -n <= p < n:
                return None
            pos.append(p % n)
        dirs &= {r for r in (False, True) if pos == (list(range(n))[::-1] if r else list(range(n)))}
    return next(iter(dirs)) if len(dirs) == 1 else None


def _stages(loop: ast.For, seq: str, sv: SymValues | None = None):
    """(text of the current element, visited last to first?) when ``loop`` visits every element of ``seq`` once, in order
    or in reverse order, by element, by enumerate or by index (any affine index over any range that amounts to it:
    seq[i] over range(len(seq)), seq[-i] over range(1, len(seq) + 1), seq[len(seq) - 1 - i], seq[~i], ...); None
    otherwise.  ``sv`` (the unfolding of the function of the loop) lets bounds and indices go through locals."""

    def whole(e, rev=False):  # (expr, reversed?) -> reversed? when e is seq possibly reversed / copied
        if isinstance(e, ast.Call) and dotted(e.func) in ("list", "tuple") and len(e.args) == 1 and not e.keywords:
            return whole(e.args[0], rev)
        if isinstance(e, ast.Call) and dotted(e.func) == "reversed" and len(e.args) == 1 and not e.keywords:
            return whole(e.args[0], not rev)
        if isinstance(e, ast.Subscript) and isinstance(e.slice, ast.Slice) and e.slice.lower is None and e.slice.upper is None:
            if e.slice.step is None or _int(e.slice.step) == 1:
                return whole(e.value, rev)
            if _int(e.slice.step) == -1:
                return whole(e.value, not rev)
            return None
        return rev if norm_stmt(e) == seq else None

    it, tg = loop.iter, loop.target
    if isinstance(tg, ast.Name):
        r = whole(it)
        if r is not None:
            return tg.id, r
        # by index: the one element seq[<index>] the body reads, the loop variable left alone
        subs = [n for st in loop.body for n in ast.walk(st) if isinstance(n, ast.Subscript) and norm_stmt(n.value) == seq and tg.id in names_in(n.slice)]
        rebound = any(isinstance(n, ast.Name) and n.id == tg.id and not isinstance(n.ctx, ast.Load) for st in loop.body for n in ast.walk(st))
        if subs and len({norm_stmt(n) for n in subs}) == 1 and not rebound:
            its = sv.exprs(it) if sv is not None else [it]
            idxs = sv.exprs(subs[0].slice) if sv is not None else [subs[0].slice]
            r = _index_order(its[0], tg.id, idxs[0], seq) if len(its) == 1 and len(idxs) == 1 else None
            if r is not None:
                return norm_stmt(subs[0]), r
    if isinstance(tg, ast.Tuple) and len(tg.elts) == 2 and all(isinstance(e, ast.Name) for e in tg.elts) and isinstance(it, ast.Call) and dotted(it.func) == "enumerate" and len(it.args) == 1 and not it.keywords:
        r = whole(it.args[0])
        if r is not None:
            return tg.elts[1].id, r
    return None


def _reduce_as_loop(f: ast.AST) -> ast.AST:
    """``f`` with a fold spelled ``reduce(lambda acc, x: body, xs, init)`` (a statement of its body returning or assigning
    it) written as the loop reduce runs: ``acc = init; for x in xs: acc = body``; ``f`` itself when there is none."""
    import copy

    body, changed = [], False
    for st in f.body:
        v = st.value if isinstance(st, (ast.Return, ast.Assign)) else None
        lam = v.args[0] if isinstance(v, ast.Call) and dotted(v.func) in ("reduce", "functools.reduce") and len(v.args) == 3 and not v.keywords else None
        a = lam.args if isinstance(lam, ast.Lambda) else None
        if a is None or len(a.args) != 2 or a.posonlyargs or a.kwonlyargs or a.vararg or a.kwarg or a.defaults:
            body.append(st)
            continue
        acc, x = a.args[0].arg, a.args[1].arg
        # the two names become locals of f: they must not capture anything
        others = set().union(*(names_in(o) for o in f.body if o is not st)) if isinstance(st, ast.Assign) else set()
        if acc == x or {acc, x} & (names_in(v.args[1]) | others) or (isinstance(st, ast.Assign) and not (len(st.targets) == 1 and isinstance(st.targets[0], ast.Name))):
            body.append(st)
            continue
        name = lambda n, c: ast.Name(id=n, ctx=c)  # noqa: E731
        new = [
            ast.Assign(targets=[name(acc, ast.Store())], value=copy.deepcopy(v.args[2])),
            ast.For(target=name(x, ast.Store()), iter=copy.deepcopy(v.args[1]), body=[ast.Assign(targets=[name(acc, ast.Store())], value=copy.deepcopy(lam.body))], orelse=[]),
            ast.Return(value=name(acc, ast.Load())) if isinstance(st, ast.Return) else ast.Assign(targets=[copy.deepcopy(st.targets[0])], value=name(acc, ast.Load())),
        ]
        body += [ast.fix_missing_locations(ast.copy_location(n, st)) for n in new]
        changed = True
    if not changed:
        return f
    g = copy.copy(f)
    g.body = body
    return g


def _entering(f: ast.AST, loop: ast.For, name: str) -> list[str] | None:
    """The values (texts, locals unfolded) the local ``name`` may have when ``loop``, a statement of the body of ``f``,
    is entered; None when the loop is not a statement of the body itself."""
    import copy

    if not any(s is loop for s in f.body):
        return None
    pre = f.body[: next(k for k, s in enumerate(f.body) if s is loop)]
    ret = ast.Return(value=ast.Name(id=name, ctx=ast.Load()))
    fn = ast.FunctionDef(name="_before", args=copy.deepcopy(f.args), body=[*copy.deepcopy(pre), ret], decorator_list=[], type_params=[])
    fn = ast.fix_missing_locations(ast.copy_location(fn, f))
    return sorted(ast.unparse(e) for e in SymValues(fn).exprs(ret.value))


def _after_one_pass(loop: ast.For, names: list[str]) -> list[list[ast.AST]] | None:
    """The values of the locals ``names`` at the end of one pass through the body of ``loop`` as expressions of the
    values at its start (the body unfolded as a piece of code of its own); None when a pass may be cut short."""
    import copy

    if any(isinstance(n, (ast.Break, ast.Continue, ast.Return, ast.Raise)) for st in loop.body for n in ast.walk(st)) or loop.orelse:
        return None
    ret = ast.Return(value=ast.Tuple(elts=[ast.Name(id=n, ctx=ast.Load()) for n in names], ctx=ast.Load()))
    fn = ast.FunctionDef(name="_one_pass", args=ast.arguments(posonlyargs=[], args=[], kwonlyargs=[], kw_defaults=[], defaults=[]), body=[*copy.deepcopy(loop.body), ret], decorator_list=[], type_params=[])
    fn = ast.fix_missing_locations(ast.copy_location(fn, loop))
    out = []
    for e in SymValues(fn).exprs(ret.value):
        if not (isinstance(e, ast.Tuple) and len(e.elts) == len(names)):
            return None
        out.append(list(e.elts))
    return out


def _product(v: ast.AST):
    """(left, right) of a matrix product a @ b, matmul(a, b), dot(a, b), a.dot(b)."""
    if isinstance(v, ast.BinOp) and isinstance(v.op, ast.MatMult):
        return v.left, v.right
    if isinstance(v, ast.Call) and not v.keywords and last_attr(v) in ("matmul", "dot") and len(v.args) == 2:
        return v.args[0], v.args[1]
    if isinstance(v, ast.Call) and not v.keywords and last_attr(v) == "dot" and len(v.args) == 1:
        return v.func.value, v.args[0]
    return None


def _applies(e: ast.AST, callee: str, arg: str | None) -> bool:
    """``e`` is callee(arg) -- callee(<anything>) when arg is None -- the single argument possibly by keyword ``data``."""
    if not (isinstance(e, ast.Call) and norm_stmt(e.func) == callee):
        return False
    a = _only_argument(e, "data")
    return a is not None and (arg is None or norm_stmt(a) == arg)


def check_pipeline(ctx: Ctx) -> None:
    """18.3 chain rule of a pipeline of transformers: J = J_k(data_k) ... J_1(data_1), each stage at its own input."""
    cls = ctx.index.cls(PIP, "Pipeline")
    for jname, tname, reverse in (("compute_jacobian", "transform", False), ("compute_jacobian_inverse", "inverse_transform", True)):
        f = _reduce_as_loop(cls.methods[jname])
        con = cname(PIP, "Pipeline", jname)
        data = [a.arg for a in f.args.args if a.arg != "self"][0]
        loops = [s for s in stmts_of(f) if isinstance(s, ast.For)]
        rets = [s for s in stmts_of(f) if isinstance(s, ast.Return)]
        acc = rets[0].value.id if len(rets) == 1 and isinstance(rets[0].value, ast.Name) else None
        ok = len(loops) == 1 and acc is not None
        order_ok = prod_ok = at_ok = False
        if ok:
            lp = loops[0]
            st = _stages(lp, "self.transformers", SymValues(f))
            order_ok = st is not None and st[1] == reverse
            # one pass through the body: (accumulated Jacobian, running data) -> (J_stage(data) @ Jacobian, stage(data))
            after = _after_one_pass(lp, [acc]) if st is not None else None
            if after is not None and len(after) == 1:
                t = st[0]
                lr = _product(after[0][0])
                # new stage on the left: J_stage @ acc   (or matmul / dot forms)
                prod_ok = lr is not None and _applies(lr[0], f"{t}.{jname}", None) and norm_stmt(lr[1]) == acc
                # the running data: the local the stage Jacobian is evaluated at.  In these expressions it is its value at
                # the START of the pass, i.e. the data entering the stage; it enters the loop as the argument of the method
                run = _only_argument(lr[0], "data") if prod_ok else None
                run = run.id if isinstance(run, ast.Name) and run.id != acc else None
                after = _after_one_pass(lp, [run]) if run is not None else None
                at_ok = after is not None and len(after) == 1 and _applies(after[0][0], f"{t}.{tname}", run) and _entering(f, lp, run) == [data]
        ctx.ob("18.3-pipeline", con, bool(ok and order_ok), f"{jname} must visit the transformers in the order in which {tname} applies them ({'last to first' if reverse else 'first to last'})", node=(loops or [f])[0], stmt=f"{jname}: stages in the order of {tname}")
        ctx.ob("18.3-pipeline", con, bool(prod_ok), "chain rule: the Jacobian of the stage multiplies the accumulated Jacobian on the LEFT (J_stage @ J); the other order is only right when the stage Jacobians commute", node=(loops or [f])[0], stmt=f"{jname}: J = J_stage @ J")
        ctx.ob("18.3-pipeline", con, bool(at_ok), "each stage Jacobian is evaluated at the data entering that stage: the Jacobian statement comes before the data is transformed, both on the running data", node=(loops or [f])[0], stmt=f"{jname}: stage Jacobian at the stage input")
        g = _reduce_as_loop(cls.methods[tname])
        lg = [s for s in stmts_of(g) if isinstance(s, ast.For)]
        stg = _stages(lg[0], "self.transformers", SymValues(g)) if len(lg) == 1 else None
        okg = stg is not None and stg[1] == reverse
        if okg:
            # the running value: the local that is returned; it enters the loop as the argument of the method and one
            # pass replaces it by the stage applied to it
            dg = [a.arg for a in g.args.args if a.arg != "self"][0]
            rg = [s for s in stmts_of(g) if isinstance(s, ast.Return)]
            run = rg[0].value.id if len(rg) == 1 and isinstance(rg[0].value, ast.Name) else None
            after = _after_one_pass(lg[0], [run]) if run is not None else None
            okg = after is not None and len(after) == 1 and _applies(after[0][0], f"{stg[0]}.{tname}", run) and _entering(g, lg[0], run) == [dg]
        ctx.ob("18.3-pipeline", cname(PIP, "Pipeline", tname), okg, f"{tname} applies the transformers {'last to first' if reverse else 'first to last'}", node=(lg or [g])[0], stmt=f"{tname}: order of the stages")


def check_moe(ctx: Ctx) -> None:
    """18.4 mixture of experts (hard): the Jacobian of a point comes from the local model of its own cluster label."""
    f = ctx.index.method(MOE, "MOERegressor", "_predict_jacobian_hard")
    con = cname(MOE, "MOERegressor", "_predict_jacobian_hard")
    loops = [s for s in stmts_of(f) if isinstance(s, ast.For) and isinstance(s.target, ast.Name)]
    ok = False
    node = f
    sv = SymValues(f)
    points = [a.arg for a in f.args.args if a.arg != "self"][0]

    def one(e):  # the single unfolded alternative of an expression (of an index: slices as they are), None when several
        if isinstance(e, ast.Slice):
            return e
        if isinstance(e, ast.Tuple) and any(isinstance(x, ast.Slice) for x in e.elts):
            elts = [one(x) for x in e.elts]
            return None if any(x is None for x in elts) else ast.Tuple(elts=elts, ctx=ast.Load())
        alts = sv.exprs(e)
        return alts[0] if len(alts) == 1 else None

    for lp in loops:
        node = lp
        k = lp.target.id
        # the loop visits the labels found by the classifier: unique(labels), set(labels), sorted(set(labels)), ...
        labels = whole = one(lp.iter)
        while isinstance(labels, ast.Call) and not labels.keywords and len(labels.args) == 1 and last_attr(labels) in ("unique", "set", "frozenset", "sorted", "list", "tuple"):
            labels = labels.args[0]
        if labels is None or labels is whole or any(isinstance(n, ast.Name) and n.id == k and not isinstance(n.ctx, ast.Load) for st in lp.body for n in ast.walk(st)):
            continue
        okc = any(isinstance(n, ast.Call) and norm_stmt(n.func) == "self.classifier.predict" for n in ast.walk(labels))
        calls = [c for c in ast.walk(lp) if isinstance(c, ast.Call) and last_attr(c) == "predict_jacobian"]
        if len(calls) != 1:
            continue
        c = calls[0]
        model = one(c.func)
        model = model.value if isinstance(model, ast.Attribute) else None
        okm = isinstance(model, ast.Subscript) and norm_stmt(model.value) == "self.regress_models" and dotted(model.slice) == k
        at = _only_argument(c, "input_data")
        at = one(at) if at is not None else None
        oki = isinstance(at, ast.Subscript) and norm_stmt(at.value) == points and _selects_label(at.slice, ast.unparse(labels), k)
        # stored at the positions of the same points
        st = [s for s in ast.walk(lp) if isinstance(s, ast.Assign) and len(s.targets) == 1 and isinstance(s.targets[0], ast.Subscript) and sv.texts(s.value) == sv.texts(c)]
        okt = len(st) == 1
        if okt:
            where = one(st[0].targets[0].slice)
            okt = where is not None and _selects_label(where, ast.unparse(labels), k)
        ok = okm and oki and okt and okc
    ctx.ob("18.4-moe", con, bool(ok), "the Jacobian rows of the points of cluster k must come from self.regress_models[k] (k the cluster LABEL given by the classifier), evaluated at those points and stored at their positions", node=node, stmt="Jacobian of cluster k from regress_models[k] at the points of cluster k")
    g = ctx.index.method(MOE, "MOERegressor", "_predict_all")
    con = cname(MOE, "MOERegressor", "_predict_all")
    st = [s for s in ast.walk(g) if isinstance(s, ast.Assign) and isinstance(s.targets[0], ast.Subscript) and any(isinstance(c, ast.Call) and last_attr(c) == "predict" for c in ast.walk(s.value))]
    ok = len(st) == 1
    if ok:
        c = next(c for c in ast.walk(st[0].value) if isinstance(c, ast.Call) and last_attr(c) == "predict")
        # the local model i: self.regress_models[i], or the element that enumerate(self.regress_models) pairs with i
        i = dotted(c.func.value.slice) if isinstance(c.func.value, ast.Subscript) and norm_stmt(c.func.value.value) == "self.regress_models" else None
        if i is None and isinstance(c.func.value, ast.Name):
            for lp in (s for s in ast.walk(g) if isinstance(s, ast.For) and st[0] in list(ast.walk(s))):
                tg, it = lp.target, lp.iter
                if isinstance(tg, ast.Tuple) and len(tg.elts) == 2 and dotted(tg.elts[1]) == c.func.value.id and isinstance(tg.elts[0], ast.Name) and isinstance(it, ast.Call) and dotted(it.func) == "enumerate" and [norm_stmt(a) for a in it.args] == ["self.regress_models"] and not it.keywords:
                    stores = [n for n in ast.walk(lp) if isinstance(n, ast.Name) and isinstance(n.ctx, ast.Store) and n.id in (tg.elts[0].id, c.func.value.id)]
                    i = tg.elts[0].id if len(stores) == 2 else None  # neither is re-assigned in the loop
        tgt = st[0].targets[0]
        # [:, i] of the 3-d array, the other axes taken whole: [:, i], [:, i, :], [:, i, ...]
        idx = tgt.slice.elts if isinstance(tgt.slice, ast.Tuple) else []
        rest_whole = len(idx) == 2 or (len(idx) == 3 and (_is_full_slice(idx[2]) or (isinstance(idx[2], ast.Constant) and idx[2].value is Ellipsis)))
        sl = idx[1] if len(idx) >= 2 and _is_full_slice(idx[0]) and rest_whole else None
        ok = i is not None and dotted(sl) == i
    ctx.ob("18.4-moe", con, bool(ok), "column i of the local outputs is the prediction of local model i (the probabilities that weight it are indexed by the same cluster label)", node=(st or [g])[0], stmt="local_outputs[:, i] = regress_models[i].predict")


def _selects_label(e: ast.AST, labels: str, k: str) -> bool:
    """``e`` (an index) selects the points whose label is ``k``: the mask ``labels == k``, or its positions
    (mask.nonzero()[0], nonzero(mask)[0], where(mask)[0], flatnonzero(mask); the 1-tuple of nonzero/where indexes the
    first axis just as well); as the first index of a tuple whose other axes are taken whole."""
    if isinstance(e, ast.Tuple) and e.elts and all(_is_full_slice(x) or (isinstance(x, ast.Constant) and x.value is Ellipsis) for x in e.elts[1:]):
        e = e.elts[0]
    if isinstance(e, ast.Subscript) and _int(e.slice) == 0 and isinstance(e.value, ast.Call) and last_attr(e.value) in ("nonzero", "where"):
        e = e.value
    if isinstance(e, ast.Call) and not e.keywords and last_attr(e) in ("nonzero", "where", "flatnonzero"):
        if isinstance(e.func, ast.Attribute) and dotted(e.func.value) not in ("np", "numpy"):
            e = e.func.value if last_attr(e) == "nonzero" and not e.args else None
        else:
            e = e.args[0] if len(e.args) == 1 else None
    if isinstance(e, ast.Call) and not e.keywords and last_attr(e) == "equal" and len(e.args) == 2:
        sides = e.args
    elif isinstance(e, ast.Compare) and len(e.ops) == 1 and isinstance(e.ops[0], ast.Eq):
        sides = [e.left, e.comparators[0]]
    else:
        return False
    return sorted(ast.unparse(x) for x in sides) == sorted([labels, k])


def rules_enclosing(f, node):
    from gv.rules import enclosing_stmt

    return enclosing_stmt(f, node)


def check_openturns_gradients(ctx: Ctx) -> None:
    """18.5: an OpenTURNS function's ``gradient(point)`` is the TRANSPOSED Jacobian (inputs x outputs); every
    regressor that returns it as a Jacobian (outputs x inputs) transposes it -- the siblings must agree."""
    from gv.dataflow import SymValues

    n = 0
    for rel, mod in sorted(ctx.index.modules.items()):
        if not rel.startswith("mlearning/regression/algos/"):
            continue
        for cn, c in sorted(mod.classes.items()):
            for mname, m in sorted(c.methods.items()):
                if "jacobian" not in mname:
                    continue
                sv = None
                parents = None
                # nested scopes included: the gradient may be taken in a helper (lambda / nested def) of the method
                for call in (n_ for st_ in m.body for n_ in ast.walk(st_)):
                    if not (isinstance(call, ast.Call) and len(call.args) == 1 and isinstance(call.args[0], ast.Call) and last_attr(call.args[0]) == "Point"):
                        continue
                    sv = sv or SymValues(m)
                    if not any(t.endswith(".gradient") for t in sv.texts(call.func)):
                        continue
                    if parents is None:
                        parents = {id(ch): p_ for p_ in ast.walk(m) for ch in ast.iter_child_nodes(p_)}
                    # climb through array(...) wrappers up to the transposition
                    cur = call
                    transposed = False
                    for _ in range(4):
                        par = parents.get(id(cur))
                        if isinstance(par, ast.Call) and last_attr(par) in ("array", "asarray", "atleast_2d") and par.args and par.args[0] is cur:
                            cur = par
                        elif isinstance(par, ast.Attribute) and par.attr == "T":
                            transposed = True
                            break
                        elif isinstance(par, ast.Call) and last_attr(par) == "transpose" and par.args and par.args[0] is cur and len(par.args) == 1 and not par.keywords:
                            transposed = True  # transpose(a)
                            break
                        elif isinstance(par, ast.Call) and last_attr(par) == "swapaxes" and not par.keywords and ((par.args and par.args[0] is cur and len(par.args) == 3) or (par.func is cur and len(par.args) == 2)) and sorted(_int(a) % 2 if _int(a) is not None else -1 for a in par.args[-2:]) == [0, 1]:
                            transposed = True  # swapaxes(a, 0, 1): the two axes of the 2-d gradient exchanged
                            break
                        elif isinstance(par, ast.Attribute) and par.attr == "swapaxes" and par.value is cur:
                            cur = par  # a.swapaxes(...): decided on the call
                        else:
                            break
                    n += 1
                    ctx.ob("18.5-openturns-gradient", cname(rel, cn, mname), transposed, "the OpenTURNS gradient of the model at a point is inputs x outputs: it must be transposed to give the Jacobian (outputs x inputs); untransposed it is silently wrong for as many outputs as inputs and mis-shaped otherwise", node=call, stmt=f"array({norm_stmt(call, 40)}).T")
    ctx.floor("18.5-openturns-gradient", 2)


SCL = "mlearning/transformers/scaler/scaler.py"
PCA_ = "mlearning/transformers/dimension_reduction/pca.py"
RDF = "mlearning/data_formatters/regression_data_formatters.py"


def _single_return_alts(f: ast.AST) -> list[ast.AST]:
    rets = [s for s in stmts_of(f) if isinstance(s, ast.Return) and s.value is not None]
    if len(rets) != 1:
        return []
    return SymValues(f).exprs(rets[0].value)


def check_scaler(ctx: Ctx) -> None:
    """18.6 the four maps of the affine scaler agree: inverse_transform undoes transform, the two Jacobians are the
    derivatives of the two maps.  Component-wise terms (right product with diag(v) scales component j by v_j)."""
    import sympy as sp

    from gv import symexpr

    cls = ctx.index.cls(SCL, "Scaler")
    x, c, o = sp.Symbol("x", real=True), sp.Symbol("c", positive=True), sp.Symbol("o", real=True)

    def term(e, diag_entry=False):
        """the j-th component of the expression, as a function of the j-th component x of the data"""
        if isinstance(e, ast.Constant) and isinstance(e.value, (int, float)) and not isinstance(e.value, bool):
            return sp.nsimplify(e.value)
        if isinstance(e, ast.Name):
            return x if e.id == "data" else None
        if isinstance(e, ast.Attribute) and dotted(e.value) == "self":
            return {"coefficient": c, "offset": o}.get(e.attr)
        if isinstance(e, ast.UnaryOp) and isinstance(e.op, ast.USub):
            v = term(e.operand, diag_entry)
            return None if v is None else -v
        if isinstance(e, ast.BinOp):
            if isinstance(e.op, ast.MatMult):
                # data @ diag(v): component j scaled by v_j
                if isinstance(e.right, ast.Call) and last_attr(e.right) == "diag" and len(e.right.args) == 1 and not e.right.keywords:
                    a, b = term(e.left), term(e.right.args[0])
                    return None if a is None or b is None else a * b
                return None
            a, b = term(e.left, diag_entry), term(e.right, diag_entry)
            if a is None or b is None:
                return None
            ops = {ast.Add: lambda: a + b, ast.Sub: lambda: a - b, ast.Mult: lambda: a * b, ast.Div: lambda: a / b, ast.Pow: lambda: a**b}
            f_ = ops.get(type(e.op))
            return f_() if f_ else None
        if isinstance(e, ast.Call) and not e.keywords:
            fn = last_attr(e) or dotted(e.func)
            if fn == "tile" and e.args:
                return term(e.args[0], diag_entry)  # one copy per sample
            if fn == "diag" and len(e.args) == 1 and diag_entry:
                return term(e.args[0])  # the (j, j) entry of the Jacobian
        return None

    maps = {}
    for name, is_jac in (("transform", False), ("inverse_transform", False), ("compute_jacobian", True), ("compute_jacobian_inverse", True)):
        f = cls.methods.get(name)
        ctx.need(f is not None, f"Scaler.{name} not found")
        data = [a.arg for a in f.args.args if a.arg != "self"]
        alts = _single_return_alts(f)
        ts = []
        for e in alts:
            if data and data[0] != "data":
                e = ast.parse(re.sub(rf"\b{re.escape(data[0])}\b", "data", ast.unparse(e)), mode="eval").body
            ts.append(term(e, diag_entry=is_jac))
        maps[name] = ts if ts and all(t is not None for t in ts) else None
    con = cname(SCL, "Scaler", "inverse_transform")
    t, inv = maps["transform"], maps["inverse_transform"]
    understood = t is not None and inv is not None
    ok = understood and all(symexpr.equal(i.subs(x, tt), x, positive=("c",)) is True for tt in t for i in inv)
    ctx.ob("18.6-scaler", con, bool(ok), "inverse_transform(transform(x)) must be x component by component: transform is x*coefficient + offset, so the inverse is (x - offset)/coefficient" + ("" if understood else " (the maps are not affine expressions of data, self.coefficient, self.offset that the rule can read)"), node=cls.methods["inverse_transform"], stmt="inverse_transform o transform = identity")
    for jname, mname in (("compute_jacobian", "transform"), ("compute_jacobian_inverse", "inverse_transform")):
        j, m = maps[jname], maps[mname]
        ok = j is not None and m is not None and all(symexpr.equal(jj, sp.diff(mm, x), positive=("c",)) is True for jj in j for mm in m)
        ctx.ob("18.6-scaler", cname(SCL, "Scaler", jname), bool(ok), f"{jname} must be the derivative of {mname}: a diagonal matrix whose entries are d {mname}(x)_j / d x_j", node=cls.methods[jname], stmt=f"{jname} = d {mname} / d data")
    ctx.floor("18.6-scaler", 3)
    # the setters keep the parameters the maps read: a subclass fits by assigning self.coefficient / self.offset
    for sub_rel, sub_name in (("mlearning/transformers/scaler/min_max_scaler.py", "MinMaxScaler"), ("mlearning/transformers/scaler/standard_scaler.py", "StandardScaler")):
        sub = ctx.index.cls(sub_rel, sub_name)
        overridden = sorted(set(sub.methods) & {"transform", "inverse_transform", "compute_jacobian", "compute_jacobian_inverse"})
        fit = sub.methods.get("_fit")
        stored = {t_.attr for s_ in (stmts_of(fit) if fit is not None else ()) if isinstance(s_, ast.Assign) for t_ in s_.targets if isinstance(t_, ast.Attribute) and dotted(t_.value) == "self"}
        ctx.ob("18.6-scaler", cname(sub_rel, sub_name, "_fit"), not overridden and {"coefficient", "offset"} <= stored, f"{sub_name} inherits the four maps of Scaler and fits them by setting both self.coefficient and self.offset (overridden: {overridden}, set: {sorted(stored)})", node=fit or sub.node, stmt="fit sets coefficient and offset; maps inherited")


def _mentions(e: ast.AST, what: str) -> bool:
    return any(isinstance(n, ast.Attribute) and n.attr.endswith(what) for n in ast.walk(e))


def _is_call_of(e: ast.AST, owner: str, method: str) -> ast.AST | None:
    """the single argument of ``self.<...owner>.<method>(arg)``, else None"""
    if isinstance(e, ast.Call) and isinstance(e.func, ast.Attribute) and e.func.attr == method and dotted(e.func.value) and dotted(e.func.value).split(".")[-1].endswith(owner) and dotted(e.func.value).startswith("self."):
        return _only_argument(e, "data")
    return None


def _components(e: ast.AST) -> str | None:
    """'C' for tile(self.algo.components_, ...), 'CT' for the transposed matrix (inside or outside the tile)"""
    transposed = False
    for _ in range(4):
        if isinstance(e, ast.Attribute) and e.attr == "T":
            transposed = not transposed
            e = e.value
        elif isinstance(e, ast.Call) and last_attr(e) == "tile" and e.args:
            e = e.args[0]
        elif isinstance(e, ast.Call) and last_attr(e) in ("transpose", "swapaxes") :
            return None
        else:
            break
    if isinstance(e, ast.Attribute) and e.attr == "components_" and dotted(e.value) == "self.algo":
        return "CT" if transposed else "C"
    return None


def check_pca(ctx: Ctx) -> None:
    """18.7 PCA = (scikit-learn projection) o (scaler): the Jacobians follow the chain rule of the very compositions
    that transform / inverse_transform compute (outer Jacobian on the left, inner one at the data entering it)."""
    cls = ctx.index.cls(PCA_, "PCA")
    m = cls.methods
    ctx.need(all(k in m for k in ("transform", "inverse_transform", "compute_jacobian", "compute_jacobian_inverse")), "PCA maps not found")

    def param(f):
        return [a.arg for a in f.args.args if a.arg != "self"][0]

    # transform: algo.transform(scaler.transform(data))
    alts = _single_return_alts(m["transform"])
    d = param(m["transform"])
    ok_t = bool(alts)
    for e in alts:
        inner = _is_call_of(e, "algo", "transform")
        arg = _is_call_of(inner, "scaler", "transform") if inner is not None else None
        ok_t = ok_t and arg is not None and norm_stmt(arg) == d
    ctx.ob("18.7-pca", cname(PCA_, "PCA", "transform"), ok_t, "transform projects the SCALED data: algo.transform(scaler.transform(data))", node=m["transform"], stmt="transform = projection o scaler")
    alts = _single_return_alts(m["compute_jacobian"])
    d = param(m["compute_jacobian"])
    ok = bool(alts)
    for e in alts:
        lr = _product(e)
        arg = _is_call_of(lr[1], "scaler", "compute_jacobian") if lr else None
        ok = ok and lr is not None and _components(lr[0]) == "C" and arg is not None and norm_stmt(arg) == d
    ctx.ob("18.7-pca", cname(PCA_, "PCA", "compute_jacobian"), bool(ok and ok_t), "chain rule of transform: components_ (Jacobian of the projection) on the LEFT of the scaler's Jacobian taken at the data", node=m["compute_jacobian"], stmt="compute_jacobian = components_ @ J_scaler(data)")
    # inverse_transform: scaler.inverse_transform(algo.inverse_transform(data))
    alts = _single_return_alts(m["inverse_transform"])
    d = param(m["inverse_transform"])
    ok_i = bool(alts)
    for e in alts:
        inner = _is_call_of(e, "scaler", "inverse_transform")
        arg = _is_call_of(inner, "algo", "inverse_transform") if inner is not None else None
        ok_i = ok_i and arg is not None and norm_stmt(arg) == d
    ctx.ob("18.7-pca", cname(PCA_, "PCA", "inverse_transform"), ok_i, "inverse_transform unscales the lifted data: scaler.inverse_transform(algo.inverse_transform(data))", node=m["inverse_transform"], stmt="inverse_transform = unscaler o lift")
    alts = _single_return_alts(m["compute_jacobian_inverse"])
    d = param(m["compute_jacobian_inverse"])
    ok = bool(alts)
    for e in alts:
        lr = _product(e)
        at = _is_call_of(lr[0], "scaler", "compute_jacobian_inverse") if lr else None
        lifted = _is_call_of(at, "algo", "inverse_transform") if at is not None else None
        ok = ok and lr is not None and _components(lr[1]) == "CT" and lifted is not None and norm_stmt(lifted) == d
    ctx.ob("18.7-pca", cname(PCA_, "PCA", "compute_jacobian_inverse"), bool(ok and ok_i), "chain rule of inverse_transform: the unscaler's Jacobian, taken at the LIFTED data, on the left of components_.T (Jacobian of the lift)", node=m["compute_jacobian_inverse"], stmt="compute_jacobian_inverse = J_unscaler(lift(data)) @ components_.T")


def check_transformed_jacobian(ctx: Ctx) -> None:
    """18.8 the Jacobian of a regressor with transformers is the chain rule of what predict computes:
    predict = T_out^-1 o raw o T_in, so J = J_{T_out^-1}(raw(T_in(x))) @ J_raw(T_in(x)) @ J_{T_in}(x)."""
    outer = ctx.index.method(RDF, "RegressionDataFormatters", "transform_jacobian")
    con = cname(RDF, "RegressionDataFormatters", "transform_jacobian")
    ws = [n for n in ast.walk(outer) if isinstance(n, ast.FunctionDef) and n is not outer]
    ctx.need(len(ws) == 1, "the wrapper of transform_jacobian not found")
    w = ws[0]
    func = outer.args.args[-1].arg
    params = [a.arg for a in w.args.args]
    ctx.need(len(params) >= 2, "wrapper(algo, input_data, ...) expected")
    algo, x = params[0], params[1]
    sv = SymValues(w, max_alts=8, max_len=1200)
    rets = [s for s in stmts_of(w) if isinstance(s, ast.Return) and s.value is not None]
    ctx.need(len(rets) == 1, "one return expected in the wrapper of transform_jacobian")

    def group_of(e):
        for t_ in sv.texts(e):
            for g in ("INPUT_GROUP", "OUTPUT_GROUP"):
                if t_.endswith("." + g):
                    return g
        return None

    def group(e):  # 'INPUT_GROUP' / 'OUTPUT_GROUP' of algo.transformer[<group>]
        if isinstance(e, ast.Subscript) and norm_stmt(e.value) == f"{algo}.transformer":
            return next((g for g in ("INPUT_GROUP", "OUTPUT_GROUP") if ast.unparse(e.slice).endswith("." + g)), None)  # locals are unfolded already
        return None

    def tcall(e, method):
        """(group, argument) of algo.transformer[group].method(argument)"""
        if isinstance(e, ast.Call) and isinstance(e.func, ast.Attribute) and e.func.attr == method:
            g = group(e.func.value)
            a = _only_argument(e, "data")
            if g is not None and a is not None:
                return g, a
        return None

    def is_tx(e, transformed):  # the transformed input T_in(x) when there is an input transformer, else x itself
        if not transformed:
            return norm_stmt(e) == x
        tc = tcall(e, "transform")
        return tc is not None and tc[0] == "INPUT_GROUP" and norm_stmt(tc[1]) == x

    # the tests "is there a transformer for the inputs / the outputs"
    tests = {}
    for n in stmts_of(w):
        if isinstance(n, ast.If) and isinstance(n.test, ast.Compare) and len(n.test.ops) == 1 and isinstance(n.test.ops[0], ast.In) and norm_stmt(n.test.comparators[0]) == f"{algo}.transformer":
            g = group_of(n.test.left)
            if g is not None:
                tests.setdefault(g, set()).add(norm_stmt(n.test))
    ctx.need(set(tests) == {"INPUT_GROUP", "OUTPUT_GROUP"}, "the tests `<group> in algo.transformer` of transform_jacobian not found")
    ok_out = ok_model = ok_in = ok_raw = True
    n_with_out = n_with_in = 0
    for has_in in (True, False):
        for has_out in (True, False):
            facts = {**{t_: has_in for t_ in tests["INPUT_GROUP"]}, **{t_: has_out for t_ in tests["OUTPUT_GROUP"]}}
            alts = unfolded(w, rets[0], facts, get=lambda st: st.value, max_len=1200)
            if not alts:
                ok_model = False
                continue
            for e in alts:
                lr = _product(e)
                rest = e
                oc = tcall(lr[0], "compute_jacobian_inverse") if lr is not None else None
                if has_out:
                    if oc is None:
                        ok_out = False
                        continue
                    g, at = oc
                    n_with_out += 1
                    ok_out = ok_out and g == "OUTPUT_GROUP"
                    # at the raw (transformed-space) outputs of the model at the transformed input
                    raw = at if isinstance(at, ast.Call) and isinstance(at.func, ast.Attribute) and at.func.attr in ("predict_raw", "_predict") and dotted(at.func.value) == algo else None
                    ra = _only_argument(raw, "input_data") if raw is not None else None
                    ok_raw = ok_raw and ra is not None and is_tx(ra, has_in)
                    rest = lr[1]
                elif oc is not None:
                    ok_out = False
                    continue
                lr2 = _product(rest)
                if lr2 is None:
                    ok_model = False
                    continue
                mj, ij = lr2
                # model Jacobian: func(algo, <T_in(x) or x>, ...), on the left of the input transformer's Jacobian
                ok_model = ok_model and isinstance(mj, ast.Call) and dotted(mj.func) == func and len(mj.args) >= 2 and norm_stmt(mj.args[0]) == algo and is_tx(mj.args[1], has_in)
                tc = tcall(ij, "compute_jacobian")
                if has_in:
                    n_with_in += 1
                    ok_in = ok_in and tc is not None and tc[0] == "INPUT_GROUP" and norm_stmt(tc[1]) == x
                else:
                    ok_in = ok_in and isinstance(ij, ast.Call) and last_attr(ij) in ("eye", "identity")
    ctx.ob("18.8-regressor-chain", con, bool(ok_in and n_with_in), "the Jacobian of the input transformer is taken at the ORIGINAL input data (before they are transformed) and is the right-most factor", node=w, stmt="J_in = transformer[inputs].compute_jacobian(input_data)")
    ctx.ob("18.8-regressor-chain", con, bool(ok_model), "the model's own Jacobian is taken at the transformed input data (the data the raw model sees) and multiplies J_in on the left", node=w, stmt="J = func(algo, T_in(input_data)) @ J_in")
    ctx.ob("18.8-regressor-chain", con, bool(ok_out and ok_raw and n_with_out), "the Jacobian of the inverse output transformation is taken at the RAW outputs of the model at the transformed inputs and is the left-most factor", node=w, stmt="J = transformer[outputs].compute_jacobian_inverse(raw outputs) @ J")


def check_klsvd_global_flags(ctx: Ctx) -> None:
    """18.9 KLSVD configures OpenTURNS through its process-wide ResourceMap: the switches it owns (stochastic SVD or not,
    its variant) are written at EVERY fit with the value of THIS transformer; written only when true, a stochastic
    low-rank fit made earlier in the process turns every later default KLSVD into a lossy reduction."""
    from gv.props.shared import literal_facts

    KL = "mlearning/transformers/dimension_reduction/klsvd.py"
    f = ctx.index.method(KL, "KLSVD", "__update_resource_map")
    con = cname(KL, "KLSVD", "__update_resource_map")
    cfg = cfg_of(f)
    sets = [c for c in walk_body(f) if isinstance(c, ast.Call) and dotted(c.func) in ("ResourceMap.SetAsBool", "ResourceMap.SetAsString")]
    ctx.need(len(sets) >= 2, "KLSVD.__update_resource_map: ResourceMap.SetAsBool / SetAsString not found")
    for c in sets:
        conds = literal_facts(cfg, cfg.node_of(c))
        const = len(c.args) == 2 and isinstance(c.args[1], ast.Constant)
        ctx.ob("18.9-klsvd-flags", con, not conds and not const, f"`{norm_stmt(c, 70)}` must run at every fit with this transformer's own setting" + (f" (here only under `{' and '.join(conds)}`)" if conds else "") + ": the ResourceMap is global, so a value left by another KLSVD decides whether this one is a full-rank (lossless) reduction", node=c, stmt=f"{norm_stmt(c.args[0]) if c.args else '?'} is set unconditionally")
    fit = ctx.index.method(KL, "KLSVD", "_fit")
    calls = [c for c in walk_body(fit) if isinstance(c, ast.Call) and isinstance(c.func, ast.Attribute) and c.func.attr.endswith("__update_resource_map")]
    algo = [c for c in walk_body(fit) if isinstance(c, ast.Call) and dotted(c.func) == "KarhunenLoeveSVDAlgorithm"]
    fcfg = cfg_of(fit)
    ok = len(calls) == 1 and len(algo) == 1 and fcfg.dominates(fcfg.node_of(calls[0]), fcfg.node_of(algo[0])) and not literal_facts(fcfg, fcfg.node_of(calls[0]))
    ctx.ob("18.9-klsvd-flags", cname(KL, "KLSVD", "_fit"), bool(ok), "the resource map is updated before the decomposition is built, at every fit", node=(calls or [fit])[0], stmt="__update_resource_map() dominates the algorithm")


def run(ctx: Ctx) -> None:
    check_kernels(ctx)
    check_openturns_gradients(ctx)
    check_surrogate(ctx)
    check_pipeline(ctx)
    check_moe(ctx)
    check_scaler(ctx)
    check_pca(ctx)
    check_transformed_jacobian(ctx)
    check_klsvd_global_flags(ctx)


_SC = "/scipy"
WITNESSES = [
    {"name": "seeded-C18-12", "file": "mlearning/transformers/dimension_reduction/klsvd.py", "old": "        \"\"\"Update OpenTURNS constants by using its ResourceMap.\"\"\"\n        use_random_svd = self.parameters[\"use_random_svd\"]\n        ResourceMap.SetAsBool(self.__USE_RANDOM_SVD, use_random_svd)\n        n_singular_values = self.parameters[\"n_singular_values\"]\n", "new": "        \"\"\"Update OpenTURNS constants by using its ResourceMap.\"\"\"\n        if self.parameters[\"use_random_svd\"]:\n            ResourceMap.SetAsBool(self.__USE_RANDOM_SVD, True)\n        n_singular_values = self.parameters[\"n_singular_values\"]\n", "expect": "18.9", "note": "KLSVD: the OpenTURNS 'UseRandomSVD' flag is only written when use_random_svd=Tru"},
    {"name": "multiquadric-derivative-loses-epsilon", "file": RBF, "old": "            return input_data / eps**2 / sqrt((norm_input_data / eps) ** 2 + 1)", "new": "            return input_data / sqrt(norm_input_data**2 + eps**2)", "expect": "18.1"},
    {"name": "gaussian-derivative-sign", "file": RBF, "old": "            return -2 * input_data / eps**2 * exp(-((norm_input_data / eps) ** 2))", "new": "            return 2 * input_data / eps**2 * exp(-((norm_input_data / eps) ** 2))", "expect": "18.1"},
    {"name": "inverse-multiquadric-exponent", "file": RBF, "old": "((norm_input_data / eps) ** 2 + 1) ** 1.5", "new": "((norm_input_data / eps) ** 2 + 1) ** 0.5", "expect": "18.1"},
    {"name": "quintic-derivative-power", "file": RBF, "old": "            return 5 * norm_input_data**3 * input_data", "new": "            return 5 * norm_input_data**4 * input_data", "expect": "18.1"},
    {"name": "pipeline-jacobian-right-multiplied", "file": PIP, "old": "            jacobian = transformer.compute_jacobian(data) @ jacobian", "new": "            jacobian = jacobian @ transformer.compute_jacobian(data)", "expect": "18.3"},
    {"name": "pipeline-jacobian-at-transformed-data", "file": PIP, "old": "            jacobian = transformer.compute_jacobian(data) @ jacobian\n            data = transformer.transform(data)", "new": "            data = transformer.transform(data)\n            jacobian = transformer.compute_jacobian(data) @ jacobian", "expect": "18.3"},
    {"name": "pipeline-inverse-jacobian-forward-order", "file": PIP, "old": "        for transformer in self.transformers[::-1]:\n            jacobian = transformer.compute_jacobian_inverse(data) @ jacobian", "new": "        for transformer in self.transformers:\n            jacobian = transformer.compute_jacobian_inverse(data) @ jacobian", "expect": "18.3"},
    {"name": "moe-jacobian-by-loop-position", "file": MOE, "old": "        for klass in unique(classes):\n            inds_kls = (classes == klass).nonzero()[0]\n            jacobians[inds_kls] = self.regress_models[klass].predict_jacobian(", "new": "        for index, klass in enumerate(unique(classes)):\n            inds_kls = (classes == klass).nonzero()[0]\n            jacobians[inds_kls] = self.regress_models[index].predict_jacobian(", "expect": "18.4"},
    {"name": "moe-jacobian-of-first-model", "file": MOE, "old": "            jacobians[inds_kls] = self.regress_models[klass].predict_jacobian(", "new": "            jacobians[inds_kls] = self.regress_models[0].predict_jacobian(", "expect": "18.4"},
    {"name": "cubic-divided-by-eps", "file": RBF, "old": "            return 3 * norm_input_data * input_data\n", "new": "            return 3 * norm_input_data * input_data / eps**3\n", "expect": "18.1"},
    {"name": "thin-plate-scaled-by-eps", "file": RBF, "old": "                * (1 + 2 * log(norm_input_data + cls.TOL))", "new": "                / eps**2\n                * (1 + 2 * log(norm_input_data / eps + cls.TOL))", "expect": "18.1"},
    {"name": "gaussian-ignores-eps", "file": RBF, "old": "            return -2 * input_data / eps**2 * exp(-((norm_input_data / eps) ** 2))", "new": "            return -2 * input_data * exp(-(norm_input_data**2))", "expect": "18.1"},
    {"name": "derivative-removed", "file": RBF, "old": "        def der_quintic(", "new": "        def der_quintic_disabled(", "expect": "18.1"},
    {"name": "new-kernel-without-derivative", "file": RBS, "old": "    THIN_PLATE = \"thin_plate\"\n", "new": "    THIN_PLATE = \"thin_plate\"\n    MATERN = \"matern\"\n", "expect": "18.1"},
    {"name": "jacobian-uses-unit-epsilon", "file": RBF, "old": "der_func(diffs, dists, eps=self.algo.epsilon)", "new": "der_func(diffs, dists, eps=1.0)", "expect": "18.1"},
    {"name": "differences-reversed", "file": RBF, "old": "        diffs = input_data - ref_points", "new": "        diffs = ref_points - input_data", "expect": "18.1"},
    {"name": "derivative-of-fixed-kernel", "file": RBF, "old": "            self.RBFDerivatives, f\"der_{self.function}\"", "new": "            self.RBFDerivatives, \"der_multiquadric\"", "expect": "18.1"},
    {"name": "surrogate-predicts-defaults", "file": SUR, "old": "self.regression_model.predict(input_data).items()", "new": "self.regression_model.predict(self.io.input_grammar.defaults).items()", "expect": "18.2"},
    {"name": "surrogate-jacobian-at-defaults", "file": SUR, "old": "self.regression_model.predict_jacobian(self.io.get_input_data())", "new": "self.regression_model.predict_jacobian(self.io.input_grammar.defaults)", "expect": "18.2"},
    {"name": "surrogate-output-under-other-name", "file": SUR, "old": "            output_data[name] = value.flatten()", "new": "            output_data[name.lower()] = value.flatten()", "expect": "18.2"},
    {"name": "scaler-inverse-adds-offset", "file": SCL, "old": "        return (data - self.offset) @ diag(1 / self.coefficient)", "new": "        return (data + self.offset) @ diag(1 / self.coefficient)", "expect": "18.6"},
    {"name": "scaler-inverse-offset-after-scaling", "file": SCL, "old": "        return (data - self.offset) @ diag(1 / self.coefficient)", "new": "        return data @ diag(1 / self.coefficient) - self.offset", "expect": "18.6"},
    {"name": "scaler-jacobian-inverse-not-inverted", "file": SCL, "old": "        return tile(diag(1 / self.coefficient), (len(data), 1, 1))", "new": "        return tile(diag(self.coefficient), (len(data), 1, 1))", "expect": "18.6"},
    {"name": "scaler-jacobian-inverted", "file": SCL, "old": "        return tile(diag(self.coefficient), (len(data), 1, 1))", "new": "        return tile(diag(1 / self.coefficient), (len(data), 1, 1))", "expect": "18.6"},
    {"name": "pca-jacobian-scaler-on-the-left", "file": PCA_, "old": "        return tile(\n            self.algo.components_, (len(data), 1, 1)\n        ) @ self.__scaler.compute_jacobian(data)", "new": "        return self.__scaler.compute_jacobian(data) @ tile(\n            self.algo.components_, (len(data), 1, 1)\n        )", "expect": "18.7"},
    {"name": "pca-inverse-jacobian-at-reduced-data", "file": PCA_, "old": "        return self.__scaler.compute_jacobian_inverse(data_) @ tile(", "new": "        return self.__scaler.compute_jacobian_inverse(data) @ tile(", "expect": "18.7"},
    {"name": "pca-inverse-jacobian-not-transposed", "file": PCA_, "old": "            self.algo.components_.T, (len(data), 1, 1)", "new": "            self.algo.components_, (len(data), 1, 1)", "expect": "18.7"},
    {"name": "pca-transform-skips-scaler", "file": PCA_, "old": "        return self.algo.transform(self.__scaler.transform(data))", "new": "        return self.algo.transform(data)", "expect": "18.7"},
    {"name": "regressor-input-jacobian-at-transformed-data", "file": RDF, "old": "                jac = algo.transformer[inputs].compute_jacobian(input_data)\n                input_data = algo.transformer[inputs].transform(input_data)", "new": "                input_data = algo.transformer[inputs].transform(input_data)\n                jac = algo.transformer[inputs].compute_jacobian(input_data)", "expect": "18.8"},
    {"name": "regressor-jacobian-right-multiplied", "file": RDF, "old": "            jac = func(algo, input_data, *args, **kwargs) @ jac", "new": "            jac = jac @ func(algo, input_data, *args, **kwargs)", "expect": "18.8"},
    {"name": "regressor-output-jacobian-forward", "file": RDF, "old": "                    algo.transformer[outputs].compute_jacobian_inverse(output_data)", "new": "                    algo.transformer[outputs].compute_jacobian(output_data)", "expect": "18.8"},
    {"name": "regressor-output-jacobian-of-input-transformer", "file": RDF, "old": "                    algo.transformer[outputs].compute_jacobian_inverse(output_data)", "new": "                    algo.transformer[inputs].compute_jacobian_inverse(output_data)", "expect": "18.8"},
    {"name": "regressor-output-jacobian-at-final-outputs", "file": RDF, "old": "            output_data = algo.predict_raw(input_data)", "new": "            output_data = algo.predict(input_data)", "expect": "18.8"},
]
TWINS = [
    {"name": "multiquadric-derivative-rewritten", "file": RBF, "old": "            return input_data / eps**2 / sqrt((norm_input_data / eps) ** 2 + 1)", "new": "            return input_data / (eps * sqrt(norm_input_data**2 + eps**2))"},
    {"name": "cubic-derivative-commuted", "file": RBF, "old": "            return 3 * norm_input_data * input_data", "new": "            return input_data * norm_input_data * 3"},
    {"name": "pipeline-reversed-builtin", "file": PIP, "old": "        for transformer in self.transformers[::-1]:\n            jacobian = transformer.compute_jacobian_inverse(data) @ jacobian", "new": "        for transformer in reversed(self.transformers):\n            jacobian = transformer.compute_jacobian_inverse(data) @ jacobian"},
    {"name": "flatten-to-ravel", "file": SUR, "old": "            output_data[name] = value.flatten()", "new": "            output_data[name] = value.ravel()"},
    {"name": "scaler-componentwise-product", "file": SCL, "old": "        return data @ diag(self.coefficient) + self.offset", "new": "        return data * self.coefficient + self.offset"},
    {"name": "scaler-inverse-division", "file": SCL, "old": "        return (data - self.offset) @ diag(1 / self.coefficient)", "new": "        return (data - self.offset) / self.coefficient"},
    {"name": "pca-lift-inlined", "file": PCA_, "old": "        data_ = self.algo.inverse_transform(data)\n        return self.__scaler.compute_jacobian_inverse(data_) @ tile(", "new": "        return self.__scaler.compute_jacobian_inverse(\n            self.algo.inverse_transform(data)\n        ) @ tile("},
    {"name": "regressor-model-jacobian-local", "file": RDF, "old": "            jac = func(algo, input_data, *args, **kwargs) @ jac", "new": "            model_jac = func(algo, input_data, *args, **kwargs)\n            jac = model_jac @ jac"},
]
