"""C04 -- the reported optimum is the best point of the recorded history (selection structure)."""

from __future__ import annotations

import ast

from gv import rules
from gv.astutil import compare_parts
from gv.astutil import const_value
from gv.astutil import dotted
from gv.astutil import last_attr
from gv.astutil import mangle
from gv.astutil import names_in
from gv.astutil import norm_stmt
from gv.astutil import stmts_of
from gv.astutil import unparse
from gv.astutil import walk_body
from gv.cfg import cfg_of
from gv.props.shared import unfolded
from gv.props import describe
from gv.props.shared import branch_conditions
from gv.props.shared import conj_literals
from gv.report import Ctx
from gv.report import cname

OH = "algos/optimization_history.py"
OR = "algos/optimization_result.py"
CO = "core/mdo_functions/collections/constraints.py"
PU = "algos/pareto/utils.py"

describe(
    "C04",
    explanation=(
        "Selection structure of the reported optimum, decided on the syntax tree: every reported field is taken "
        "from the one selected record (same loop item / same index); the selection is a running strict minimum "
        "from +inf over the feasible points and an argmin of the violation over all points otherwise; the "
        "feasibility flag matches the branch; tolerances are routed by constraint type with the right comparison "
        "polarity in the three sibling routines; the objective sign is restored exactly for maximisation with "
        "original-objective reporting; the Pareto filter has the right dominance polarity and excludes infeasible points."
    ),
    decided=["4.1 single record", "4.2 running minimum", "4.3 feasibility flag", "4.4 tolerance routing", "4.5 sign restoration and index", "4.6 Pareto polarity"],
    not_decided=["arithmetic of the violation measure", "NaN ordering and ties", "vector objectives through norm"],
)


def _assigned_names(stmt: ast.AST) -> set[str]:
    out = set()
    if isinstance(stmt, ast.Assign):
        for t in stmt.targets:
            for n in ast.walk(t):
                if isinstance(n, ast.Name) and isinstance(n.ctx, ast.Store):
                    out.add(n.id)
                elif isinstance(n, ast.Subscript) and isinstance(n.value, ast.Name):
                    out.add(n.value.id)
    return out


def check_optimum(ctx: Ctx) -> None:
    f = ctx.index.method(OH, "OptimizationHistory", "optimum")
    con = cname(OH, "OptimizationHistory", "optimum")
    cfg = cfg_of(f)
    # feasible points unpack
    fp = [s for s in stmts_of(f) if isinstance(s, ast.Assign) and dotted(s.value) == "self.feasible_points" and isinstance(s.targets[0], ast.Tuple) and len(s.targets[0].elts) == 2]
    ctx.need(len(fp) == 1, "optimum: `feas_x, feas_f = self.feasible_points` not found")
    feas_x, feas_f = (e.id for e in fp[0].targets[0].elts)
    # the loop over the feasible records: `for i, rec in enumerate(feas_f)` (design = feas_x[i]) or
    # `for x, rec in zip(feas_x, feas_f)` (design = x)
    loops = [s for s in stmts_of(f) if isinstance(s, ast.For) and isinstance(s.iter, ast.Call) and isinstance(s.target, ast.Tuple) and len(s.target.elts) == 2 and ((dotted(s.iter.func) == "enumerate" and [dotted(a_) for a_ in s.iter.args] == [feas_f]) or (dotted(s.iter.func) == "zip" and [dotted(a_) for a_ in s.iter.args] == [feas_x, feas_f]))]
    ctx.need(len(loops) == 1 and all(isinstance(e, ast.Name) for e in loops[0].target.elts), "optimum: loop over enumerate(feasible outputs) not found")
    lp = loops[0]
    i_var, rec_var = (e.id for e in lp.target.elts)
    zipped = dotted(lp.iter.func) == "zip"

    def own_point(e: ast.AST) -> bool:
        if zipped:
            return dotted(e) == i_var
        return isinstance(e, ast.Subscript) and dotted(e.value) == feas_x and dotted(e.slice) == i_var
    # the final return
    rets = [s for s in stmts_of(f) if isinstance(s, ast.Return) and isinstance(s.value, ast.Call) and last_attr(s.value) == "Solution"]
    ctx.need(len(rets) == 2, "optimum: the two Solution(...) returns were not found")
    ctx.need(all(len(r.value.args) == 5 for r in rets), "optimum: Solution(...) is not built from five positional fields")
    # the return on the no-feasible-point path vs. the one after the loop (identified by position, then the flags are checked)
    from gv.props.shared import literal_facts as _lf

    ret_false = [r for r in rets if _lf(cfg, cfg.node_of(r)).get(feas_x) is False or _lf(cfg, cfg.node_of(r)).get(f"len({feas_x})") is False or _lf(cfg, cfg.node_of(r)).get(f"len({feas_x}) == 0") is True]
    ret_true = [r for r in rets if r not in ret_false]
    ctx.need(len(ret_true) == 1 and len(ret_false) == 1, "optimum: the no-feasible-point return and the final return were not identified")
    ctx.ob("4.3-flag", con, const_value(ret_false[0].value.args[2], 1) is False, "the least-infeasible solution must be flagged infeasible", node=ret_false[0], stmt="flag False on the no-feasible-point path")
    ctx.ob("4.3-flag", con, const_value(ret_true[0].value.args[2], 0) is True, "the best feasible solution must be flagged feasible", node=ret_true[0], stmt="flag True after the selection loop")
    fields = [dotted(a) for a in ret_true[0].value.args]
    f_opt, x_opt, _, c_opt, c_grad = fields
    ctx.need(all([f_opt, x_opt, c_opt, c_grad]), "optimum: the fields of the feasible Solution are not plain names")
    reported = {f_opt, x_opt, c_opt, c_grad}
    # selection test
    sel = []
    for n in cfg.nodes(lambda n: cfg.kind[n] == "test"):
        t = cfg.ast[n]
        if not any(sub is t for sub in ast.walk(lp)):
            continue
        cp = compare_parts(t.test)
        if cp and f_opt in names_in(t.test):
            sel.append((n, cp))
    ctx.need(len(sel) == 1, "optimum: the selection test against the incumbent was not found")
    sel_n, (l, op, r) = sel[0]
    cand = dotted(l) if dotted(r) == f_opt else dotted(r)
    # ties are not decided by the property (no feasible point may be STRICTLY better): < and <= are both right
    ok = (dotted(r) == f_opt and op in (ast.Lt, ast.LtE)) or (dotted(l) == f_opt and op in (ast.Gt, ast.GtE))
    ctx.ob("4.2-min", con, ok, "the selection must keep the candidate when it is smaller than the incumbent (`candidate < incumbent` or `<=`): with > the worst feasible point is reported", node=cfg.ast[sel_n])
    # candidate derived from the record's objective
    cand_defs = [s for s in ast.walk(lp) if isinstance(s, ast.Assign) and any(isinstance(t, ast.Name) and t.id == cand for t in s.targets)]
    ok = bool(cand_defs) and isinstance(cand_defs[0].value, ast.Call) and last_attr(cand_defs[0].value) == "get" and dotted(cand_defs[0].value.func.value) == rec_var
    ctx.ob("4.1-record", con, ok, "the candidate objective must be read from the loop's own record", node=(cand_defs or [lp])[0])
    if ok:
        key = cand_defs[0].value.args[0]
        kd = dotted(key)
        key_ok = kd == "self.objective_name" or any(isinstance(s, ast.Assign) and dotted(s.targets[0]) == kd and dotted(s.value) == "self.objective_name" for s in stmts_of(f))
        ctx.ob("4.1-record", con, key_ok, "the candidate must be the value recorded under the objective name", node=cand_defs[0], stmt="objective looked up by objective_name")
    # incumbent initialised to inf before the loop
    inits = [s for s in stmts_of(f) if isinstance(s, ast.Assign) and f_opt in _assigned_names(s) and not any(sub is s for sub in ast.walk(lp)) and cfg.reachable(cfg.node_of(s), cfg.node_of(lp))]
    ok = len(inits) == 1
    if ok:
        v = inits[0].value
        t = inits[0].targets[0]
        if isinstance(t, ast.Tuple) and isinstance(v, ast.Tuple):
            idx = [dotted(e) for e in t.elts].index(f_opt)
            v = v.elts[idx]
        ok = dotted(v) in ("inf", "np.inf", "numpy.inf", "math.inf")
    ctx.ob("4.2-init-inf", con, ok, "the incumbent objective must start at +inf: any finite start hides feasible points whose objective is larger", node=(inits or [lp])[0])
    # writes of reported fields inside the loop only under the selection branch
    for s in ast.walk(lp):
        if isinstance(s, ast.Assign) and _assigned_names(s) & reported:
            ok = cfg.under_branch(cfg.node_of(s), sel_n, True)
            ctx.ob("4.1-same-record", con, ok, f"`{norm_stmt(s, 60)}` updates a reported field outside the selection branch: the reported fields would belong to different points of the history", node=s)
            # value provenance
            names = names_in(s.value)
            tgt = _assigned_names(s) & reported
            if x_opt in tgt:
                okv = own_point(s.value)
                ctx.ob("4.1-same-record", con, okv, "the reported design must be the feasible point of the loop's own index", node=s, stmt=f"{x_opt} = the feasible point of the selected record")
            elif f_opt in tgt:
                ctx.ob("4.1-same-record", con, dotted(s.value) == cand, "the reported objective must be the candidate just compared", node=s, stmt=f"{f_opt} = candidate")
            else:
                okv = rec_var in names and not ({feas_f} & names)
                ctx.ob("4.1-same-record", con, okv, "constraint values/gradients must be read from the loop's own record", node=s, stmt=f"{sorted(tgt)[0]}[...] from the selected record")
    # writes after the loop only post-process f_opt (scalar unwrapping)
    # 4.3 flag / branches
    fn = cfg.node_of(ret_false[0])
    conds = branch_conditions(cfg, fn)
    f_false = _lf(cfg, fn)
    ok = len(conds) == 1 and (f_false.get(feas_x) is False or f_false.get(f"len({feas_x})") is False or f_false.get(f"len({feas_x}) == 0") is True)
    ctx.ob("4.3-flag", con, ok, "the infeasible Solution may only be returned when there is no feasible point", node=ret_false[0])
    tn = cfg.node_of(ret_true[0])
    ok = bool(conds) and not cfg.under_branch(tn, conds[0][0], conds[0][1]) and cfg.reachable(cfg.node_of(lp), tn)
    ctx.ob("4.3-flag", con, ok, "the feasible Solution must be returned after the loop over the feasible points, not on the no-feasible-point path", node=ret_true[0])
    bi = [s for s in stmts_of(f) if isinstance(s, ast.Assign) and isinstance(s.value, ast.Call) and last_attr(s.value) in ("__get_best_infeasible_point", "_OptimizationHistory__get_best_infeasible_point")]
    ok = len(bi) == 1 and cfg.dominates(cfg.node_of(bi[0]), fn)
    ctx.ob("4.3-flag", con, ok, "the infeasible Solution must come from __get_best_infeasible_point", node=(bi or ret_false)[0])
    if ok:
        t = bi[0].targets[0]
        ok2 = isinstance(t, ast.Tuple) and len(t.elts) == 4
        a = ret_false[0].value.args
        if ok2:
            x_, f_, _, h_ = (dotted(e) for e in t.elts)
            ok2 = dotted(a[0]) == f_ and dotted(a[1]) == x_
            # constraint dicts built from the same outputs
            for k in (3, 4):
                d = dotted(a[k])
                defs = [s for s in stmts_of(f) if isinstance(s, ast.Assign) and dotted(s.targets[0]) == d and cfg.dominates(cfg.node_of(s), fn) and cfg.under_branch(cfg.node_of(s), conds[0][0], conds[0][1])] if conds else []
                ok2 = ok2 and len(defs) == 1 and h_ in names_in(defs[0].value)
        ctx.ob("4.1-infeasible-record", con, ok2, "in the infeasible case objective, design and constraint values must all come from the one best-infeasible record", node=ret_false[0])


def check_best_infeasible(ctx: Ctx) -> None:
    name = "__get_best_infeasible_point"
    f = ctx.index.method(OH, "OptimizationHistory", name)
    con = cname(OH, "OptimizationHistory", name)
    cfg = cfg_of(f)
    loops = [s for s in stmts_of(f) if isinstance(s, ast.For)]
    ctx.need(len(loops) == 1, "__get_best_infeasible_point: the loop over the database was not found")
    lp = loops[0]
    ok = isinstance(lp.iter, ast.Call) and last_attr(lp.iter) == "items" and (dotted(lp.iter.func.value) or "").endswith("__database")
    ctx.ob("4.2-argmin", con, ok, "the violation list must be built over all database items, in database order", node=lp)
    appends = [c for c in ast.walk(lp) if isinstance(c, ast.Call) and isinstance(c.func, ast.Attribute) and c.func.attr == "append" and isinstance(c.func.value, ast.Name)]
    lists = {c.func.value.id for c in appends}
    lh = cfg.node_of(lp)
    for c in appends:
        n = cfg.node_of(c)
        conds = [tv for tv in branch_conditions(cfg, n) if tv[0] != lh]
        ctx.ob("4.1-parallel-lists", con, not conds, "the per-point lists must all be appended once per database item, unconditionally: otherwise the index of the best violation addresses another point", node=c)
    per_list = {l: sum(1 for c in appends if c.func.value.id == l) for l in lists}
    ctx.ob("4.1-parallel-lists", con, all(v == 1 for v in per_list.values()), "a per-point list is appended more than once per item", node=lp, stmt="one append per list per item")
    am = [s for s in stmts_of(f) if isinstance(s, ast.Assign) and any(isinstance(c, ast.Call) and last_attr(c) in ("argmin", "nanargmin", "argmax", "nanargmax") for c in ast.walk(s.value))]
    ctx.need(len(am) == 1, "__get_best_infeasible_point: argmin not found")
    best = dotted(am[0].targets[0])
    viol_lists = names_in(am[0].value) & lists
    calls = [last_attr(c) for c in ast.walk(am[0].value) if isinstance(c, ast.Call)]
    ctx.ob("4.2-argmin", con, len(viol_lists) == 1 and "argmax" not in calls and "argmin" in calls, "the best infeasible point is the argmin of the violation measures", node=am[0])
    # the violation list holds the measure returned with the point's feasibility
    vl = next(iter(viol_lists), None)
    chk = [s for s in ast.walk(lp) if isinstance(s, ast.Assign) and isinstance(s.value, ast.Call) and last_attr(s.value) == "check_design_point_is_feasible"]
    ok = len(chk) == 1 and isinstance(chk[0].targets[0], ast.Tuple) and len(chk[0].targets[0].elts) == 2
    if ok:
        feas_v, viol_v = (dotted(e) for e in chk[0].targets[0].elts)
        ok = any(c.func.value.id == vl and dotted(c.args[0]) == viol_v for c in appends)
        ok = ok and dotted(chk[0].value.args[0]) in {n.id for n in ast.walk(lp.target) if isinstance(n, ast.Name)}
    ctx.ob("4.2-argmin", con, ok, "the minimised list must hold the violation measure of each database point", node=(chk or [lp])[0])
    rets = [s for s in stmts_of(f) if isinstance(s, ast.Return)]
    ctx.need(len(rets) == 1 and isinstance(rets[0].value, ast.Tuple), "__get_best_infeasible_point: tuple return not found")
    idxs = [dotted(n.slice) for n in ast.walk(f) if isinstance(n, ast.Subscript) and isinstance(n.value, ast.Name) and n.value.id in lists and isinstance(n.ctx, ast.Load)]
    ctx.ob("4.1-infeasible-record", con, bool(idxs) and all(i == best for i in idxs), "every per-point list must be indexed by the one best index", node=rets[0], slots={"indices": idxs})


def check_feasible_points(ctx: Ctx) -> None:
    f = ctx.index.method(OH, "OptimizationHistory", "feasible_points")
    con = cname(OH, "OptimizationHistory", "feasible_points")
    cfg = cfg_of(f)
    loops = [s for s in stmts_of(f) if isinstance(s, ast.For)]
    ctx.need(len(loops) == 1 and isinstance(loops[0].target, ast.Tuple), "feasible_points: loop not found")
    lp = loops[0]
    kx, kv = (e.id for e in lp.target.elts)
    tests = [n for n in cfg.nodes(lambda n: cfg.kind[n] == "test") if any(sub is cfg.ast[n] for sub in ast.walk(lp))]
    ok = len(tests) == 1
    if ok:
        t = cfg.ast[tests[0]].test
        ok = isinstance(t, ast.Call) and last_attr(t) == "is_point_feasible" and dotted(t.args[0]) == kv
    ctx.ob("4.3-filter", con, ok, "feasible points are exactly the database items accepted by Constraints.is_point_feasible(outputs)", node=lp)
    appends = [c for c in ast.walk(lp) if isinstance(c, ast.Call) and isinstance(c.func, ast.Attribute) and c.func.attr == "append"]
    ok = len(appends) == 2 and all(cfg.under_branch(cfg.node_of(c), tests[0], True) for c in appends) if tests else False
    if ok:
        args = sorted(names_in(c.args[0]) & {kx, kv} == {kx} and "x" or "v" for c in appends)
        ok = args == ["v", "x"]
    ctx.ob("4.3-filter", con, ok, "the point and its outputs must be appended together, under the feasibility test, so that positions match", node=lp, stmt="paired appends under the test")
    rets = [s for s in stmts_of(f) if isinstance(s, ast.Return)]
    ok = len(rets) == 1 and isinstance(rets[0].value, ast.Tuple) and len(rets[0].value.elts) == 2
    if ok:
        lists = [c.func.value.id for c in appends]
        xs = [c.func.value.id for c in appends if kx in names_in(c.args[0])]
        ok = bool(xs) and dotted(rets[0].value.elts[0]) == xs[0]
    ctx.ob("4.3-filter", con, ok, "feasible_points must return (points, outputs) in this order", node=(rets or [f])[0])


def check_tolerances(ctx: Ctx) -> None:
    cls = ctx.index.cls(CO, "Constraints")

    def tol_kind(e: ast.AST) -> str | None:
        d = dotted(e) or ""
        if d.endswith("tolerances.equality"):
            return "eq"
        if d.endswith("tolerances.inequality"):
            return "ineq"
        return None

    def eq_branch(cfg, n) -> str | None:
        """'eq' / 'ineq' / None according to the ConstraintType guard dominating node n."""
        res = None
        for t, v in branch_conditions(cfg, n):
            if cfg.kind[t] != "test":
                continue
            cp = compare_parts(cfg.ast[t].test)
            if not cp or cp[1] not in (ast.Eq, ast.NotEq):
                continue
            side = dotted(cp[2]) or ""
            other = dotted(cp[0]) or ""
            lab = "eq" if side.endswith(".EQ") or other.endswith(".EQ") else ("ineq" if side.endswith(".INEQ") or other.endswith(".INEQ") else None)
            if lab is None:
                continue
            pos = v if cp[1] is ast.Eq else not v
            res = lab if pos else ("ineq" if lab == "eq" else "eq")
        return res

    # is_constraint_satisfied
    f = ctx.index.method(CO, "Constraints", "is_constraint_satisfied")
    con = cname(CO, "Constraints", "is_constraint_satisfied")
    cfg = cfg_of(f)
    rets = [s for s in stmts_of(f) if isinstance(s, ast.Return)]
    ctx.need(rets, "is_constraint_satisfied: no return")
    # the constraint-type tests of the method; the method is specialised on each of their outcomes and the value
    # returned on that side is unfolded (locals replaced by their definitions), so that `return all(abs(v) <= tol.eq)`
    # under a guard and `v = abs(v); tol = tol.eq ... return all(v <= tol)` are the same thing
    type_tests = {}
    for t in cfg.nodes(lambda n_: cfg.kind[n_] == "test"):
        cp = compare_parts(cfg.ast[t].test)
        if cp and cp[1] in (ast.Eq, ast.NotEq):
            sides = [dotted(cp[0]) or "", dotted(cp[2]) or ""]
            lab = "eq" if any(x.endswith(".EQ") for x in sides) else ("ineq" if any(x.endswith(".INEQ") for x in sides) else None)
            if lab:
                type_tests[norm_stmt(cfg.ast[t].test)] = (lab, cp[1] is ast.Eq)
    ctx.need(len(type_tests) == 1, "is_constraint_satisfied: exactly one constraint-type test expected")
    (ttxt, (lab, positive)), = type_tests.items()
    seen = set()
    for fact in (True, False):
        kind = lab if fact == positive else ("ineq" if lab == "eq" else "eq")
        seen.add(kind)
        alts = []
        for r in rets:
            a = unfolded(f, r, {ttxt: fact}, get=lambda st: st.value)
            if a:
                alts.extend((r, x) for x in a)
        ok = bool(alts)
        for r, val in alts:
            cmps = [n for n in ast.walk(val) if isinstance(n, ast.Compare)]
            good = len(cmps) == 1
            if good:
                l, op, rr = compare_parts(cmps[0])
                if tol_kind(l):
                    l, op, rr = rr, {ast.GtE: ast.LtE, ast.Gt: ast.Lt, ast.LtE: ast.GtE, ast.Lt: ast.Gt}.get(op, op), l
                good = tol_kind(rr) == kind and op is ast.LtE
                has_abs = any(isinstance(c, ast.Call) and last_attr(c) in ("np_abs", "abs", "absolute", "fabs") for c in ast.walk(l))
                good = good and (has_abs if kind == "eq" else not has_abs)
                good = good and any(isinstance(c, ast.Call) and last_attr(c) in ("np_all", "all") for c in ast.walk(val))
            ok = ok and good
        ctx.ob("4.4-routing", con, ok, f"the {kind} branch must be all(|value| <= tolerances.equality) resp. all(value <= tolerances.inequality)", node=(alts or [(f, None)])[0][0], stmt=f"{kind} constraints: satisfied iff within the {kind} tolerance", slots={"branch": kind})
    ctx.ob("4.4-routing", con, seen == {"eq", "ineq"}, "both constraint types must be handled", node=f, stmt="both types handled")
    # siblings with explicit tolerance variables
    for rel, clsn, meth in ((OH, "OptimizationHistory", "check_design_point_is_feasible"), (CO, "Constraints", "get_number_of_unsatisfied_constraints")):
        g = ctx.index.method(rel, clsn, meth)
        con2 = cname(rel, clsn, meth)
        cfg2 = cfg_of(g)
        asg = [s for s in stmts_of(g) if isinstance(s, ast.Assign) and tol_kind(s.value)]
        ctx.need(len(asg) == 2, f"{meth}: the two tolerance selections were not found")
        for s in asg:
            n = cfg2.node_of(s)
            kind = eq_branch(cfg2, n)
            ctx.ob("4.4-routing", con2, kind == tol_kind(s.value), f"the {tol_kind(s.value)} tolerance is selected on the {kind} branch", node=s)
        absn = [s for s in stmts_of(g) if isinstance(s, ast.Assign) and isinstance(s.value, ast.Call) and last_attr(s.value) in ("abs", "absolute", "np_abs") and dotted(s.targets[0]) == dotted(s.value.args[0])]
        ok = len(absn) == 1 and eq_branch(cfg2, cfg2.node_of(absn[0])) == "eq"
        ctx.ob("4.4-routing", con2, ok, "the absolute value must be applied to equality constraints only (and to them)", node=(absn or [g])[0], stmt="abs only for equality")
        tolv = dotted(asg[0].targets[0])
        cmps = [c for c in walk_body(g) if isinstance(c, ast.Compare) and tolv in names_in(c)]
        ok = bool(cmps)
        for c in cmps:
            l, op, rr = compare_parts(c)
            ok = ok and ((dotted(rr) == tolv and op is ast.Gt) or (dotted(l) == tolv and op is ast.Lt))
        ctx.ob("4.4-routing", con2, ok, "a component violates its constraint when value > tolerance", node=(cmps or [g])[0], stmt="violation: value > tolerance")
    # is_point_feasible
    g = ctx.index.method(CO, "Constraints", "is_point_feasible")
    con3 = cname(CO, "Constraints", "is_point_feasible")
    calls = rules.self_calls(g, "is_constraint_satisfied")
    ok = len(calls) == 1 and len(calls[0].args) == 2 and (dotted(calls[0].args[0]) or "").endswith(".f_type")
    loops = [s for s in stmts_of(g) if isinstance(s, ast.For)]
    ok = ok and len(loops) == 1 and (dotted(loops[0].iter) or "").endswith("_functions")
    ctx.ob("4.3-filter", con3, ok, "a point is feasible iff every constraint of the collection is satisfied for its own type", node=(calls or [g])[0])
    rets = [s for s in stmts_of(g) if isinstance(s, ast.Return)]
    cfg3 = cfg_of(g)
    false_rets = [r for r in rets if const_value(r.value, 1) is False]
    ok = len(false_rets) == 1
    if ok:
        conds = branch_conditions(cfg3, cfg3.node_of(false_rets[0]))
        tests = [cfg3.ast[t].test for t, v in conds if v and cfg3.kind[t] == "test"]
        ok = any(isinstance(t, ast.BoolOp) and isinstance(t.op, ast.Or) and any(isinstance(x, ast.UnaryOp) and isinstance(x.op, ast.Not) and calls[0] in list(ast.walk(x)) for x in t.values) or (isinstance(t, ast.UnaryOp) and isinstance(t.op, ast.Not) and calls and calls[0] in list(ast.walk(t))) for t in tests)
    ctx.ob("4.3-filter", con3, ok, "is_point_feasible must return False exactly when a constraint is not satisfied (negated test)", node=(false_rets or [g])[0], stmt="return False iff not satisfied")


def check_result(ctx: Ctx) -> None:
    f = ctx.index.method(OR, "OptimizationResult", "from_optimization_problem")
    con = cname(OR, "OptimizationResult", "from_optimization_problem")
    cfg = cfg_of(f)
    sol = ctx.index.cls(OH, "OptimizationHistory.Solution")
    order = [s.target.id for s in sol.node.body if isinstance(s, ast.AnnAssign)]
    # the locals that hold the fields of problem.optimum: by tuple unpacking (position -> field of the Solution
    # named tuple) or by attribute (`optimum = problem.optimum; f_opt = optimum.objective`)
    holders = {"problem.optimum"} | {t.id for s in stmts_of(f) if isinstance(s, ast.Assign) and dotted(s.value) == "problem.optimum" for t in s.targets if isinstance(t, ast.Name)}
    bound = {}
    for s in stmts_of(f):
        if not isinstance(s, ast.Assign) or len(s.targets) != 1:
            continue
        t = s.targets[0]
        if isinstance(t, ast.Tuple) and dotted(s.value) in holders and len(t.elts) == len(order):
            for e_, fld in zip(t.elts, order):
                bound.setdefault(fld, dotted(e_))
        elif isinstance(t, ast.Name) and isinstance(s.value, ast.Attribute) and dotted(s.value.value) in holders and s.value.attr in order:
            bound.setdefault(s.value.attr, t.id)
    wanted = ["objective", "design", "is_feasible", "constraints", "constraint_jacobian"]
    ctx.need(all(w in bound for w in wanted), "from_optimization_problem: unpacking of problem.optimum not found")
    f_opt, x_opt, is_feas, c_opt, c_grad = (bound[w] for w in wanted)
    ctx.ob("4.1-result-fields", con, order == ["objective", "design", "is_feasible", "constraints", "constraint_jacobian"], "the Solution tuple must be (objective, design, is_feasible, constraints, constraint_jacobian), the order in which it is unpacked", node=sol.node, stmt="Solution field order", slots={"order": order})
    negs = [s for s in stmts_of(f) if isinstance(s, ast.Assign) and dotted(s.targets[0]) == f_opt and isinstance(s.value, ast.UnaryOp) and isinstance(s.value.op, ast.USub) and dotted(s.value.operand) == f_opt]
    ctx.need(len(negs) == 1, "from_optimization_problem: `f_opt = -f_opt` not found")
    from gv.props.shared import literal_facts as _lf2

    fs = _lf2(cfg, cfg.node_of(negs[0]))
    neg = {k for k, v in fs.items() if v is False}
    pos = sorted(k for k, v in fs.items() if v is True)
    ok = neg == {"problem.minimize_objective", "problem.use_standardized_objective"}
    ctx.ob("4.5-sign", con, ok, "the objective sign is restored iff the problem maximises and the original (non-standardised) objective is reported", node=negs[0], slots={"neg": sorted(str(x) for x in neg), "pos": pos})
    oi = [s for s in stmts_of(f) if isinstance(s, ast.Assign) and dotted(s.targets[0]) == "optimum_index" and not isinstance(s.value, ast.Constant)]
    ok = len(oi) == 1 and isinstance(oi[0].value, ast.BinOp) and isinstance(oi[0].value.op, ast.Sub) and const_value(oi[0].value.right) == 1 and isinstance(oi[0].value.left, ast.Call) and last_attr(oi[0].value.left) == "get_iteration" and dotted(oi[0].value.left.args[0]) == x_opt
    ctx.ob("4.5-index", con, ok, "optimum_index must be database.get_iteration(x_opt) - 1 for the reported x_opt", node=(oi or [f])[0])
    ctor = [s for s in stmts_of(f) if isinstance(s, ast.Return) and isinstance(s.value, ast.Call) and dotted(s.value.func) == "cls" and any(k.arg == "x_opt" for k in s.value.keywords)]
    ctx.need(len(ctor) == 1, "from_optimization_problem: cls(...) construction not found")
    kw = {k.arg: dotted(k.value) for k in ctor[0].value.keywords if k.arg}
    want = {"x_opt": x_opt, "f_opt": f_opt, "is_feasible": is_feas, "constraint_values": c_opt, "constraints_grad": c_grad, "optimum_index": "optimum_index"}
    bad = {k: kw.get(k) for k, v in want.items() if kw.get(k) != v}
    ctx.ob("4.1-result-fields", con, not bad, f"result fields are not wired to the corresponding fields of the optimum: {bad}", node=ctor[0], stmt="cls(x_opt=, f_opt=, is_feasible=, constraint_values=, constraints_grad=, optimum_index=)")


def check_pareto(ctx: Ctx) -> None:
    f = ctx.index.func(PU, "compute_pareto_optimal_points")
    con = cname(PU, None, "compute_pareto_optimal_points")
    # the quantifier helper: a nested `def h(x): return <e>` or, equivalently, `h = lambda x: <e>` (the engine writes the
    # former as the latter)
    helper = [(s.name, [r.value for r in s.body if isinstance(r, ast.Return)][:1], s) for s in f.body if isinstance(s, ast.FunctionDef)]
    helper += [(s.targets[0].id, [s.value.body], s) for s in f.body if isinstance(s, ast.Assign) and isinstance(s.value, ast.Lambda) and isinstance(s.targets[0], ast.Name)]
    ok = len(helper) == 1 and bool(helper[0][1])
    if ok:
        rv_ = helper[0][1][0]
        txt = unparse(rv_)
        ok = isinstance(rv_, ast.Call) and last_attr(rv_) in ("np_all", "all") and isinstance(rv_.args[0], ast.Call) and last_attr(rv_.args[0]) in ("np_any", "any") and "axis=1" in txt
    ctx.ob("4.6-quantifiers", con, ok, "a point is non-dominated iff every other point is worse in at least one objective: all over points of any over objectives (axis=1)", node=(helper[0][2] if helper else f))
    hname = helper[0][0] if helper else "any_ax1_all"
    loops = [s for s in stmts_of(f) if isinstance(s, ast.For)]
    if len(loops) != 2:
        ctx.ob("4.6-filter", con, False, "the Pareto filter must first go through all the points (infeasible ones are marked non-optimal, feasible ones collected), then compare the feasible ones: the first pass was not found in that form", node=(loops or [f])[0], stmt="filter pass then dominance pass")
        return
    filt, main = loops
    obj_var = None
    for s in ast.walk(main):
        if isinstance(s, ast.Assign) and isinstance(s.value, ast.Subscript) and dotted(s.value.value) == f.args.args[0].arg:
            obj_var = dotted(s.targets[0])
    ctx.need(obj_var, "compute_pareto_optimal_points: the candidate's objective vector was not found")
    cmps = [c for c in ast.walk(main) if isinstance(c, ast.Compare) and obj_var in names_in(c)]
    ctx.need(len(cmps) == 2, "compute_pareto_optimal_points: the two dominance comparisons were not found")
    for c in cmps:
        l, op, r = compare_parts(c)
        ok = (dotted(r) == obj_var and op is ast.Gt) or (dotted(l) == obj_var and op is ast.Lt)
        ctx.ob("4.6-polarity", con, ok, "others must be compared `others > candidate` (strictly worse somewhere): with < dominated points are reported, with >= duplicates dominate each other differently", node=c)
        other = l if dotted(r) == obj_var else r
        ok = isinstance(other, ast.Subscript) and "filtered" in (dotted(other.value) or "")
        ctx.ob("4.6-feasible-only", con, ok, "dominance must be tested against feasible points only", node=c, stmt=f"{norm_stmt(c, 60)} against the filtered values")
    sl = sorted(unparse(c.left.slice if dotted(c.comparators[0]) == obj_var else c.comparators[0].slice) for c in cmps if isinstance((c.left if dotted(c.comparators[0]) == obj_var else c.comparators[0]), ast.Subscript))
    iv = main.target.elts[0].id if isinstance(main.target, ast.Tuple) else "i"
    ctx.ob("4.6-others", con, sl == sorted([f":{iv}", f"{iv} + 1:"]), "the candidate must be compared with all other feasible points (before and after it), not with itself", node=main, slots={"slices": sl})
    # infeasible points set False
    cfgf = cfg_of(f)
    sets = [s for s in ast.walk(filt) if isinstance(s, ast.Assign) and isinstance(s.targets[0], ast.Subscript) and const_value(s.value, 1) is False]
    ok = len(sets) == 1
    if ok:
        conds = [(t, v) for t, v in branch_conditions(cfgf, cfgf.node_of(sets[0])) if cfgf.kind[t] == "test"]
        ok = len(conds) == 1 and ((conds[0][1] and isinstance(cfgf.ast[conds[0][0]].test, ast.UnaryOp)) or (not conds[0][1] and isinstance(cfgf.ast[conds[0][0]].test, ast.Name)))
    ctx.ob("4.6-feasible-only", con, ok, "infeasible points must be marked non-optimal", node=(sets or [filt])[0], stmt="infeasible -> False")
    res = [s for s in ast.walk(main) if isinstance(s, ast.Assign) and isinstance(s.targets[0], ast.Subscript) and isinstance(s.value, ast.BoolOp)]
    ok = len(res) == 1 and isinstance(res[0].value.op, ast.And) and dotted(res[0].targets[0].slice) == (main.target.elts[1].id if isinstance(main.target, ast.Tuple) else None)
    ctx.ob("4.6-quantifiers", con, ok, "the verdict of a feasible point is (before are worse) and (after are worse), stored at the point's own index", node=(res or [main])[0])


def run(ctx: Ctx) -> None:
    check_optimum(ctx)
    check_best_infeasible(ctx)
    check_feasible_points(ctx)
    check_tolerances(ctx)
    check_result(ctx)
    check_pareto(ctx)
    # last_point: all fields from one x_last
    f = ctx.index.method(OH, "OptimizationHistory", "last_point")
    con = cname(OH, "OptimizationHistory", "last_point")
    xl = [s for s in stmts_of(f) if isinstance(s, ast.Assign) and isinstance(s.value, ast.Call) and last_attr(s.value) == "get_x_vect"]
    ok = len(xl) == 1 and const_value(xl[0].value.args[0].operand if isinstance(xl[0].value.args[0], ast.UnaryOp) else None) == 1
    ctx.ob("4.1-last-point", con, ok, "the last point is database.get_x_vect(-1)", node=(xl or [f])[0])
    if ok:
        x = dotted(xl[0].targets[0])
        out = [s for s in stmts_of(f) if isinstance(s, ast.Assign) and isinstance(s.value, ast.Subscript) and dotted(s.value.slice) == x]
        ok2 = len(out) == 1
        o = dotted(out[0].targets[0]) if ok2 else None
        ret = [s for s in stmts_of(f) if isinstance(s, ast.Return)][0]
        args = ret.value.args
        ok2 = ok2 and dotted(args[1]) == x
        deps = []
        for a in args[2:]:
            d = [s for s in stmts_of(f) if isinstance(s, ast.Assign) and dotted(s.targets[0]) == dotted(a)]
            deps.append(bool(d) and o in names_in(d[0].value))
        ctx.ob("4.1-last-point", con, ok2 and all(deps), "feasibility and constraint values of the last point must be read from the last record", node=ret)
    ctx.floor("4.1-same-record", 6)
    ctx.floor("4.4-routing", 9)
    ctx.floor("4.6-polarity", 2)


# ---------------------------------------------------------------------------
WITNESSES = [
    {"name": "x_opt-outside-selection", "file": OH, "old": "            if obj_value < f_opt:\n                f_opt = obj_value\n                x_opt = feas_x[i]\n", "new": "            x_opt = feas_x[i]\n            if obj_value < f_opt:\n                f_opt = obj_value\n", "expect": "4.1"},
    {"name": "selection-greater", "file": OH, "old": "            if obj_value < f_opt:", "new": "            if obj_value > f_opt:", "expect": "4.2"},
    {"name": "incumbent-zero", "file": OH, "old": "        f_opt, x_opt = inf, array([])", "new": "        f_opt, x_opt = 0.0, array([])", "expect": "4.2"},
    {"name": "x_opt-other-index", "file": OH, "old": "                x_opt = feas_x[i]", "new": "                x_opt = feas_x[i - 1]", "expect": "4.1"},
    {"name": "constraints-from-last-record", "file": OH, "old": "                    c_opt[c_name] = output_values.get(c_name)", "new": "                    c_opt[c_name] = feas_f[-1].get(c_name)", "expect": "4.1"},
    {"name": "true-flag-on-infeasible-path", "file": OH, "old": "            return self.Solution(f_opt, x_opt, False, c_opt, c_opt_grad)", "new": "            return self.Solution(f_opt, x_opt, True, c_opt, c_opt_grad)", "expect": "4."},
    {"name": "argmax-violation", "file": OH, "old": "best_i = int(argmin(array(viol_criteria)))", "new": "best_i = int(argmax(array(viol_criteria)))", "expect": "4.2"},
    {"name": "best-x-other-index", "file": OH, "old": "return x_history[best_i], f_opt, is_feasible[best_i], outputs_opt", "new": "return x_history[-1], f_opt, is_feasible[best_i], outputs_opt", "expect": "4.1"},
    {"name": "conditional-append", "file": OH, "old": "            x_history.append(x_vect.unwrap())\n            f_history.append(out_val)\n\n        best_i", "new": "            if out_val:\n                x_history.append(x_vect.unwrap())\n            f_history.append(out_val)\n\n        best_i", "expect": "4.1"},
    {"name": "feasible-filter-negated", "file": OH, "old": "            if self.__constraints.is_point_feasible(output_values):", "new": "            if not self.__constraints.is_point_feasible(output_values):", "expect": "4.3"},
    {"name": "swap-tolerances", "file": CO, "old": "            return np_all(np_abs(constraint_value) <= self.__tolerances.equality)\n\n        return np_all(constraint_value <= self.__tolerances.inequality)", "new": "            return np_all(np_abs(constraint_value) <= self.__tolerances.inequality)\n\n        return np_all(constraint_value <= self.__tolerances.equality)", "expect": "4.4"},
    {"name": "drop-abs", "file": CO, "old": "np_all(np_abs(constraint_value) <= self.__tolerances.equality)", "new": "np_all(constraint_value <= self.__tolerances.equality)", "expect": "4.4"},
    {"name": "strict-satisfaction", "file": CO, "old": "np_all(constraint_value <= self.__tolerances.inequality)", "new": "np_all(constraint_value < self.__tolerances.inequality)", "expect": "4.4"},
    {"name": "violation-swapped-tolerance", "file": OH, "old": "            if f_type == MDOFunction.ConstraintType.INEQ:\n                tolerance = constraints.tolerances.inequality\n            else:\n                tolerance = constraints.tolerances.equality", "new": "            if f_type == MDOFunction.ConstraintType.INEQ:\n                tolerance = constraints.tolerances.equality\n            else:\n                tolerance = constraints.tolerances.inequality", "expect": "4.4"},
    {"name": "unsatisfied-abs-for-ineq", "file": CO, "old": "            if constraint.f_type == MDOFunction.ConstraintType.EQ:\n                value = absolute(value)\n                tolerance = self.__tolerances.equality\n            else:\n                tolerance = self.__tolerances.inequality", "new": "            value = absolute(value)\n            if constraint.f_type == MDOFunction.ConstraintType.EQ:\n                tolerance = self.__tolerances.equality\n            else:\n                tolerance = self.__tolerances.inequality", "expect": "4.4"},
    {"name": "point-feasible-ignores-type", "file": CO, "old": "            if constraint_value is None or not self.is_constraint_satisfied(\n                constraint.f_type, constraint_value\n            ):", "new": "            if constraint_value is None or self.is_constraint_satisfied(\n                constraint.f_type, constraint_value\n            ):", "expect": "4.3"},
    {"name": "negate-unconditionally", "file": OR, "old": "            f_opt is not None\n            and not problem.minimize_objective\n            and not problem.use_standardized_objective\n        ):", "new": "            f_opt is not None\n            and not problem.minimize_objective\n        ):", "expect": "4.5"},
    {"name": "negate-when-minimising", "file": OR, "old": "            and not problem.minimize_objective\n", "new": "            and problem.minimize_objective\n", "expect": "4.5"},
    {"name": "optimum-index-off-by-one", "file": OR, "old": "optimum_index = problem.database.get_iteration(x_opt) - 1", "new": "optimum_index = problem.database.get_iteration(x_opt)", "expect": "4.5"},
    {"name": "result-fields-swapped", "file": OR, "old": "            constraint_values=c_opt,\n            constraints_grad=c_opt_grad,", "new": "            constraint_values=c_opt_grad,\n            constraints_grad=c_opt,", "expect": "4.1"},
    {"name": "pareto-less-than", "file": PU, "old": "before_are_worse = any_ax1_all(obj_values_filtered[:i] > obj)", "new": "before_are_worse = any_ax1_all(obj_values_filtered[:i] < obj)", "expect": "4.6"},
    {"name": "pareto-all-any-swapped", "file": PU, "old": "        return np_all(np_any(arr, axis=1))", "new": "        return np_any(np_all(arr, axis=1))", "expect": "4.6"},
    {"name": "pareto-unfiltered", "file": PU, "old": "after_are_worse = any_ax1_all(obj_values_filtered[i + 1 :] > obj)", "new": "after_are_worse = any_ax1_all(obj_values[i + 1 :] > obj)", "expect": "4.6"},
    {"name": "pareto-or", "file": PU, "old": "pareto_optimal[feasible_index] = before_are_worse and after_are_worse", "new": "pareto_optimal[feasible_index] = before_are_worse or after_are_worse", "expect": "4.6"},
    {"name": "pareto-infeasible-kept", "file": PU, "old": "        if not feasible_point:\n            pareto_optimal[i] = False\n        else:\n            feasible_indexes.append(i)", "new": "        if feasible_point:\n            feasible_indexes.append(i)", "expect": "4.6"},
]
TWINS = [
    {"name": "selection-le-ties-to-the-last", "file": OH, "old": "            if obj_value < f_opt:", "new": "            if obj_value <= f_opt:"},
    {"name": "selection-mirrored", "file": OH, "old": "            if obj_value < f_opt:", "new": "            if f_opt > obj_value:"},
    {"name": "pareto-mirrored", "file": PU, "old": "any_ax1_all(obj_values_filtered[:i] > obj)", "new": "any_ax1_all(obj < obj_values_filtered[:i])"},
    {"name": "rename-loop-record", "file": OH, "old": "        for i, output_values in enumerate(feas_f):\n            obj_value = output_values.get(obj_name)", "new": "        for i, output_values in enumerate(feas_f):\n            obj_value = output_values.get(self.objective_name)"},
    {"name": "tolerance-guard-noteq", "file": OH, "old": "            if f_type == MDOFunction.ConstraintType.INEQ:\n                tolerance = constraints.tolerances.inequality\n            else:\n                tolerance = constraints.tolerances.equality\n                constraint_value = abs(constraint_value)", "new": "            if f_type != MDOFunction.ConstraintType.INEQ:\n                tolerance = constraints.tolerances.equality\n                constraint_value = abs(constraint_value)\n            else:\n                tolerance = constraints.tolerances.inequality"},
]
