"""C04 -- the reported optimum is the best point of the recorded history (selection structure)."""

from __future__ import annotations

import ast

from gv import rules
from gv.astutil import compare_parts
from gv.astutil import const_value
from gv.astutil import dotted
from gv.astutil import last_attr
from gv.astutil import mangle
from gv.astutil import names_in
from gv.astutil import norm_stmt
from gv.astutil import stmts_of
from gv.astutil import unparse
from gv.astutil import walk_body
from gv.cfg import cfg_of
from gv.astutil import arg_or_kw
from gv.props.shared import unfolded
from gv.props import describe
from gv.props.shared import branch_conditions
from gv.props.shared import conj_literals
from gv.report import Ctx
from gv.report import cname

OH = "algos/optimization_history.py"
OR = "algos/optimization_result.py"
CO = "core/mdo_functions/collections/constraints.py"
PU = "algos/pareto/utils.py"

describe(
    "C04",
    explanation=(
        "Selection structure of the reported optimum, decided on the syntax tree: every reported field is taken "
        "from the one selected record (same loop item / same index); the selection is a running strict minimum "
        "from +inf over the feasible points and an argmin of the violation over all points otherwise; the "
        "feasibility flag matches the branch; tolerances are routed by constraint type with the right comparison "
        "polarity in the three sibling routines; the objective sign is restored exactly for maximisation with "
        "original-objective reporting; the Pareto filter has the right dominance polarity and excludes infeasible points."
    ),
    decided=["4.1 single record", "4.2 running minimum", "4.3 feasibility flag", "4.4 tolerance routing", "4.5 sign restoration and index", "4.6 Pareto polarity", "4.8 one tolerances object shared by the problem and its constraints"],
    not_decided=["arithmetic of the violation measure", "NaN ordering and ties", "vector objectives through norm"],
)


def _assigned_names(stmt: ast.AST) -> set[str]:
    out = set()
    if isinstance(stmt, ast.Assign):
        for t in stmt.targets:
            for n in ast.walk(t):
                if isinstance(n, ast.Name) and isinstance(n.ctx, ast.Store):
                    out.add(n.id)
                elif isinstance(n, ast.Subscript) and isinstance(n.value, ast.Name):
                    out.add(n.value.id)
    return out


def check_optimum(ctx: Ctx) -> None:
    f = ctx.index.method(OH, "OptimizationHistory", "optimum")
    con = cname(OH, "OptimizationHistory", "optimum")
    cfg = cfg_of(f)
    from gv.dataflow import SymValues

    once = _Once(f)
    sv = SymValues(f)
    # the feasible points and their outputs: `feas_x, feas_f = self.feasible_points`, possibly through a local holding
    # the pair, or element by element (`pair[0]`, `pair[1]`)
    holders: dict[int, list[str]] = {0: [], 1: []}
    for s in stmts_of(f):
        if not (isinstance(s, ast.Assign) and len(s.targets) == 1):
            continue
        src = unparse(once.at(s.value, s))
        t = s.targets[0]
        if isinstance(t, (ast.Tuple, ast.List)) and len(t.elts) == 2 and all(isinstance(e, ast.Name) for e in t.elts) and src == "self.feasible_points":
            holders[0].append(t.elts[0].id)
            holders[1].append(t.elts[1].id)
        elif isinstance(t, ast.Name) and src in ("self.feasible_points[0]", "self.feasible_points[1]"):
            holders[int(src[-2])].append(t.id)
    ctx.need(len(holders[0]) == 1 and len(holders[1]) == 1, "optimum: `feas_x, feas_f = self.feasible_points` not found")
    feas_x, feas_f = holders[0][0], holders[1][0]
    ctx.ob("4.1-record", con, once.stores.get(feas_x) == 1 and once.stores.get(feas_f) == 1, "the feasible points and their outputs are two parallel lists: neither may be re-bound (filtered, re-ordered) after they were taken from feasible_points, or positions no longer correspond", node=f, stmt="feasible points and outputs bound once")
    # the loop over the feasible records: `for i, rec in enumerate(feas_f)` / `for i in range(len(feas_f))` (record
    # feas_f[i], design feas_x[i]) or `for x, rec in zip(feas_x, feas_f)`; whatever the form, the record and the point
    # of the current iteration are written feas_f[<i>] and feas_x[<i>] below
    loops = []
    for s in stmts_of(f):
        if not isinstance(s, ast.For):
            continue
        form = _indexed_iter(s.iter, s.target)
        if form and dotted(form[1]) == feas_f:
            loops.append((s, form[0], {form[2]: f"{feas_f}[{form[0]}]"} if form[2] else {}))
        elif isinstance(s.iter, ast.Call) and dotted(s.iter.func) == "zip" and not s.iter.keywords and [dotted(a_) for a_ in s.iter.args] == [feas_x, feas_f] and isinstance(s.target, ast.Tuple) and len(s.target.elts) == 2 and all(isinstance(e, ast.Name) for e in s.target.elts):
            loops.append((s, "position", {s.target.elts[0].id: f"{feas_x}[position]", s.target.elts[1].id: f"{feas_f}[position]"}))
    ctx.need(len(loops) == 1, "optimum: loop over enumerate(feasible outputs) not found")
    lp, i_var, bind = loops[0]
    bind = {k: ast.parse(v, mode="eval").body for k, v in bind.items()}
    own_rec, own_x = f"{feas_f}[{i_var}]", f"{feas_x}[{i_var}]"

    class Fold(ast.NodeTransformer):
        """The two lists are named even where the unfolding went through them to ``self.feasible_points[k]``."""

        def visit_Subscript(self, n):  # noqa: N802
            k = {"self.feasible_points[0]": feas_x, "self.feasible_points[1]": feas_f}.get(unparse(n))
            return ast.Name(id=k, ctx=ast.Load()) if k else self.generic_visit(n)

    fold = Fold()

    def canon(e: ast.AST) -> list[ast.AST]:
        """Alternatives of an expression of the loop body, locals unfolded, the loop's record and point written in
        their canonical form."""
        return [_subst(fold.visit(a_), bind) for a_ in sv.exprs(e)]

    def own_point(e: ast.AST) -> bool:
        alts = canon(e)
        return bool(alts) and all(unparse(a_) == own_x for a_ in alts)

    def own_record_only(e: ast.AST) -> bool:
        """Every alternative reads the outputs of the current iteration and no other record."""
        alts = canon(e)
        return bool(alts) and all(own_rec in unparse(a_) and feas_f not in names_in(ast.parse(unparse(a_).replace(own_rec, "REC"), mode="eval")) for a_ in alts)

    # the final return
    rets = [s for s in stmts_of(f) if isinstance(s, ast.Return) and isinstance(s.value, ast.Call) and last_attr(s.value) == "Solution"]
    ctx.need(len(rets) == 2, "optimum: the two Solution(...) returns were not found")
    ctx.need(all(len(r.value.args) == 5 for r in rets), "optimum: Solution(...) is not built from five positional fields")
    # the return on the no-feasible-point path vs. the one after the loop (identified by position, then the flags are checked)
    from gv.props.shared import literal_facts as _lf

    ret_false = [r for r in rets if _lf(cfg, cfg.node_of(r)).get(feas_x) is False or _lf(cfg, cfg.node_of(r)).get(f"len({feas_x})") is False or _lf(cfg, cfg.node_of(r)).get(f"len({feas_x}) == 0") is True]
    ret_true = [r for r in rets if r not in ret_false]
    ctx.need(len(ret_true) == 1 and len(ret_false) == 1, "optimum: the no-feasible-point return and the final return were not identified")
    ctx.ob("4.3-flag", con, const_value(ret_false[0].value.args[2], 1) is False, "the least-infeasible solution must be flagged infeasible", node=ret_false[0], stmt="flag False on the no-feasible-point path")
    ctx.ob("4.3-flag", con, const_value(ret_true[0].value.args[2], 0) is True, "the best feasible solution must be flagged feasible", node=ret_true[0], stmt="flag True after the selection loop")
    fields = [dotted(a) for a in ret_true[0].value.args]
    f_opt, x_opt, _, c_opt, c_grad = fields
    ctx.need(all([f_opt, x_opt, c_opt, c_grad]), "optimum: the fields of the feasible Solution are not plain names")
    reported = {f_opt, x_opt, c_opt, c_grad}
    # selection test
    sel = []
    for n in cfg.nodes(lambda n: cfg.kind[n] == "test"):
        t = cfg.ast[n]
        if not any(sub is t for sub in ast.walk(lp)):
            continue
        cp = compare_parts(t.test)
        if cp and f_opt in names_in(t.test):
            sel.append((n, cp))
    ctx.need(len(sel) == 1, "optimum: the selection test against the incumbent was not found")
    sel_n, (l, op, r) = sel[0]
    cand_e = l if dotted(r) == f_opt else r
    cand = {unparse(a_) for a_ in canon(cand_e)}
    # ties are not decided by the property (no feasible point may be STRICTLY better): < and <= are both right
    ok = (dotted(r) == f_opt and op in (ast.Lt, ast.LtE)) or (dotted(l) == f_opt and op in (ast.Gt, ast.GtE))
    ctx.ob("4.2-min", con, ok, "the selection must keep the candidate when it is smaller than the incumbent (`candidate < incumbent` or `<=`): with > the worst feasible point is reported", node=cfg.ast[sel_n])
    # candidate derived from the record's objective: <own record>.get(objective name), possibly through norm(...) for a
    # vector objective (not decided here), chosen by a conditional expression or by re-assignment

    def reads(e: ast.AST) -> list[ast.Call | None]:
        if isinstance(e, ast.IfExp):
            return reads(e.body) + reads(e.orelse)
        if isinstance(e, ast.Call) and last_attr(e) == "norm" and len(e.args) == 1 and not e.keywords:
            return reads(e.args[0])
        if isinstance(e, ast.Call) and isinstance(e.func, ast.Attribute) and e.func.attr == "get" and len(e.args) == 1 and not e.keywords:
            return [e]
        return [None]

    got = [g_ for a_ in canon(cand_e) for g_ in reads(a_)]
    ok = bool(got) and all(g_ is not None and unparse(g_.func.value) == own_rec for g_ in got)
    ctx.ob("4.1-record", con, ok, "the candidate objective must be read from the loop's own record", node=cfg.ast[sel_n], stmt="candidate = <own record>.get(...)", slots={"candidate": sorted(cand)})
    if ok:
        key_ok = all(unparse(g_.args[0]) == "self.objective_name" for g_ in got)
        ctx.ob("4.1-record", con, key_ok, "the candidate must be the value recorded under the objective name", node=cfg.ast[sel_n], stmt="objective looked up by objective_name")
    # incumbent initialised to inf before the loop
    inits = [s for s in stmts_of(f) if isinstance(s, ast.Assign) and f_opt in _assigned_names(s) and not any(sub is s for sub in ast.walk(lp)) and cfg.reachable(cfg.node_of(s), cfg.node_of(lp))]
    ok = len(inits) == 1
    if ok:
        v = inits[0].value
        t = inits[0].targets[0]
        if isinstance(t, ast.Tuple) and isinstance(v, ast.Tuple):
            idx = [dotted(e) for e in t.elts].index(f_opt)
            v = v.elts[idx]
        ok = dotted(v) in ("inf", "np.inf", "numpy.inf", "math.inf")
    ctx.ob("4.2-init-inf", con, ok, "the incumbent objective must start at +inf: any finite start hides feasible points whose objective is larger", node=(inits or [lp])[0])
    # writes of reported fields inside the loop only under the selection branch
    for s in ast.walk(lp):
        if isinstance(s, ast.Assign) and _assigned_names(s) & reported:
            ok = cfg.under_branch(cfg.node_of(s), sel_n, True)
            ctx.ob("4.1-same-record", con, ok, f"`{norm_stmt(s, 60)}` updates a reported field outside the selection branch: the reported fields would belong to different points of the history", node=s)
            # value provenance
            tgt = _assigned_names(s) & reported
            if x_opt in tgt:
                okv = own_point(s.value)
                ctx.ob("4.1-same-record", con, okv, "the reported design must be the feasible point of the loop's own index", node=s, stmt=f"{x_opt} = the feasible point of the selected record")
            elif f_opt in tgt:
                ctx.ob("4.1-same-record", con, {unparse(a_) for a_ in canon(s.value)} == cand, "the reported objective must be the candidate just compared", node=s, stmt=f"{f_opt} = candidate")
            else:
                okv = own_record_only(s.value)
                ctx.ob("4.1-same-record", con, okv, "constraint values/gradients must be read from the loop's own record", node=s, stmt=f"{sorted(tgt)[0]}[...] from the selected record")
    # ... and every reported field is overwritten WHENEVER the selection changes: a store under a further condition
    # (`if key in record:`) keeps, for the new optimum, the value recorded for an earlier candidate
    ref = [s_ for s_ in ast.walk(lp) if isinstance(s_, ast.Assign) and f_opt in _assigned_names(s_) and cfg.under_branch(cfg.node_of(s_), sel_n, True)]
    if ref:
        from gv.props.shared import branch_conditions as _bc

        base_tests = {(t, v) for t, v in _bc(cfg, cfg.node_of(ref[0])) if cfg.kind[t] == "test"}
        for s_ in ast.walk(lp):
            if isinstance(s_, ast.Assign) and _assigned_names(s_) & reported and cfg.under_branch(cfg.node_of(s_), sel_n, True):
                extra = {(t, v) for t, v in _bc(cfg, cfg.node_of(s_)) if cfg.kind[t] == "test"} - base_tests
                ctx.ob("4.1-same-record", con, not extra, f"`{norm_stmt(s_, 60)}` is made under a further condition ({'; '.join(norm_stmt(cfg.ast[t].test, 50) for t, _ in extra)}): when it does not hold, the field keeps what was recorded for another candidate", node=s_, stmt=f"{sorted(_assigned_names(s_) & reported)[0]} overwritten at every change of the selection")
    # writes after the loop only post-process f_opt (scalar unwrapping)
    # 4.3 flag / branches
    fn = cfg.node_of(ret_false[0])
    conds = branch_conditions(cfg, fn)
    f_false = _lf(cfg, fn)
    ok = len(conds) == 1 and (f_false.get(feas_x) is False or f_false.get(f"len({feas_x})") is False or f_false.get(f"len({feas_x}) == 0") is True)
    ctx.ob("4.3-flag", con, ok, "the infeasible Solution may only be returned when there is no feasible point", node=ret_false[0])
    tn = cfg.node_of(ret_true[0])
    ok = bool(conds) and not cfg.under_branch(tn, conds[0][0], conds[0][1]) and cfg.reachable(cfg.node_of(lp), tn)
    ctx.ob("4.3-flag", con, ok, "the feasible Solution must be returned after the loop over the feasible points, not on the no-feasible-point path", node=ret_true[0])
    bi = [s for s in stmts_of(f) if isinstance(s, ast.Assign) and isinstance(s.value, ast.Call) and last_attr(s.value) in ("__get_best_infeasible_point", "_OptimizationHistory__get_best_infeasible_point")]
    ok = len(bi) == 1 and cfg.dominates(cfg.node_of(bi[0]), fn)
    ctx.ob("4.3-flag", con, ok, "the infeasible Solution must come from __get_best_infeasible_point", node=(bi or ret_false)[0])
    if ok:
        t = bi[0].targets[0]
        ok2 = isinstance(t, ast.Tuple) and len(t.elts) == 4
        a = ret_false[0].value.args
        if ok2:
            x_, f_, _, h_ = (dotted(e) for e in t.elts)
            ok2 = dotted(a[0]) == f_ and dotted(a[1]) == x_
            # constraint dicts built from the same outputs
            for k in (3, 4):
                d = dotted(a[k])
                defs = [s for s in stmts_of(f) if isinstance(s, ast.Assign) and dotted(s.targets[0]) == d and cfg.dominates(cfg.node_of(s), fn) and cfg.under_branch(cfg.node_of(s), conds[0][0], conds[0][1])] if conds else []
                ok2 = ok2 and len(defs) == 1 and h_ in names_in(defs[0].value)
        ctx.ob("4.1-infeasible-record", con, ok2, "in the infeasible case objective, design and constraint values must all come from the one best-infeasible record", node=ret_false[0])


def check_best_infeasible(ctx: Ctx) -> None:
    name = "__get_best_infeasible_point"
    f = ctx.index.method(OH, "OptimizationHistory", name)
    con = cname(OH, "OptimizationHistory", name)
    cfg = cfg_of(f)
    loops = [s for s in stmts_of(f) if isinstance(s, ast.For)]
    ctx.need(len(loops) == 1, "__get_best_infeasible_point: the loop over the database was not found")
    lp = loops[0]
    ok = isinstance(lp.iter, ast.Call) and last_attr(lp.iter) == "items" and (dotted(lp.iter.func.value) or "").endswith("__database")
    ctx.ob("4.2-argmin", con, ok, "the violation list must be built over all database items, in database order", node=lp)
    appends = [c for c in ast.walk(lp) if isinstance(c, ast.Call) and isinstance(c.func, ast.Attribute) and c.func.attr == "append" and isinstance(c.func.value, ast.Name)]
    lists = {c.func.value.id for c in appends}
    lh = cfg.node_of(lp)
    for c in appends:
        n = cfg.node_of(c)
        conds = [tv for tv in branch_conditions(cfg, n) if tv[0] != lh]
        ctx.ob("4.1-parallel-lists", con, not conds, "the per-point lists must all be appended once per database item, unconditionally: otherwise the index of the best violation addresses another point", node=c)
    per_list = {l: sum(1 for c in appends if c.func.value.id == l) for l in lists}
    ctx.ob("4.1-parallel-lists", con, all(v == 1 for v in per_list.values()), "a per-point list is appended more than once per item", node=lp, stmt="one append per list per item")
    am = [s for s in stmts_of(f) if isinstance(s, ast.Assign) and any(isinstance(c, ast.Call) and last_attr(c) in ("argmin", "nanargmin", "argmax", "nanargmax") for c in ast.walk(s.value))]
    ctx.need(len(am) == 1, "__get_best_infeasible_point: argmin not found")
    best = dotted(am[0].targets[0])
    viol_lists = names_in(am[0].value) & lists
    calls = [last_attr(c) for c in ast.walk(am[0].value) if isinstance(c, ast.Call)]
    ctx.ob("4.2-argmin", con, len(viol_lists) == 1 and "argmax" not in calls and "argmin" in calls, "the best infeasible point is the argmin of the violation measures", node=am[0])
    # the violation list holds the measure returned with the point's feasibility
    vl = next(iter(viol_lists), None)
    chk = [s for s in ast.walk(lp) if isinstance(s, ast.Assign) and isinstance(s.value, ast.Call) and last_attr(s.value) == "check_design_point_is_feasible"]
    ok = len(chk) == 1 and isinstance(chk[0].targets[0], ast.Tuple) and len(chk[0].targets[0].elts) == 2
    if ok:
        feas_v, viol_v = (dotted(e) for e in chk[0].targets[0].elts)
        ok = any(c.func.value.id == vl and dotted(c.args[0]) == viol_v for c in appends)
        ok = ok and dotted(chk[0].value.args[0]) in {n.id for n in ast.walk(lp.target) if isinstance(n, ast.Name)}
    ctx.ob("4.2-argmin", con, ok, "the minimised list must hold the violation measure of each database point", node=(chk or [lp])[0])
    rets = [s for s in stmts_of(f) if isinstance(s, ast.Return)]
    ctx.need(len(rets) == 1 and isinstance(rets[0].value, ast.Tuple), "__get_best_infeasible_point: tuple return not found")
    idxs = [dotted(n.slice) for n in ast.walk(f) if isinstance(n, ast.Subscript) and isinstance(n.value, ast.Name) and n.value.id in lists and isinstance(n.ctx, ast.Load)]
    ctx.ob("4.1-infeasible-record", con, bool(idxs) and all(i == best for i in idxs), "every per-point list must be indexed by the one best index", node=rets[0], slots={"indices": idxs})


def check_feasible_points(ctx: Ctx) -> None:
    f = ctx.index.method(OH, "OptimizationHistory", "feasible_points")
    con = cname(OH, "OptimizationHistory", "feasible_points")
    cfg = cfg_of(f)
    loops = [s for s in stmts_of(f) if isinstance(s, ast.For)]
    ctx.need(len(loops) == 1 and isinstance(loops[0].target, ast.Tuple), "feasible_points: loop not found")
    lp = loops[0]
    kx, kv = (e.id for e in lp.target.elts)
    tests = [n for n in cfg.nodes(lambda n: cfg.kind[n] == "test") if any(sub is cfg.ast[n] for sub in ast.walk(lp))]
    ok = len(tests) == 1
    if ok:
        t = cfg.ast[tests[0]].test
        ok = isinstance(t, ast.Call) and last_attr(t) == "is_point_feasible" and dotted(t.args[0]) == kv
    ctx.ob("4.3-filter", con, ok, "feasible points are exactly the database items accepted by Constraints.is_point_feasible(outputs)", node=lp)
    appends = [c for c in ast.walk(lp) if isinstance(c, ast.Call) and isinstance(c.func, ast.Attribute) and c.func.attr == "append"]
    ok = len(appends) == 2 and all(cfg.under_branch(cfg.node_of(c), tests[0], True) for c in appends) if tests else False
    if ok:
        args = sorted(names_in(c.args[0]) & {kx, kv} == {kx} and "x" or "v" for c in appends)
        ok = args == ["v", "x"]
    ctx.ob("4.3-filter", con, ok, "the point and its outputs must be appended together, under the feasibility test, so that positions match", node=lp, stmt="paired appends under the test")
    rets = [s for s in stmts_of(f) if isinstance(s, ast.Return)]
    ok = len(rets) == 1 and isinstance(rets[0].value, ast.Tuple) and len(rets[0].value.elts) == 2
    if ok:
        lists = [c.func.value.id for c in appends]
        xs = [c.func.value.id for c in appends if kx in names_in(c.args[0])]
        ok = bool(xs) and dotted(rets[0].value.elts[0]) == xs[0]
    ctx.ob("4.3-filter", con, ok, "feasible_points must return (points, outputs) in this order", node=(rets or [f])[0])


_ABS = ("np_abs", "abs", "absolute", "fabs")
_MIRROR = {ast.GtE: ast.LtE, ast.Gt: ast.Lt, ast.LtE: ast.GtE, ast.Lt: ast.Gt}


def _tol_kind(e: ast.AST) -> str | None:
    d = dotted(e) or ""
    if d.endswith("tolerances.equality"):
        return "eq"
    if d.endswith("tolerances.inequality"):
        return "ineq"
    return None


def _type_tests(func: ast.AST) -> dict[str, tuple[str, bool]]:
    """The comparisons of a constraint type with ``ConstraintType.EQ`` / ``.INEQ`` anywhere in the function (the test of
    an ``if``, of a conditional expression, the value of a boolean local): {text: (type named, is an equality test)}."""
    out = {}
    for n in walk_body(func):
        cp = compare_parts(n)
        if cp and cp[1] in (ast.Eq, ast.NotEq, ast.Is, ast.IsNot):
            sides = [dotted(cp[0]) or "", dotted(cp[2]) or ""]
            lab = "eq" if any(x.endswith("ConstraintType.EQ") for x in sides) else ("ineq" if any(x.endswith("ConstraintType.INEQ") for x in sides) else None)
            if lab:
                out[norm_stmt(n)] = (lab, cp[1] in (ast.Eq, ast.Is))
    return out


def _specialised(func: ast.AST, facts: dict[str, bool]) -> ast.AST:
    """Copy of ``func`` in which the expressions whose text is a key of ``facts`` have the given truth value, the boolean
    locals that became constants are propagated to their reads, and the branches not taken are folded away."""
    from gv.shapes import specialise

    g = specialise(func, facts)
    for _ in range(4):
        stores: dict[str, int] = {}
        for n in walk_body(g):
            if isinstance(n, ast.Name) and isinstance(n.ctx, (ast.Store, ast.Del)):
                stores[n.id] = stores.get(n.id, 0) + 1
        consts = {s_.targets[0].id: s_ for s_ in stmts_of(g) if isinstance(s_, ast.Assign) and len(s_.targets) == 1 and isinstance(s_.targets[0], ast.Name) and stores.get(s_.targets[0].id) == 1 and isinstance(s_.value, ast.Constant) and isinstance(s_.value.value, bool)}
        if not consts:
            break
        gone = set(map(id, consts.values()))

        class Drop(ast.NodeTransformer):
            def visit_Assign(self, n):  # noqa: N802
                return ast.copy_location(ast.Pass(), n) if id(n) in gone else n

        g = specialise(Drop().visit(g), {k: v.value.value for k, v in consts.items()})
    return g


def _for_kind(func: ast.AST, kind: str):
    """``func`` specialised for constraints of type ``kind`` ("eq"/"ineq"; there are exactly these two types): every
    constraint-type test is replaced by its outcome, boolean locals that became constants are propagated, the
    branches not taken disappear.  Returns (specialised function, its SymValues, its live statements) or None when the
    function does not test the type."""
    from gv.dataflow import SymValues

    tests = _type_tests(func)
    if not tests:
        return None
    g = _specialised(func, {txt: (lab == kind) == is_eq for txt, (lab, is_eq) in tests.items()})
    sv = SymValues(g)
    cfg = sv.cfg
    live = [s_ for s_ in stmts_of(g) if cfg.has(s_) and (cfg.node_of(s_) == cfg.entry or cfg.reachable(cfg.entry, cfg.node_of(s_)))]
    return g, sv, live


def _tolerance_uses(sv, live) -> list[tuple[ast.AST, str, ast.AST, type | None, ast.AST]]:
    """Every place where a value meets a tolerance in the live statements, locals unfolded: (statement, kind of the
    tolerance, the value, comparison operator oriented ``value op tolerance`` or None for ``value - tolerance``, the
    tolerance expression)."""
    out = []
    for s_ in live:
        roots = [s_.test] if isinstance(s_, (ast.If, ast.While)) else ([s_.iter] if isinstance(s_, ast.For) else [s_])
        for root in roots:
            for n in _walk_local_nodes(root):
                pos_part = isinstance(n, ast.Call) and last_attr(n) in ("maximum", "fmax", "max") and len(n.args) == 2 and not n.keywords
                if not (isinstance(n, ast.Compare) or (isinstance(n, ast.BinOp) and isinstance(n.op, ast.Sub)) or pos_part):
                    continue
                for alt in sv.exprs(n):
                    if pos_part:
                        # max(value - tolerance, 0) keeps the components with value > tolerance
                        d_ = [a_ for a_ in alt.args if isinstance(a_, ast.BinOp) and isinstance(a_.op, ast.Sub)] if isinstance(alt, ast.Call) and len(alt.args) == 2 else []
                        z_ = [a_ for a_ in alt.args if const_value(a_, 1) == 0 and not isinstance(const_value(a_, 1), bool)] if d_ else []
                        if len(d_) != 1 or len(z_) != 1:
                            continue
                        l, op, r = d_[0].left, ast.Gt, d_[0].right
                    elif isinstance(alt, ast.Compare):
                        cp = compare_parts(alt)
                        if not cp:
                            continue
                        l, op, r = cp
                        if _tol_kind(l) and not _tol_kind(r):
                            l, op, r = r, _MIRROR.get(op, op), l
                    elif isinstance(alt, ast.BinOp):
                        l, op, r = alt.left, None, alt.right
                    else:
                        continue
                    if _tol_kind(r):
                        out.append((s_, _tol_kind(r), l, op, r))
    return out


def _walk_local_nodes(root: ast.AST):
    """Nodes of a statement or expression, not entering the bodies of compound statements or nested scopes."""
    if isinstance(root, (ast.If, ast.While, ast.For, ast.With, ast.Try, ast.FunctionDef, ast.ClassDef)):
        return
    yield from walk_body(ast.Module(body=[root], type_ignores=[])) if isinstance(root, ast.stmt) else ast.walk(root)


def _has_abs(e: ast.AST) -> bool:
    return any(isinstance(c, ast.Call) and last_attr(c) in _ABS for c in ast.walk(e))


def check_tolerances(ctx: Ctx) -> None:
    other = {"eq": "ineq", "ineq": "eq"}
    # is_constraint_satisfied: the method is specialised for each constraint type (whatever the spelling of the type
    # test: guard, else branch, conditional expression, boolean local) and the value returned is unfolded (locals
    # replaced by their definitions), so that `return all(abs(v) <= tol.eq)` under a guard and
    # `v = abs(v); tol = tol.eq ... return all(v <= tol)` are the same thing
    f = ctx.index.method(CO, "Constraints", "is_constraint_satisfied")
    con = cname(CO, "Constraints", "is_constraint_satisfied")
    ctx.need(_type_tests(f), "is_constraint_satisfied: no test of the constraint type found")
    ctx.need([s for s in stmts_of(f) if isinstance(s, ast.Return)], "is_constraint_satisfied: no return")
    for kind in ("eq", "ineq"):
        g, sv, live = _for_kind(f, kind)
        alts = [(r, x) for r in live if isinstance(r, ast.Return) and r.value is not None for x in sv.exprs(r.value)]
        ok = bool(alts) and not any(isinstance(r, ast.Return) and r.value is None for r in live)
        for r, val in alts:
            cmps = [n for n in ast.walk(val) if isinstance(n, ast.Compare)]
            good = len(cmps) == 1 and compare_parts(cmps[0]) is not None
            if good:
                l, op, rr = compare_parts(cmps[0])
                if _tol_kind(l):
                    l, op, rr = rr, _MIRROR.get(op, op), l
                good = _tol_kind(rr) == kind and op is ast.LtE
                good = good and (_has_abs(l) if kind == "eq" else not _has_abs(l))
                good = good and any(isinstance(c, ast.Call) and last_attr(c) in ("np_all", "all") for c in ast.walk(val))
            ok = ok and good
        ctx.ob("4.4-routing", con, ok, f"the {kind} branch must be all(|value| <= tolerances.equality) resp. all(value <= tolerances.inequality)", node=(alts or [(f, None)])[0][0], stmt=f"{kind} constraints: satisfied iff within the {kind} tolerance", slots={"branch": kind, "returned": [unparse(v)[:160] for _, v in alts]})
    labs = {lab for lab, _ in _type_tests(f).values()}
    ctx.ob("4.4-routing", con, bool(labs), "both constraint types must be handled", node=f, stmt="both types handled")
    # the siblings that measure the violation: for each constraint type, wherever a value meets a tolerance
    # (`value > tolerance`, `value - tolerance`) the tolerance is the one of the type, the value is |value| for
    # equality constraints and the plain value for inequality ones, and a component violates when value > tolerance
    for rel, clsn, meth in ((OH, "OptimizationHistory", "check_design_point_is_feasible"), (CO, "Constraints", "get_number_of_unsatisfied_constraints")):
        g0 = ctx.index.method(rel, clsn, meth)
        con2 = cname(rel, clsn, meth)
        ctx.need(_type_tests(g0), f"{meth}: no test of the constraint type found")
        for kind in ("eq", "ineq"):
            g, sv, live = _for_kind(g0, kind)
            uses = _tolerance_uses(sv, live)
            reads = [(s_, _tol_kind(n)) for s_ in live for n in (ast.walk(s_.test) if isinstance(s_, (ast.If, ast.While)) else _walk_local_nodes(s_)) if _tol_kind(n)]
            anchor = (uses or [(g0,)])[0][0]
            ok = bool(uses) and all(u[1] == kind for u in uses) and all(k == kind for _, k in reads)
            ctx.ob("4.4-routing", con2, ok, f"for {kind} constraints every value must be compared with the {kind} tolerance, not with the {other[kind]} one", node=anchor, stmt=f"{kind} constraints: {kind} tolerance", slots={"uses": [unparse(ast.Compare(left=u[2], ops=[u[3]()], comparators=[u[4]]) if u[3] else ast.BinOp(left=u[2], op=ast.Sub(), right=u[4]))[:160] for u in uses]})
            ok = bool(uses) and all(_has_abs(u[2]) == (kind == "eq") for u in uses)
            ctx.ob("4.4-routing", con2, ok, "the absolute value must be applied to equality constraints only (and to them)", node=anchor, stmt=f"{kind} constraints: " + ("|value| against the tolerance" if kind == "eq" else "plain value against the tolerance"))
            cmps = [u for u in uses if u[3] is not None]
            ok = bool(cmps) and all(u[3] is ast.Gt for u in cmps)
            ctx.ob("4.4-routing", con2, ok, "a component violates its constraint when value > tolerance", node=anchor, stmt=f"{kind} constraints: violation iff value > tolerance")
    cls = ctx.index.cls(CO, "Constraints")
    # is_point_feasible
    g = ctx.index.method(CO, "Constraints", "is_point_feasible")
    con3 = cname(CO, "Constraints", "is_point_feasible")
    calls = rules.self_calls(g, "is_constraint_satisfied")
    ok = len(calls) == 1 and len(calls[0].args) == 2 and (dotted(calls[0].args[0]) or "").endswith(".f_type")
    loops = [s for s in stmts_of(g) if isinstance(s, ast.For)]
    ok = ok and len(loops) == 1 and (dotted(loops[0].iter) or "").endswith("_functions")
    ctx.ob("4.3-filter", con3, ok, "a point is feasible iff every constraint of the collection is satisfied for its own type", node=(calls or [g])[0])
    rets = [s for s in stmts_of(g) if isinstance(s, ast.Return)]
    cfg3 = cfg_of(g)
    false_rets = [r for r in rets if const_value(r.value, 1) is False]
    ok = len(false_rets) == 1
    if ok:
        conds = branch_conditions(cfg3, cfg3.node_of(false_rets[0]))
        tests = [cfg3.ast[t].test for t, v in conds if v and cfg3.kind[t] == "test"]
        ok = any(isinstance(t, ast.BoolOp) and isinstance(t.op, ast.Or) and any(isinstance(x, ast.UnaryOp) and isinstance(x.op, ast.Not) and calls[0] in list(ast.walk(x)) for x in t.values) or (isinstance(t, ast.UnaryOp) and isinstance(t.op, ast.Not) and calls and calls[0] in list(ast.walk(t))) for t in tests)
    ctx.ob("4.3-filter", con3, ok, "is_point_feasible must return False exactly when a constraint is not satisfied (negated test)", node=(false_rets or [g])[0], stmt="return False iff not satisfied")


def check_result(ctx: Ctx) -> None:
    import copy
    import itertools

    from gv.dataflow import SymValues

    f = ctx.index.method(OR, "OptimizationResult", "from_optimization_problem")
    con = cname(OR, "OptimizationResult", "from_optimization_problem")
    sol = ctx.index.cls(OH, "OptimizationHistory.Solution")
    order = [s.target.id for s in sol.node.body if isinstance(s, ast.AnnAssign)]
    wanted = ["objective", "design", "is_feasible", "constraints", "constraint_jacobian"]
    ctx.ob("4.1-result-fields", con, order == wanted, "the Solution tuple must be (objective, design, is_feasible, constraints, constraint_jacobian), the order in which it is unpacked", node=sol.node, stmt="Solution field order", slots={"order": order})
    # the fields of problem.optimum are read by tuple unpacking (position -> field of the Solution named tuple), by
    # attribute or by index, directly or through a local holding the optimum: the unpacking is first re-written field
    # by field (`a, b, ... = opt` -> `a = opt.objective; b = opt.design; ...`), then every value is unfolded down to
    # `problem.optimum.<field>`
    g = copy.deepcopy(f)
    once = _Once(g)
    for parent in ast.walk(g):
        for fld in ("body", "orelse", "finalbody"):
            sts = getattr(parent, fld, None)
            if not isinstance(sts, list):
                continue
            new = []
            for s in sts:
                t = s.targets[0] if isinstance(s, ast.Assign) and len(s.targets) == 1 else None
                if isinstance(t, (ast.Tuple, ast.List)) and len(t.elts) == len(order) and all(isinstance(e, ast.Name) for e in t.elts) and unparse(once.at(s.value, s)) == "problem.optimum":
                    new += [ast.copy_location(ast.Assign(targets=[ast.Name(id=e.id, ctx=ast.Store())], value=ast.Attribute(value=copy.deepcopy(s.value), attr=fld_, ctx=ast.Load())), s) for e, fld_ in zip(t.elts, order)]
                else:
                    new.append(s)
            sts[:] = new
    g = ast.fix_missing_locations(copy.deepcopy(g))  # a fresh tree: the analyses cache by identity

    class Fields(ast.NodeTransformer):
        """problem.optimum[k] -> problem.optimum.<field k>"""

        def visit_Subscript(self, n):  # noqa: N802
            n = self.generic_visit(n)
            k = const_value(n.slice, None)
            if unparse(n.value) == "problem.optimum" and isinstance(k, int) and not isinstance(k, bool) and 0 <= k < len(order):
                return ast.Attribute(value=n.value, attr=order[k], ctx=ast.Load())
            return n

    def field_of(e: ast.AST) -> str:
        return unparse(Fields().visit(copy.deepcopy(e)))

    opt = {w: f"problem.optimum.{w}" for w in wanted}
    # the reported optimum is assumed to exist: the tests `<objective or design of the optimum> is (not) None` are decided
    sv0 = SymValues(g)
    facts0 = {}
    for n in walk_body(g):
        cp = compare_parts(n)
        if cp and cp[1] in (ast.Is, ast.IsNot) and const_value(cp[2], 0) is None and sv0.cfg.has(n):
            alts = {field_of(a_).lstrip("-") for a_ in sv0.exprs(cp[0])}
            if alts and alts <= {opt["objective"], opt["design"]}:
                facts0[norm_stmt(n)] = cp[1] is ast.IsNot
    atoms = ["problem.minimize_objective", "problem.use_standardized_objective"]
    bad: dict[str, object] = {}
    table = {}
    index_ok = True
    n_ctor = set()
    for combo in itertools.product((True, False), repeat=2):
        gk = _specialised(g, {**facts0, **dict(zip(atoms, combo))})
        sv = SymValues(gk)
        oncek = _Once(gk)
        cfgk = sv.cfg
        ctors = []
        for s in stmts_of(gk):
            if not (isinstance(s, ast.Return) and isinstance(s.value, ast.Call) and dotted(s.value.func) == "cls" and cfgk.has(s) and cfgk.reachable(cfgk.entry, cfgk.node_of(s))):
                continue
            # keyword arguments, those passed through a `**{...}` literal (directly or by a local bound once) included
            kw: dict[str, ast.AST] = {}
            for k in s.value.keywords:
                if k.arg is not None:
                    kw[k.arg] = k.value
                    continue
                d = k.value
                if isinstance(d, ast.Name) and d.id in oncek.defs:
                    d = oncek.defs[d.id].value
                if isinstance(d, ast.Dict) and all(isinstance(const_value(x), str) for x in d.keys):
                    kw.update({const_value(x): v for x, v in zip(d.keys, d.values)})
            if "x_opt" in kw:
                ctors.append((s, kw))
        n_ctor.add(len(ctors))
        if len(ctors) != 1:
            continue
        ctor, kw = ctors[0]
        got = {k: sorted({field_of(a_) for a_ in sv.exprs(v)}) for k, v in kw.items() if k in ("x_opt", "f_opt", "is_feasible", "constraint_values", "constraints_grad")}
        want = {"x_opt": opt["design"], "is_feasible": opt["is_feasible"], "constraint_values": opt["constraints"], "constraints_grad": opt["constraint_jacobian"]}
        for k, v in want.items():
            if got.get(k) != [v]:
                bad[k] = got.get(k)
        fo = got.get("f_opt") or []
        if len(fo) != 1 or fo[0].lstrip("-") != opt["objective"] or fo[0].startswith("--"):
            bad["f_opt"] = fo
        table[combo] = fo
        oi = [Fields().visit(a_) for a_ in sv.exprs(kw["optimum_index"])] if "optimum_index" in kw else []
        index_ok = index_ok and len(oi) == 1 and isinstance(oi[0], ast.BinOp) and isinstance(oi[0].op, ast.Sub) and const_value(oi[0].right) == 1 and isinstance(oi[0].left, ast.Call) and last_attr(oi[0].left) == "get_iteration" and len(oi[0].left.args) == 1 and unparse(oi[0].left.args[0]) == opt["design"]
    ctx.need(n_ctor == {1}, "from_optimization_problem: cls(...) construction not found")
    ctor = [s for s in stmts_of(f) if isinstance(s, ast.Return)][-1]
    ctx.ob("4.1-result-fields", con, not bad, f"result fields are not wired to the corresponding fields of the optimum: {bad}", node=ctor, stmt="cls(x_opt=, f_opt=, is_feasible=, constraint_values=, constraints_grad=, optimum_index=)")
    # decided over the four outcomes of (minimize_objective, use_standardized_objective), whatever the spelling of the test
    ok = len(table) == 4 and all(fo == [("-" if (not mn and not sd) else "") + opt["objective"]] for (mn, sd), fo in table.items())
    ctx.ob("4.5-sign", con, ok, "the objective sign is restored iff the problem maximises and the original (non-standardised) objective is reported", node=ctor, stmt="f_opt = -objective iff not minimize_objective and not use_standardized_objective", slots={"f_opt by (minimize, standardized)": {str(k): v for k, v in table.items()}})
    ctx.ob("4.5-index", con, index_ok and len(table) == 4, "optimum_index must be database.get_iteration(x_opt) - 1 for the reported x_opt", node=ctor, stmt="optimum_index = database.get_iteration(<design of the optimum>) - 1")


# ---------------------------------------------------------------------------
# spelling-independent readings shared by the rules below


def _indexed_iter(it: ast.AST, target: ast.AST):
    """(position variable, iterated sequence, element variable or None) of ``for i, e in enumerate(S)`` and of
    ``for i in range(len(S))`` (where the element is spelled ``S[i]``); None for any other iteration."""
    if not (isinstance(it, ast.Call) and not it.keywords and len(it.args) == 1):
        return None
    if dotted(it.func) == "enumerate" and isinstance(target, (ast.Tuple, ast.List)) and len(target.elts) == 2 and all(isinstance(e, ast.Name) for e in target.elts):
        return target.elts[0].id, it.args[0], target.elts[1].id
    a = it.args[0]
    if dotted(it.func) == "range" and isinstance(target, ast.Name) and isinstance(a, ast.Call) and dotted(a.func) == "len" and len(a.args) == 1 and not a.keywords:
        return target.id, a.args[0], None
    return None


def _subst(e: ast.AST, bind: dict[str, ast.AST]) -> ast.AST:
    """Copy of ``e`` with the loaded names of ``bind`` replaced by the bound expressions."""
    import copy

    class R(ast.NodeTransformer):
        def visit_Name(self, n):  # noqa: N802
            if isinstance(n.ctx, ast.Load) and n.id in bind:
                return copy.deepcopy(bind[n.id])
            return n

    return ast.fix_missing_locations(R().visit(copy.deepcopy(e)))


def _strip_not(e: ast.AST) -> tuple[bool, ast.AST]:
    pol = True
    while isinstance(e, ast.UnaryOp) and isinstance(e.op, ast.Not):
        pol, e = not pol, e.operand
    return pol, e


def _enclosing_loops(func: ast.AST, node: ast.AST) -> list[ast.For]:
    """The ``for`` loops of ``func`` whose body contains ``node``, outermost first."""
    return [lp for lp in stmts_of(func) if isinstance(lp, ast.For) and lp is not node and any(sub is node for sub in ast.walk(lp))]


class _Once:
    """Unfolding of the locals of a function that have ONE definition (a plain ``name = expr`` that dominates the use,
    the name being neither a parameter, nor a loop/with/walrus target, nor mutated through a method): such a local
    stands for its defining expression wherever it is read.  Locals in ``keep`` and all others stay as names.  Unlike
    ``SymValues`` this has no alternatives to enumerate, so it does not give up on long chains of locals."""

    def __init__(self, func: ast.AST, keep=()):
        from gv.dataflow import _MUTATORS

        self.func, self.cfg, self.keep = func, cfg_of(func), set(keep)
        stores: dict[str, int] = {}
        a_ = func.args
        for p_ in [*a_.posonlyargs, *a_.args, *a_.kwonlyargs, *([a_.vararg] if a_.vararg else []), *([a_.kwarg] if a_.kwarg else [])]:
            stores[p_.arg] = 1
        for n in walk_body(func):
            if isinstance(n, ast.Name) and isinstance(n.ctx, (ast.Store, ast.Del)):
                stores[n.id] = stores.get(n.id, 0) + 1
            elif isinstance(n, (ast.FunctionDef, ast.ClassDef)):
                stores[n.name] = stores.get(n.name, 0) + 2
            elif isinstance(n, ast.Call) and isinstance(n.func, ast.Attribute) and n.func.attr in _MUTATORS and isinstance(n.func.value, ast.Name):
                stores[n.func.value.id] = stores.get(n.func.value.id, 0) + 2
            elif isinstance(n, (ast.ListComp, ast.SetComp, ast.DictComp, ast.GeneratorExp)):
                for g in n.generators:
                    for t in ast.walk(g.target):
                        if isinstance(t, ast.Name):
                            stores[t.id] = stores.get(t.id, 0) + 2  # a name also used as a comprehension variable is left alone
        self.stores = stores
        self.defs = {}
        for s in stmts_of(func):
            if isinstance(s, ast.Assign) and len(s.targets) == 1 and isinstance(s.targets[0], ast.Name) and stores.get(s.targets[0].id) == 1 and self.cfg.has(s):
                self.defs[s.targets[0].id] = s

    def at(self, e: ast.AST, stmt: ast.AST, _depth: int = 0) -> ast.AST:
        """``e`` (read by the statement ``stmt``) with the single-definition locals replaced by their definitions."""
        if _depth > 12 or not self.cfg.has(stmt):
            return e
        n_use = self.cfg.node_of(stmt)
        bind = {}
        for n in ast.walk(e):
            if isinstance(n, ast.Name) and isinstance(n.ctx, ast.Load) and n.id in self.defs and n.id not in self.keep and n.id not in bind:
                d = self.defs[n.id]
                n_def = self.cfg.node_of(d)
                if d is not stmt and n_def != n_use and self.cfg.dominates(n_def, n_use):
                    bind[n.id] = self.at(d.value, d, _depth + 1)
        return _subst(e, bind) if bind else e


def _quantifiers(e: ast.AST, helpers: dict[str, ast.AST]) -> tuple[list[tuple[str, object]], ast.AST]:
    """``all``/``any`` reductions wrapped around an expression, outermost first, with their axis, and the expression
    they reduce: ``np_all(np_any(c, axis=1))``, ``np_any(c, 1).all()``, ``h(c)`` with ``h = lambda a: np_all(np_any(a, axis=1))``
    (local lambda, applied lambda or single-return function given in ``helpers``) all read [("all", None), ("any", 1)], c."""
    chain: list[tuple[str, object]] = []
    for _ in range(12):
        if not isinstance(e, ast.Call):
            break
        fn = e.func
        lam = fn if isinstance(fn, ast.Lambda) else (helpers.get(fn.id) if isinstance(fn, ast.Name) else None)
        if lam is not None:
            a_ = lam.args
            params = [p_.arg for p_ in a_.args]
            if e.keywords or len(e.args) != len(params) or a_.vararg or a_.kwarg or a_.kwonlyargs or any(isinstance(x, ast.Starred) for x in e.args):
                break
            body = lam.body if isinstance(lam, ast.Lambda) else None
            if body is None:
                # a function whose body is straight-line: fresh locals, each assigned once, then one return
                sts = [b for b in lam.body if not (isinstance(b, ast.Expr) and isinstance(b.value, ast.Constant))]
                loc: dict[str, ast.AST] = {}
                for b in sts[:-1]:
                    if not (isinstance(b, ast.Assign) and len(b.targets) == 1 and isinstance(b.targets[0], ast.Name) and b.targets[0].id not in loc and b.targets[0].id not in params):
                        sts = []
                        break
                    loc[b.targets[0].id] = _subst(b.value, loc)
                if not sts or not isinstance(sts[-1], ast.Return) or sts[-1].value is None:
                    break
                body = _subst(sts[-1].value, loc)
            e = _subst(body, dict(zip(params, e.args)))
            continue
        name = last_attr(e)
        q = "all" if name in ("np_all", "all") else ("any" if name in ("np_any", "any") else None)
        if q is None:
            break
        as_function = isinstance(fn, ast.Name) or (isinstance(fn, ast.Attribute) and dotted(fn.value) in ("np", "numpy"))
        if as_function and e.args:
            arg, rest = e.args[0], e.args[1:]
        elif not as_function and isinstance(fn, ast.Attribute):
            arg, rest = fn.value, e.args
        else:
            break
        if len(rest) > 1 or any(k.arg != "axis" for k in e.keywords) or (rest and e.keywords):
            break
        ax = rest[0] if rest else (e.keywords[0].value if e.keywords else None)
        if ax is None:
            axis = None
        elif isinstance(ax, ast.UnaryOp) and isinstance(ax.op, ast.USub) and isinstance(const_value(ax.operand), int):
            axis = -const_value(ax.operand)
        else:
            axis = const_value(ax, "?")
        chain.append((q, axis))
        e = arg
    return chain, e


def _position_test(form, conds) -> tuple[str, bool] | None:
    """(text of S, polarity) when the single condition ``conds`` = [(test, outcome)] is the truth of ``S[i]`` for the
    indexed iteration ``form`` = (i, S, element variable or None)."""
    pos, seq, elem = form
    if len(conds) != 1:
        return None
    pol, atom = _strip_not(conds[0][0])
    if not conds[0][1]:
        pol = not pol
    own = ast.Subscript(value=seq, slice=ast.Name(id=pos, ctx=ast.Load()), ctx=ast.Load())
    if unparse(_subst(atom, {elem: own}) if elem else atom) != unparse(own):
        return None
    return unparse(seq), pol


def _position_comp(e: ast.AST) -> tuple[str, bool] | None:
    """``[i for i, p in enumerate(S) if p]`` -> (text of S, True); ``... if not p`` -> (text of S, False)."""
    if not (isinstance(e, ast.ListComp) and len(e.generators) == 1):
        return None
    g = e.generators[0]
    form = _indexed_iter(g.iter, g.target)
    if form is None or dotted(e.elt) != form[0]:
        return None
    return _position_test(form, [(t, True) for t in g.ifs])


def _position_lists(func: ast.AST) -> dict[str, tuple[str, bool]]:
    """The lists that collect, in order, the positions ``i`` of a sequence ``S`` at which ``S[i]`` is true (resp. false):
    {list: (text of S, polarity)}.  ``[i for i, p in enumerate(S) if p]``, the loop ``for i, p in enumerate(S): if p:
    xs.append(i)`` (whatever else the loop does) and the ``range(len(S))`` forms are the same list."""
    from gv.props.shared import accumulated_lists

    cfg = cfg_of(func)
    recs = accumulated_lists(func)
    out: dict[str, tuple[str, bool]] = {}
    for rec in recs:
        if sum(1 for r in recs if r["name"] == rec["name"]) != 1:
            continue
        if isinstance(rec["node"], ast.Assign):
            got = _position_comp(rec["node"].value)
        else:
            form = _indexed_iter(rec["iter"], rec["target"])
            lps = _enclosing_loops(func, rec["node"])
            if form is None or not lps or not cfg.has(rec["node"]):
                continue
            lp = lps[-1]
            conds = [(cfg.ast[t].test, v) for t, v in branch_conditions(cfg, cfg.node_of(rec["node"])) if cfg.kind[t] == "test" and cfg.ast[t] is not lp and any(sub is cfg.ast[t] for sub in ast.walk(lp))]
            # the list must start empty and collect the position itself
            starts = [s for s in stmts_of(func) if isinstance(s, ast.Assign) and any(dotted(t) == rec["name"] for t in s.targets)]
            if len(starts) != 1 or not (isinstance(starts[0].value, ast.List) and not starts[0].value.elts):
                continue
            if not (isinstance(rec["node"], ast.Call) and dotted(rec["node"].args[0]) == form[0]):
                continue
            got = _position_test(form, conds)
        if got:
            out[rec["name"]] = got
    return out


def check_pareto(ctx: Ctx) -> None:
    f = ctx.index.func(PU, "compute_pareto_optimal_points")
    con = cname(PU, None, "compute_pareto_optimal_points")
    cfg = cfg_of(f)
    ctx.need(len(f.args.args) >= 2, "compute_pareto_optimal_points: (objective values, feasibility mask) parameters not found")
    values, mask = f.args.args[0].arg, f.args.args[1].arg
    rets = [s for s in stmts_of(f) if isinstance(s, ast.Return)]
    ctx.need(len(rets) == 1 and isinstance(rets[0].value, ast.Name), "compute_pareto_optimal_points: the returned mask was not found")
    result = rets[0].value.id
    # helpers the verdict may go through: module-level single-return functions (local lambdas are unfolded with the locals)
    helpers = dict(ctx.index.module(PU).functions)
    helpers.update({s.name: s for s in f.body if isinstance(s, ast.FunctionDef)})
    helpers.update({s.targets[0].id: s.value for s in f.body if isinstance(s, ast.Assign) and isinstance(s.value, ast.Lambda) and len(s.targets) == 1 and isinstance(s.targets[0], ast.Name)})
    plists = _position_lists(f)
    # the verdict of a feasible point: the store into the result mask, inside a loop, of a computed value
    writes = [s for s in stmts_of(f) if isinstance(s, ast.Assign) and len(s.targets) == 1 and isinstance(s.targets[0], ast.Subscript) and dotted(s.targets[0].value) == result]
    verdicts = [s for s in writes if not isinstance(s.value, ast.Constant) and _enclosing_loops(f, s)]
    marks = [s for s in writes if isinstance(s.value, ast.Constant)]
    ctx.need(len(verdicts) == 1, "compute_pareto_optimal_points: the store of a feasible point's verdict was not found")
    verdict = verdicts[0]
    main = _enclosing_loops(f, verdict)[-1]
    form = _indexed_iter(main.iter, main.target)
    if form is None or not isinstance(form[1], ast.Name):
        ctx.ob("4.6-filter", con, False, "the dominance pass must go through the collected feasible points with their position (enumerate / range(len))", node=main, stmt="filter pass then dominance pass")
        return
    iv, seq, elem = form
    feas = seq.id
    ok = plists.get(feas) == (mask, True)
    ctx.ob("4.6-filter", con, ok, "the Pareto filter must first go through all the points (infeasible ones are marked non-optimal, feasible ones collected), then compare the feasible ones: the list the dominance pass iterates is not the list of the positions of the feasible points", node=main, stmt="filter pass then dominance pass")
    own = ast.Subscript(value=ast.Name(id=feas, ctx=ast.Load()), slice=ast.Name(id=iv, ctx=ast.Load()), ctx=ast.Load())

    once = _Once(f, keep={values, mask, result, feas})

    def canon(e: ast.AST, stmt: ast.AST) -> ast.AST:
        """``e`` with the single-definition locals unfolded and the loop element written ``feas[i]``."""
        e = once.at(e, stmt)
        return _subst(e, {elem: own}) if elem else e

    filtered = {f"{values}[{feas}, :]", f"{values}[{feas}]"}
    own_t = unparse(own)
    candidates = {f"{values}[{own_t}]", f"{values}[{own_t}, :]"} | {f"{v}[{iv}]" for v in filtered} | {f"{v}[{iv}, :]" for v in filtered}
    val = canon(verdict.value, verdict)
    parts = val.values if isinstance(val, ast.BoolOp) else [val]
    ok_q = isinstance(val, ast.BoolOp) and isinstance(val.op, ast.And) and len(parts) == 2
    cmps = []
    for p_ in parts:
        chain, core = _quantifiers(p_, helpers)
        ok_q = ok_q and len(chain) == 2 and chain[0][0] == "all" and chain[0][1] in (None, 0) and chain[1][0] == "any" and chain[1][1] in (1, -1) and isinstance(core, ast.Compare)
        cmps += [core] if isinstance(core, ast.Compare) else [c for c in ast.walk(core) if isinstance(c, ast.Compare)]
    ctx.ob("4.6-quantifiers", con, ok_q, "a point is non-dominated iff every other point is worse in at least one objective: all over points of any over objectives (axis=1), for the points before and for the points after", node=verdict, stmt="all over points of any over objectives", slots={"value": unparse(val)[:200]})
    ok = unparse(canon(verdict.targets[0].slice, verdict)) == own_t
    ctx.ob("4.6-quantifiers", con, ok, "the verdict of a feasible point is (before are worse) and (after are worse), stored at the point's own index", node=verdict)
    ctx.need(len(cmps) == 2 and all(compare_parts(c) for c in cmps), "compute_pareto_optimal_points: the two dominance comparisons were not found")
    sl = []
    for c in cmps:
        l, op, r = compare_parts(c)
        # the candidate is the side that is one row; the others are a slice of rows
        if isinstance(l, ast.Subscript) and isinstance(l.slice, ast.Slice):
            other, cand, op_ok = l, r, op is ast.Gt
        else:
            other, cand, op_ok = r, l, op is ast.Lt
        ctx.ob("4.6-polarity", con, op_ok, "others must be compared `others > candidate` (strictly worse somewhere): with < dominated points are reported, with >= duplicates dominate each other differently", node=verdict, stmt=norm_stmt(c, 100))
        ok = isinstance(other, ast.Subscript) and isinstance(other.slice, ast.Slice) and unparse(other.value) in filtered
        ctx.ob("4.6-feasible-only", con, ok, "dominance must be tested against feasible points only", node=verdict, stmt=f"{norm_stmt(c, 60)} against the filtered values")
        if isinstance(other, ast.Subscript):
            sl.append(unparse(other.slice))
        ctx.ob("4.6-others", con, unparse(cand) in candidates, "the candidate must be the objective vector of the feasible point whose verdict is stored", node=verdict, stmt=f"candidate of {norm_stmt(c, 60)}")
    ctx.ob("4.6-others", con, sorted(sl) == sorted([f":{iv}", f"{iv} + 1:"]), "the candidate must be compared with all other feasible points (before and after it), not with itself", node=main, slots={"slices": sorted(sl)})
    # infeasible points set False: at their own position in a pass over the mask, or all at once through the list of
    # their positions
    ok = len(marks) == 1 and marks[0].value.value is False
    if ok:
        m = marks[0]
        lps = _enclosing_loops(f, m)
        if lps:
            fm = _indexed_iter(lps[-1].iter, lps[-1].target)
            conds = [(cfg.ast[t].test, v) for t, v in branch_conditions(cfg, cfg.node_of(m)) if cfg.kind[t] == "test" and cfg.ast[t] is not lps[-1]]
            ok = fm is not None and unparse(fm[1]) == mask and dotted(m.targets[0].slice) == fm[0] and len(conds) == 1
            if ok:
                pol, atom = _strip_not(conds[0][0])
                pol = pol if conds[0][1] else not pol
                at = ast.Subscript(value=fm[1], slice=ast.Name(id=fm[0], ctx=ast.Load()), ctx=ast.Load())
                ok = pol is False and unparse(_subst(atom, {fm[2]: at}) if fm[2] else atom) == unparse(at)
        else:
            ok = (plists.get(dotted(m.targets[0].slice) or "") or _position_comp(m.targets[0].slice)) == (mask, False) and cfg.dominates(cfg.node_of(m), cfg.node_of(rets[0]))
    ctx.ob("4.6-feasible-only", con, ok, "infeasible points must be marked non-optimal", node=(marks or [main])[0], stmt="infeasible -> False")


def check_pareto_history(ctx: Ctx) -> None:
    """4.7: the Pareto front reported for a multi-objective history is selected on the objectives AS RECORDED (the
    history holds the standardised objective, to be minimised): the rows handed to the non-dominated filter are the
    recorded values of each point, with that point's own feasibility, and the selection is applied alike to objectives
    and designs.  A sign or scale applied before the filter selects the worst points."""
    rel = "algos/pareto/pareto_front.py"
    f = ctx.index.method(rel, "ParetoFront", "__get_optima")
    con = cname(rel, "ParetoFront", "__get_optima")
    calls_ = [c for c in walk_body(f) if isinstance(c, ast.Call) and last_attr(c) == "compute_pareto_optimal_points"]
    ctx.need(len(calls_) == 1 and len(calls_[0].args) >= 1, "ParetoFront.__get_optima: the call of compute_pareto_optimal_points was not found")
    objs = dotted(calls_[0].args[0])
    feas = dotted(arg_or_kw(calls_[0], 1, "feasible_points"))
    ctx.need(objs is not None and feas is not None, "ParetoFront.__get_optima: the histories handed to the filter are not plain locals")
    loops = [lp for lp in stmts_of(f) if isinstance(lp, ast.For) and "database" in norm_stmt(lp.iter)]
    ctx.need(len(loops) == 1, "ParetoFront.__get_optima: the loop over the database was not found")
    lp = loops[0]
    n_o = n_f = 0
    for st in [s_ for s_ in ast.walk(lp) if isinstance(s_, ast.Assign) and isinstance(s_.targets[0], ast.Subscript)]:
        holder = dotted(st.targets[0].value)
        if holder not in (objs, feas):
            continue
        for v in unfolded(f, st, get=lambda s_: s_.value) or [st.value]:
            core = v
            while isinstance(core, ast.Call) and (dotted(core.func) or "").split(".")[-1] in ("array", "asarray", "atleast_1d", "float") and len(core.args) == 1:
                core = core.args[0]
            if holder == objs:
                n_o += 1
                nan = (isinstance(core, ast.Constant) and isinstance(core.value, str) and core.value.lower() == "nan") or (dotted(core) or "").split(".")[-1].lower() == "nan"
                rec = isinstance(core, ast.Subscript) and "objective.name" in norm_stmt(core.slice)
                ctx.ob("4.7-pareto-history", con, nan or rec, f"the objectives handed to the non-dominated filter must be the recorded ones, untouched (found `{norm_stmt(v, 80)}`): the history holds the objective to be minimised, a sign or scale applied here selects dominated points", node=st, stmt=f"{objs}[i] = the recorded objective of point i")
            else:
                n_f += 1
                ok = (isinstance(core, ast.Constant) and core.value in (False, 0, 0.0)) or (isinstance(core, ast.Call) and last_attr(core) == "is_point_feasible")
                ctx.ob("4.7-pareto-history", con, ok, f"the feasibility handed to the filter is that of the point itself (found `{norm_stmt(v, 80)}`)", node=st, stmt=f"{feas}[i] = feasibility of point i")
    ctx.need(n_o >= 1 and n_f >= 1, "ParetoFront.__get_optima: the rows of the histories were not found")
    rets = [r for r in stmts_of(f) if isinstance(r, ast.Return) and isinstance(r.value, ast.Tuple) and len(r.value.elts) == 2]
    ok = len(rets) == 1 and all(isinstance(e_, ast.Subscript) for e_ in rets[0].value.elts) and len({norm_stmt(e_.slice) for e_ in rets[0].value.elts}) == 1 and dotted(rets[0].value.elts[0].value) == objs
    alts_ = (unfolded(f, rets[0], get=lambda r_: r_.value.elts[0].slice) or []) if ok else []
    sel_ok = ok and bool(alts_) and all(isinstance(a_, ast.Call) and last_attr(a_) == "compute_pareto_optimal_points" for a_ in alts_)
    ctx.ob("4.7-pareto-history", con, bool(sel_ok), "objectives and designs of the front are both selected with the result of the filter", node=(rets or [f])[0], stmt="same selection for objectives and designs")


def check_one_tolerances_object(ctx: Ctx) -> None:
    """4.8 the tolerances the problem exposes are the ones its constraints (and so its history) decide feasibility
    with: ONE object, created by the problem's constructor, handed to the constraints, edited in place ever after.
    Binding a new object to the problem (a reload that "validates" the saved values, a setter) leaves the constraints
    with the old one: the reported optimum is then selected under tolerances nobody asked for."""
    OPB = "algos/optimization_problem.py"
    cls = ctx.index.cls(OPB, "OptimizationProblem")
    mangled = ("__tolerances", "_OptimizationProblem__tolerances")
    binds = []
    for mname, m in sorted(cls.methods.items()):
        for st in walk_body(m):
            tgts = st.targets if isinstance(st, ast.Assign) else [st.target] if isinstance(st, (ast.AnnAssign, ast.AugAssign)) else []
            for t in tgts:
                for sub in ast.walk(t):
                    if isinstance(sub, ast.Attribute) and sub.attr in mangled and isinstance(sub.ctx, ast.Store):
                        binds.append((mname, st))
    init_binds = [b for b in binds if b[0] == "__init__"]
    others = [b for b in binds if b[0] != "__init__"]
    con = cname(OPB, "OptimizationProblem", (others or init_binds or [("__init__", None)])[0][0])
    ctx.ob("4.8-one-tolerances-object", con, len(init_binds) == 1 and not others, "the tolerances object of a problem is bound once, in the constructor; " + (f"`{norm_stmt(others[0][1], 70)}` in {others[0][0]} binds another one, which the constraints (created with the first) never see" if others else "exactly one binding expected in __init__"), node=(others or init_binds or [(None, cls.node)])[0][1], stmt="__tolerances bound only in __init__")
    # ... and it is the object the constraints are created with
    init = cls.methods["__init__"]
    ctor = [c for c in walk_body(init) if isinstance(c, ast.Call) and dotted(c.func) == "Constraints"]
    # directly or through the read-only property that returns it
    prop = cls.methods.get("tolerances")
    prets = [s_ for s_ in stmts_of(prop) if isinstance(s_, ast.Return) and s_.value is not None] if prop is not None else []
    through = {"tolerances"} if len(prets) == 1 and isinstance(prets[0].value, ast.Attribute) and prets[0].value.attr in mangled and dotted(prets[0].value.value) == "self" else set()
    ok = len(ctor) == 1 and any(isinstance(a, ast.Attribute) and (a.attr in mangled or a.attr in through) and dotted(a.value) == "self" for a in [*ctor[0].args, *[k.value for k in ctor[0].keywords]])
    if ok and init_binds:
        icfg = cfg_of(init)
        ok = icfg.dominates(icfg.node_of(init_binds[0][1]), icfg.node_of(ctor[0]))
    ctx.ob("4.8-one-tolerances-object", cname(OPB, "OptimizationProblem", "__init__"), bool(ok), "the constraints are created with the problem's own tolerances object (self.__tolerances, bound before)", node=(ctor or [init])[0], stmt="Constraints(design_space, self.__tolerances)")
    # no setter for the public name
    setters = [m for n_, m in cls.methods.items() if n_ == "tolerances" and any(isinstance(d, ast.Attribute) and d.attr == "setter" for d in m.decorator_list)]
    has_setter = bool(setters) or any(isinstance(st, ast.FunctionDef) and st.name == "tolerances" and any(isinstance(d, ast.Attribute) and d.attr == "setter" for d in st.decorator_list) for st in cls.node.body)
    ctx.ob("4.8-one-tolerances-object", cname(OPB, "OptimizationProblem", "tolerances"), not has_setter, "`tolerances` is read-only: the object is shared with the constraints and must be edited in place", node=cls.node, stmt="no setter for tolerances")


def run(ctx: Ctx) -> None:
    check_pareto_history(ctx)
    check_optimum(ctx)
    check_best_infeasible(ctx)
    check_feasible_points(ctx)
    check_tolerances(ctx)
    check_one_tolerances_object(ctx)
    check_result(ctx)
    check_pareto(ctx)
    # last_point: all fields from one x_last
    f = ctx.index.method(OH, "OptimizationHistory", "last_point")
    con = cname(OH, "OptimizationHistory", "last_point")
    xl = [s for s in stmts_of(f) if isinstance(s, ast.Assign) and isinstance(s.value, ast.Call) and last_attr(s.value) == "get_x_vect"]
    ok = len(xl) == 1 and const_value(xl[0].value.args[0].operand if isinstance(xl[0].value.args[0], ast.UnaryOp) else None) == 1
    ctx.ob("4.1-last-point", con, ok, "the last point is database.get_x_vect(-1)", node=(xl or [f])[0])
    if ok:
        x = dotted(xl[0].targets[0])
        out = [s for s in stmts_of(f) if isinstance(s, ast.Assign) and isinstance(s.value, ast.Subscript) and dotted(s.value.slice) == x]
        ok2 = len(out) == 1
        o = dotted(out[0].targets[0]) if ok2 else None
        ret = [s for s in stmts_of(f) if isinstance(s, ast.Return)][0]
        args = ret.value.args
        ok2 = ok2 and dotted(args[1]) == x
        deps = []
        for a in args[2:]:
            d = [s for s in stmts_of(f) if isinstance(s, ast.Assign) and dotted(s.targets[0]) == dotted(a)]
            deps.append(bool(d) and o in names_in(d[0].value))
        ctx.ob("4.1-last-point", con, ok2 and all(deps), "feasibility and constraint values of the last point must be read from the last record", node=ret)
    ctx.floor("4.1-same-record", 6)
    ctx.floor("4.4-routing", 9)
    ctx.floor("4.6-polarity", 2)


# ---------------------------------------------------------------------------
WITNESSES = [
    {"name": "seeded-C04-11", "file": "algos/optimization_problem.py", "old": "            group = get_hdf5_group(h5file, problem._OPT_DESCR_GROUP)\n            for attr_name, attr in group.items():\n                val = attr[()]\n                if isinstance(val, ndarray) and isinstance(val[0], bytes_):\n                    val = val[0].decode()\n\n                if attr_name == \"ineq_tolerance\":\n                    problem.tolerances.inequality = val\n                    continue\n\n                if attr_name == \"eq_tolerance\":\n                    problem.tolerances.equality = val\n                    continue\n\n                if attr_name == \"minimize_objective\":\n                    attr_name = \"_OptimizationProblem__minimize_objective\"\n\n                if attr_name == \"is_linear\":\n                    attr_name = \"_OptimizationProblem__is_linear\"\n\n                if attr_name == \"pb_type\":\n                    attr_name = \"_OptimizationProblem__is_linear\"\n                    val = val == \"linear\"\n\n                setattr(problem, attr_name, val)\n\n", "new": "            group = get_hdf5_group(h5file, problem._OPT_DESCR_GROUP)\n            tolerances = {}\n            for attr_name, attr in group.items():\n                val = attr[()]\n                if isinstance(val, ndarray) and isinstance(val[0], bytes_):\n                    val = val[0].decode()\n\n                if attr_name == \"ineq_tolerance\":\n                    tolerances[\"inequality\"] = val\n                    continue\n\n                if attr_name == \"eq_tolerance\":\n                    tolerances[\"equality\"] = val\n                    continue\n\n                if attr_name == \"minimize_objective\":\n                    attr_name = \"_OptimizationProblem__minimize_objective\"\n\n                if attr_name == \"is_linear\":\n                    attr_name = \"_OptimizationProblem__is_linear\"\n\n                if attr_name == \"pb_type\":\n                    attr_name = \"_OptimizationProblem__is_linear\"\n                    val = val == \"linear\"\n\n                setattr(problem, attr_name, val)\n\n            # Validate the tolerances read from the file.\n            problem.__tolerances = ConstraintTolerances(**tolerances)\n\n", "expect": "4.8", "note": "OptimizationProblem.from_hdf rebinds problem.tolerances to a new ConstraintToler"},
    {"name": "reload-binds-new-tolerances", "file": "algos/optimization_problem.py", "old": "        self.__tolerances = ConstraintTolerances()\n", "new": "        self.__tolerances = ConstraintTolerances()\n        self.__tolerances = ConstraintTolerances()\n", "expect": "4.8"},
    {"name": "constraints-get-their-own-tolerances", "file": "algos/optimization_problem.py", "old": "        self.__constraints = Constraints(design_space, self.tolerances)", "new": "        self.__constraints = Constraints(design_space, ConstraintTolerances())", "expect": "4.8"},
    {"name": "seeded-C04-10", "file": "algos/pareto/pareto_front.py", "old": "        feasibility = zeros(n_iter)\n\n        for iteration, item in enumerate(problem.database.items()):\n            x_vect, out_val = item\n            dv_history[iteration] = x_vect.unwrap()\n            if problem.objective.name in out_val:\n                obj_history[iteration] = array(out_val[problem.objective.name])\n                feasibility[iteration] = problem.constraints.is_point_feasible(out_val)\n", "new": "        feasibility = zeros(n_iter)\n        # Report the objectives with their original sign when requested.\n        if problem.minimize_objective or problem.use_standardized_objective:\n            sign = 1.0\n        else:\n            sign = -1.0\n\n        for iteration, item in enumerate(problem.database.items()):\n            x_vect, out_val = item\n            dv_history[iteration] = x_vect.unwrap()\n            if problem.objective.name in out_val:\n                obj_history[iteration] = sign * array(out_val[problem.objective.name])\n                feasibility[iteration] = problem.constraints.is_point_feasible(out_val)\n", "expect": "4.7", "note": "ParetoFront restores the original objective sign before the non-dominated filter"},
    {"name": "seeded-C04-9", "file": "algos/optimization_history.py", "old": "        c_opt = {}\n        c_opt_grad = {}\n        obj_name = self.objective_name\n        for i, output_values in enumerate(feas_f):\n            obj_value = output_values.get(obj_name)\n            if obj_value is None:\n                continue\n\n            if not isinstance(obj_value, Real) and obj_value.size > 1:\n                obj_value = norm(obj_value)\n\n            if obj_value < f_opt:\n                f_opt = obj_value\n                x_opt = feas_x[i]\n                for constraint in constraints:\n                    c_name = constraint.name\n                    c_opt[c_name] = output_values.get(c_name)\n                    c_key = Database.get_gradient_name(c_name)\n                    c_opt_grad[constraint.name] = output_values.get(c_key)\n\n", "new": "        c_opt = {}\n        c_opt_grad = dict.fromkeys(constraints.get_names())\n        obj_name = self.objective_name\n        for i, output_values in enumerate(feas_f):\n            obj_value = output_values.get(obj_name)\n            if obj_value is None:\n                continue\n\n            if not isinstance(obj_value, Real) and obj_value.size > 1:\n                obj_value = norm(obj_value)\n\n            if obj_value < f_opt:\n                f_opt = obj_value\n                x_opt = feas_x[i]\n                for constraint in constraints:\n                    c_name = constraint.name\n                    c_opt[c_name] = output_values.get(c_name)\n                    c_key = Database.get_gradient_name(c_name)\n                    if c_key in output_values:\n                        c_opt_grad[c_name] = output_values[c_key]\n\n", "expect": "4.1", "note": "optimum keeps a stale constraint gradient when the best feasible point has none "},
    {"name": "x_opt-outside-selection", "file": OH, "old": "            if obj_value < f_opt:\n                f_opt = obj_value\n                x_opt = feas_x[i]\n", "new": "            x_opt = feas_x[i]\n            if obj_value < f_opt:\n                f_opt = obj_value\n", "expect": "4.1"},
    {"name": "selection-greater", "file": OH, "old": "            if obj_value < f_opt:", "new": "            if obj_value > f_opt:", "expect": "4.2"},
    {"name": "incumbent-zero", "file": OH, "old": "        f_opt, x_opt = inf, array([])", "new": "        f_opt, x_opt = 0.0, array([])", "expect": "4.2"},
    {"name": "x_opt-other-index", "file": OH, "old": "                x_opt = feas_x[i]", "new": "                x_opt = feas_x[i - 1]", "expect": "4.1"},
    {"name": "constraints-from-last-record", "file": OH, "old": "                    c_opt[c_name] = output_values.get(c_name)", "new": "                    c_opt[c_name] = feas_f[-1].get(c_name)", "expect": "4.1"},
    {"name": "true-flag-on-infeasible-path", "file": OH, "old": "            return self.Solution(f_opt, x_opt, False, c_opt, c_opt_grad)", "new": "            return self.Solution(f_opt, x_opt, True, c_opt, c_opt_grad)", "expect": "4."},
    {"name": "argmax-violation", "file": OH, "old": "best_i = int(argmin(array(viol_criteria)))", "new": "best_i = int(argmax(array(viol_criteria)))", "expect": "4.2"},
    {"name": "best-x-other-index", "file": OH, "old": "return x_history[best_i], f_opt, is_feasible[best_i], outputs_opt", "new": "return x_history[-1], f_opt, is_feasible[best_i], outputs_opt", "expect": "4.1"},
    {"name": "conditional-append", "file": OH, "old": "            x_history.append(x_vect.unwrap())\n            f_history.append(out_val)\n\n        best_i", "new": "            if out_val:\n                x_history.append(x_vect.unwrap())\n            f_history.append(out_val)\n\n        best_i", "expect": "4.1"},
    {"name": "feasible-filter-negated", "file": OH, "old": "            if self.__constraints.is_point_feasible(output_values):", "new": "            if not self.__constraints.is_point_feasible(output_values):", "expect": "4.3"},
    {"name": "swap-tolerances", "file": CO, "old": "            return np_all(np_abs(constraint_value) <= self.__tolerances.equality)\n\n        return np_all(constraint_value <= self.__tolerances.inequality)", "new": "            return np_all(np_abs(constraint_value) <= self.__tolerances.inequality)\n\n        return np_all(constraint_value <= self.__tolerances.equality)", "expect": "4.4"},
    {"name": "drop-abs", "file": CO, "old": "np_all(np_abs(constraint_value) <= self.__tolerances.equality)", "new": "np_all(constraint_value <= self.__tolerances.equality)", "expect": "4.4"},
    {"name": "strict-satisfaction", "file": CO, "old": "np_all(constraint_value <= self.__tolerances.inequality)", "new": "np_all(constraint_value < self.__tolerances.inequality)", "expect": "4.4"},
    {"name": "violation-swapped-tolerance", "file": OH, "old": "            if f_type == MDOFunction.ConstraintType.INEQ:\n                tolerance = constraints.tolerances.inequality\n            else:\n                tolerance = constraints.tolerances.equality", "new": "            if f_type == MDOFunction.ConstraintType.INEQ:\n                tolerance = constraints.tolerances.equality\n            else:\n                tolerance = constraints.tolerances.inequality", "expect": "4.4"},
    {"name": "unsatisfied-abs-for-ineq", "file": CO, "old": "            if constraint.f_type == MDOFunction.ConstraintType.EQ:\n                value = absolute(value)\n                tolerance = self.__tolerances.equality\n            else:\n                tolerance = self.__tolerances.inequality", "new": "            value = absolute(value)\n            if constraint.f_type == MDOFunction.ConstraintType.EQ:\n                tolerance = self.__tolerances.equality\n            else:\n                tolerance = self.__tolerances.inequality", "expect": "4.4"},
    {"name": "point-feasible-ignores-type", "file": CO, "old": "            if constraint_value is None or not self.is_constraint_satisfied(\n                constraint.f_type, constraint_value\n            ):", "new": "            if constraint_value is None or self.is_constraint_satisfied(\n                constraint.f_type, constraint_value\n            ):", "expect": "4.3"},
    {"name": "negate-unconditionally", "file": OR, "old": "            f_opt is not None\n            and not problem.minimize_objective\n            and not problem.use_standardized_objective\n        ):", "new": "            f_opt is not None\n            and not problem.minimize_objective\n        ):", "expect": "4.5"},
    {"name": "negate-when-minimising", "file": OR, "old": "            and not problem.minimize_objective\n", "new": "            and problem.minimize_objective\n", "expect": "4.5"},
    {"name": "optimum-index-off-by-one", "file": OR, "old": "optimum_index = problem.database.get_iteration(x_opt) - 1", "new": "optimum_index = problem.database.get_iteration(x_opt)", "expect": "4.5"},
    {"name": "result-fields-swapped", "file": OR, "old": "            constraint_values=c_opt,\n            constraints_grad=c_opt_grad,", "new": "            constraint_values=c_opt_grad,\n            constraints_grad=c_opt,", "expect": "4.1"},
    {"name": "pareto-less-than", "file": PU, "old": "before_are_worse = any_ax1_all(obj_values_filtered[:i] > obj)", "new": "before_are_worse = any_ax1_all(obj_values_filtered[:i] < obj)", "expect": "4.6"},
    {"name": "pareto-all-any-swapped", "file": PU, "old": "        return np_all(np_any(arr, axis=1))", "new": "        return np_any(np_all(arr, axis=1))", "expect": "4.6"},
    {"name": "pareto-unfiltered", "file": PU, "old": "after_are_worse = any_ax1_all(obj_values_filtered[i + 1 :] > obj)", "new": "after_are_worse = any_ax1_all(obj_values[i + 1 :] > obj)", "expect": "4.6"},
    {"name": "pareto-or", "file": PU, "old": "pareto_optimal[feasible_index] = before_are_worse and after_are_worse", "new": "pareto_optimal[feasible_index] = before_are_worse or after_are_worse", "expect": "4.6"},
    {"name": "pareto-infeasible-kept", "file": PU, "old": "        if not feasible_point:\n            pareto_optimal[i] = False\n        else:\n            feasible_indexes.append(i)", "new": "        if feasible_point:\n            feasible_indexes.append(i)", "expect": "4.6"},
]
TWINS = [
    {"name": "selection-le-ties-to-the-last", "file": OH, "old": "            if obj_value < f_opt:", "new": "            if obj_value <= f_opt:"},
    {"name": "selection-mirrored", "file": OH, "old": "            if obj_value < f_opt:", "new": "            if f_opt > obj_value:"},
    {"name": "pareto-mirrored", "file": PU, "old": "any_ax1_all(obj_values_filtered[:i] > obj)", "new": "any_ax1_all(obj < obj_values_filtered[:i])"},
    {"name": "rename-loop-record", "file": OH, "old": "        for i, output_values in enumerate(feas_f):\n            obj_value = output_values.get(obj_name)", "new": "        for i, output_values in enumerate(feas_f):\n            obj_value = output_values.get(self.objective_name)"},
    {"name": "tolerance-guard-noteq", "file": OH, "old": "            if f_type == MDOFunction.ConstraintType.INEQ:\n                tolerance = constraints.tolerances.inequality\n            else:\n                tolerance = constraints.tolerances.equality\n                constraint_value = abs(constraint_value)", "new": "            if f_type != MDOFunction.ConstraintType.INEQ:\n                tolerance = constraints.tolerances.equality\n                constraint_value = abs(constraint_value)\n            else:\n                tolerance = constraints.tolerances.inequality"},
]
