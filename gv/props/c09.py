"""C09 -- composite processes differentiate by the chain rule (block algebra and ownership)."""

from __future__ import annotations

import ast

from gv import rules
from gv.astutil import compare_parts
from gv.astutil import const_value
from gv.astutil import dotted
from gv.astutil import kwarg
from gv.astutil import last_attr
from gv.astutil import names_in
from gv.astutil import norm_stmt
from gv.astutil import stmts_of
from gv.astutil import unparse
from gv.astutil import walk_body
from gv.cfg import cfg_of
from gv.props.shared import unfolded
from gv.props import describe
from gv.props.shared import branch_conditions
from gv.props.shared import conj_literals
from gv.report import Ctx
from gv.report import cname

CH = "core/chains/chain.py"
PC = "core/chains/parallel_chain.py"
AC = "core/chains/additive_chain.py"
CR = "core/derivatives/chain_rule.py"
DI = "core/discipline/discipline.py"

describe(
    "C09",
    explanation=(
        "Numerical exactness of composite Jacobians is NOT decided. Decided: block-key typing of reverse "
        "accumulation (J[o][k] @ J[k][i] stored/accumulated at [o][i], accumulation iff the block exists and "
        "the input is not the pass-through one); accumulated arrays are copies, never a sub-discipline's own "
        "Jacobian; missing blocks are zero-filled with the (output_size, input_size) of the same loop "
        "variables and blocks of non-requested inputs removed; the traversal cache is keyed by the whole "
        "request; the two BFS traversals fill the right (inputs, outputs) slots; successive requests only add "
        "differentiated names."
    ),
    decided=["9.1 block algebra of reverse accumulation", "9.2 ownership of accumulated arrays", "9.3 zero filling / removal", "9.4 traversal cache key", "9.5 traversal slots", "9.6 monotone requests"],
    not_decided=["numerical exactness of the composite Jacobian", "sufficiency of the set selected by traverse_add_diff_io"],
)


class BlockTyper:
    """K5: type ``(row key, column key)`` of nested-dict Jacobian expressions in one function."""

    def __init__(self, func: ast.AST, roots: set[str]):
        self.func = func
        self.roots = roots
        self.locals: dict[str, tuple[str, str]] = {}
        self.problems: list[tuple[ast.AST, str]] = []
        # loop variables bound by ``for k, v in ROOT[a].items()``
        for s in stmts_of(func):
            if isinstance(s, ast.For) and isinstance(s.iter, ast.Call) and last_attr(s.iter) == "items" and isinstance(s.target, ast.Tuple) and len(s.target.elts) == 2:
                base = s.iter.func.value
                if isinstance(base, ast.Subscript) and dotted(base.value) in roots:
                    self.locals[dotted(s.target.elts[1])] = (norm_stmt(base.slice), dotted(s.target.elts[0]))
        conflicts: set[str] = set()
        for _ in range(8):  # bounded fixpoint (locals are chained at most a few levels deep)
            changed = False
            for s in stmts_of(func):
                if isinstance(s, ast.Assign) and len(s.targets) == 1 and isinstance(s.targets[0], ast.Name):
                    name = s.targets[0].id
                    t = self.type_of(s.value, record=False)
                    if t is None or name in conflicts:
                        continue
                    if name not in self.locals:
                        self.locals[name] = t
                        changed = True
                    elif self.locals[name] != t:
                        # a name assigned blocks of different keys in different branches
                        conflicts.add(name)
                        self.problems.append((s, f"`{name}` holds blocks of different keys: {self.locals[name]} and {t}"))
            if not changed:
                break

    def type_of(self, e: ast.AST, record: bool = True):
        if isinstance(e, ast.Name):
            return self.locals.get(e.id)
        if isinstance(e, ast.Subscript) and isinstance(e.value, ast.Subscript) and dotted(e.value.value) in self.roots:
            return (norm_stmt(e.value.slice), norm_stmt(e.slice))
        # ROOT[o].pop(k) / ROOT[o].get(k): the block (o, k)
        if isinstance(e, ast.Call) and last_attr(e) in ("pop", "get") and e.args and isinstance(e.func, ast.Attribute) and isinstance(e.func.value, ast.Subscript) and dotted(e.func.value.value) in self.roots:
            return (norm_stmt(e.func.value.slice), norm_stmt(e.args[0]))
        # a row held in a local: {k: block(o, k) for k in ...} and row[k]
        if isinstance(e, ast.DictComp) and len(e.generators) == 1:
            t = self.type_of(e.value, record)
            if t is not None and norm_stmt(e.key) == t[1]:
                return ("row", t[0])
            return None
        if isinstance(e, ast.Subscript) and isinstance(e.value, ast.Name):
            row = self.locals.get(e.value.id)
            if row is not None and row[0] == "row":
                return (row[1], norm_stmt(e.slice))
        if isinstance(e, ast.BinOp) and isinstance(e.op, ast.MatMult):
            return self._prod(e, e.left, e.right, record)
        if isinstance(e, ast.Call) and last_attr(e) == "__rmatmul__" and e.args:
            return self._prod(e, e.args[0], e.func.value, record)
        if isinstance(e, ast.Call) and last_attr(e) in ("dot", "__matmul__") and e.args and isinstance(e.func, ast.Attribute):
            return self._prod(e, e.func.value, e.args[0], record)
        if isinstance(e, ast.BinOp) and isinstance(e.op, (ast.Add, ast.Sub)):
            a, b = self.type_of(e.left, record), self.type_of(e.right, record)
            if a and b and a != b and record:
                self.problems.append((e, f"sum of blocks with different keys {a} and {b} in `{norm_stmt(e, 60)}`"))
            return a or b
        if isinstance(e, ast.Call) and last_attr(e) in ("copy", "real", "toarray"):
            return self.type_of(e.func.value, record) if isinstance(e.func, ast.Attribute) else None
        return None

    def _prod(self, node, left, right, record):
        a, b = self.type_of(left, record), self.type_of(right, record)
        if a is None or b is None:
            return None
        if a[1] != b[0] and record:
            self.problems.append((node, f"product of block {a} by block {b} in `{norm_stmt(node, 60)}`: the inner keys differ (chain rule d out/d k . d k/d in needs the same k)"))
        return (a[0], b[1])


def check_reverse_chain_rule(ctx: Ctx) -> None:
    f = ctx.index.method(CH, "MDOChain", "reverse_chain_rule")
    con = cname(CH, "MDOChain", "reverse_chain_rule")
    cfg = cfg_of(f)
    bt = BlockTyper(f, {"self.jac", "discipline.jac"})
    prods = [n for n in walk_body(f) if (isinstance(n, ast.BinOp) and isinstance(n.op, ast.MatMult)) or (isinstance(n, ast.Call) and last_attr(n) in ("__rmatmul__", "dot", "__matmul__", "matmul"))]
    ctx.need(len(prods) >= 2, "reverse_chain_rule: the chain-rule products were not found")
    bad_nodes = {id(n): m for n, m in bt.problems}
    for p in prods:
        t = bt.type_of(p, record=True)
        msg = next((m for n, m in bt.problems if n is p), None)
        ctx.ob("9.1-product", con, msg is None and t is not None, msg or "the product could not be typed", node=p, slots={"type": str(t)})
    # stores into self.jac[o][i]
    stores = []
    for s in stmts_of(f):
        tgt = None
        if isinstance(s, ast.Assign) and len(s.targets) == 1:
            tgt = s.targets[0]
        elif isinstance(s, ast.AugAssign):
            tgt = s.target
        if isinstance(tgt, ast.Subscript) and isinstance(tgt.value, ast.Subscript) and dotted(tgt.value.value) == "self.jac":
            stores.append((s, tgt))
    ctx.need(len(stores) >= 3, "reverse_chain_rule: the three block stores (accumulate operator / accumulate array / plain) were not found")
    for s, tgt in stores:
        want = (norm_stmt(tgt.value.slice), norm_stmt(tgt.slice))
        got = bt.type_of(s.value)
        ctx.ob("9.1-store-key", con, got == want, f"a block of keys {got} is stored at self.jac[{want[0]}][{want[1]}]", node=s, slots={"value": str(got), "slot": str(want)})
        n = cfg.node_of(s)
        lits = []
        for t, v in branch_conditions(cfg, n):
            if cfg.kind[t] != "test":
                continue
            cl = conj_literals(cfg.ast[t].test)
            if v:
                lits += cl
            elif len(cl) == 1:
                lits.append((not cl[0][0], cl[0][1]))
        txt_pos = {norm_stmt(e) for p, e in lits if p}
        txt_neg = {norm_stmt(e) for p, e in lits if not p}
        exists_txt = f"{want[1]} in self.jac[{want[0]}]"
        accumulates = isinstance(s, ast.AugAssign) or (isinstance(s.value, ast.BinOp) and isinstance(s.value.op, ast.Add) and any(isinstance(x, ast.Subscript) and norm_stmt(x) == norm_stmt(tgt) for x in ast.walk(s.value)))
        if accumulates:
            ctx.ob("9.1-accumulate", con, exists_txt in txt_pos, "a contribution is ADDED to the block exactly when the block already exists (whatever the inner variable: the blocks w.r.t. the variables computed by the discipline have been consumed before)", node=s, slots={"conditions": sorted(txt_pos)})
            if isinstance(s, ast.AugAssign):
                ctx.ob("9.1-accumulate", con, isinstance(s.op, ast.Add), "contributions through different inner variables must be summed", node=s, stmt=f"sum: {norm_stmt(s, 70)}")
        else:
            ctx.ob("9.1-accumulate", con, exists_txt in txt_neg, "a plain store is only right where the block does not exist yet: elsewhere it discards the contributions of the other paths", node=s, slots={"conditions": sorted(txt_pos), "negated": sorted(txt_neg)})
    # the blocks w.r.t. the variables the discipline computes are consumed (removed from the row) before composing
    pops = [c for c in walk_body(f) if isinstance(c, ast.Call) and last_attr(c) == "pop" and isinstance(c.func.value, ast.Subscript) and dotted(c.func.value.value) == "self.jac"]
    dels = [d for d in stmts_of(f) if isinstance(d, ast.Delete) and any(isinstance(t_, ast.Subscript) and isinstance(t_.value, ast.Subscript) and dotted(t_.value.value) == "self.jac" for t_ in d.targets)]
    ok = bool(pops or dels)
    if ok and stores:
        first_store = min(cfg.node_of(s_) for s_, _ in stores)
        rm = [cfg.node_of(rules.enclosing_stmt(f, c)) for c in pops] + [cfg.node_of(d) for d in dels]
        ok = all(cfg.path(first_store, r_) is None or cfg.dominates(r_, first_store) for r_ in rm) and any(cfg.dominates(r_, first_store) for r_ in rm)
    ctx.ob("9.1-consume", con, ok, "the derivatives of an output with respect to the variables that the discipline COMPUTES must be removed from the row (they are replaced by their chain-rule products) before any contribution is stored: kept, they give wrong derivatives for overwritten variables and for disciplines updating several of their inputs", node=(pops or dels or [f])[0], stmt="blocks w.r.t. the discipline's outputs consumed before composing")
    # the plain store is the else of the accumulation test
    # 9.2 ownership
    whole = [s for s in stmts_of(f) if isinstance(s, ast.Assign) and isinstance(s.targets[0], ast.Subscript) and dotted(s.targets[0].value) == "self.jac"]
    ctx.need(len(whole) == 1, "reverse_chain_rule: initialisation of a new output row not found")
    v = whole[0].value
    ok = isinstance(v, ast.Call) and last_attr(v) == "copy_jacs" and v.args and isinstance(v.args[0], ast.Subscript) and dotted(v.args[0].value) == "discipline.jac" and norm_stmt(v.args[0].slice) == norm_stmt(whole[0].targets[0].slice)
    ctx.ob("9.2-copy", con, ok, "a discipline's Jacobian row taken over by the chain must be copied (copy_jacs): later accumulations (+=) would otherwise modify the discipline's own Jacobian", node=whole[0])
    # the linearisation precedes the use
    lin = [c for c in walk_body(f) if isinstance(c, ast.Call) and norm_stmt(c.func) == "discipline.linearize"]
    ok = len(lin) == 1 and all(cfg.dominates(cfg.node_of(lin[0]), cfg.node_of(s)) for s, _ in stores)
    ctx.ob("9.1-linearize-first", con, ok, "the new discipline must be linearised before its blocks are composed", node=(lin or [f])[0])
    # ... at the inputs it was executed with: a variable overwritten further down the chain has another value in the
    # chain's final data, and the partials of a non-linear discipline taken there are not those of the function computed
    if lin:
        pt = lin[0].args[0] if lin[0].args else kwarg(lin[0], "input_data")
        alts = (unfolded(f, pt) or [pt]) if pt is not None else []
        ok = bool(alts) and all(isinstance(a_, ast.Call) and last_attr(a_) == "get_input_data" and norm_stmt(a_.func).startswith("discipline.io.") and not a_.args for a_ in alts)
        ctx.ob("9.6-linearization-point", con, ok, "a discipline of the chain must be linearised at ITS OWN last inputs (discipline.io.get_input_data()), the point at which it was executed, not at the data of the chain after the following disciplines ran", node=lin[0], stmt="discipline.linearize(<its own last inputs>)")
    # curr_jac read from the chain before the loop over new inputs (reference to the block being replaced)
    ctx.floor("9.1-store-key", 3)
    ctx.floor("9.1-product", 2)


def check_compute_jacobian(ctx: Ctx) -> None:
    f = ctx.index.method(CH, "MDOChain", "_compute_jacobian")
    con = cname(CH, "MDOChain", "_compute_jacobian")
    cfg = cfg_of(f)
    init = [s for s in stmts_of(f) if isinstance(s, ast.Assign) and dotted(s.targets[0]) == "self.jac"]
    ok = len(init) == 1 and isinstance(init[0].value, ast.Call) and last_attr(init[0].value) == "copy_jacs"
    ctx.ob("9.2-copy", con, ok, "the chain's Jacobian must start from a copy of the last discipline's Jacobian", node=(init or [f])[0])
    last = [s for s in stmts_of(f) if isinstance(s, ast.Assign) and isinstance(s.value, ast.Subscript) and dotted(s.value.value) == "self.disciplines" and not isinstance(s.value.slice, ast.Slice)]
    ok = len(last) == 1 and isinstance(last[0].value.slice, ast.UnaryOp) and const_value(last[0].value.slice.operand) == 1
    ctx.ob("9.1-reverse-order", con, ok, "reverse accumulation starts from the last discipline of the chain", node=(last or [f])[0])
    rem = [s for s in stmts_of(f) if isinstance(s, ast.Assign) and isinstance(s.value, ast.Subscript) and dotted(s.value.value) == "self.disciplines" and isinstance(s.value.slice, ast.Slice)]
    loops = [s for s in stmts_of(f) if isinstance(s, ast.For) and any(isinstance(c, ast.Call) and last_attr(c) == "reverse_chain_rule" for c in ast.walk(s))]
    ok = len(rem) == 1 and rem[0].value.slice.lower is None and isinstance(rem[0].value.slice.upper, ast.UnaryOp) and const_value(rem[0].value.slice.upper.operand) == 1 and len(loops) == 1
    if ok:
        it = loops[0].iter
        rv = dotted(rem[0].targets[0])
        ok = (isinstance(it, ast.Subscript) and dotted(it.value) == rv and isinstance(it.slice, ast.Slice) and isinstance(it.slice.step, ast.UnaryOp)) or (isinstance(it, ast.Call) and dotted(it.func) == "reversed" and dotted(it.args[0]) == rv)
    ctx.ob("9.1-reverse-order", con, ok, "the remaining disciplines must be composed from the last to the first", node=(loops or [f])[0])
    call = [c for c in walk_body(f) if isinstance(c, ast.Call) and last_attr(c) == "reverse_chain_rule"]
    ok = len(call) == 1 and dotted(call[0].args[0]) == "output_names" and loops and dotted(call[0].args[1]) == dotted(loops[0].target)
    ctx.ob("9.1-reverse-order", con, bool(ok), "each remaining discipline is composed for the requested outputs", node=(call or [f])[0])
    # 9.3 removal then zero filling
    dels = [s for s in stmts_of(f) if isinstance(s, ast.Delete)]
    ok = len(dels) == 1
    if ok:
        conds = [(t, v) for t, v in branch_conditions(cfg, cfg.node_of(dels[0])) if cfg.kind[t] == "test"]
        ok = len(conds) == 1 and conds[0][1] and norm_stmt(cfg.ast[conds[0][0]].test) == f"{dotted(dels[0].targets[0].slice)} not in input_names"
    ctx.ob("9.3-remove", con, ok, "blocks with respect to names that are not requested inputs must be removed (and only those)", node=(dels or [f])[0])
    _check_zero_fill(ctx, f, con, after=[cfg.node_of(d) for d in dels] + [cfg.node_of(c) for c in call])
    g = ctx.index.method(PC, "MDOParallelChain", "_compute_jacobian")
    _check_zero_fill(ctx, g, cname(PC, "MDOParallelChain", "_compute_jacobian"), after=[])
    # parallel chain: value and Jacobian of an output computed by several disciplines come from the same (last) one
    ex = ctx.index.method(PC, "MDOParallelChain", "_execute")
    loops_e = [s for s in stmts_of(ex) if isinstance(s, ast.For) and norm_stmt(s.iter) == "self.disciplines"]
    ok_e = len(loops_e) == 1 and any(isinstance(c, ast.Call) and norm_stmt(c.func) == "self.io.data.update" for c in ast.walk(loops_e[0]))
    ctx.ob("9.3-last-wins", cname(PC, "MDOParallelChain", "_execute"), ok_e, "the outputs are taken discipline by discipline in the order of self.disciplines (the last one computing a name defines it)", node=(loops_e or [ex])[0], stmt="outputs updated in discipline order")
    src = [s for s in stmts_of(g) if isinstance(s, ast.Assign) and isinstance(s.value, ast.Call) and norm_stmt(s.value.func) == "self.parallel_lin.execute"]
    jl = [s for s in stmts_of(g) if isinstance(s, ast.For) and src and dotted(s.iter) == dotted(src[0].targets[0])]
    news = [s for s in stmts_of(g) if isinstance(s, ast.Assign) and isinstance(s.targets[0], ast.Subscript) and dotted(s.targets[0].value) == "self.jac"]
    merges = [c for c in walk_body(g) if isinstance(c, ast.Call) and last_attr(c) in ("update", "setdefault") and (dotted(c.func.value) == "self.jac" or any(isinstance(s, ast.Assign) and dotted(s.targets[0]) == dotted(c.func.value) and "self.jac" in norm_stmt(s.value) for s in stmts_of(g)))]
    cg = cfg_of(g)
    ok = len(jl) == 1 and len(news) == 1 and not merges
    if ok:
        inner = [s for s in ast.walk(jl[0]) if isinstance(s, ast.For) and s is not jl[0]]
        ok = len(inner) == 1 and isinstance(inner[0].target, ast.Tuple) and news[0] in list(ast.walk(inner[0]))
        if ok:
            oname, ojac = (dotted(e) for e in inner[0].target.elts)
            v = news[0].value
            fresh = (isinstance(v, ast.Call) and dotted(v.func) == "dict" and len(v.args) == 1 and dotted(v.args[0]) == ojac) or (isinstance(v, ast.Call) and last_attr(v) == "copy" and dotted(v.func.value) == ojac) or (isinstance(v, ast.Dict) and len(v.keys) == 1 and v.keys[0] is None and dotted(v.values[0]) == ojac)
            # the only condition allowed on the replacement is "this discipline has a Jacobian" (a failed one has None)
            guards = [norm_stmt(cg.ast[tv[0]].test) + ("" if tv[1] else " [false]") for tv in branch_conditions(cg, cg.node_of(news[0])) if cg.kind[tv[0]] == "test"]
            jv = dotted(jl[0].target)
            ok = dotted(news[0].targets[0].slice) == oname and fresh and all(g_ in (f"{jv} is None [false]", f"{jv} is not None", f"{jv}") for g_ in guards)
    ctx.ob("9.3-last-wins", cname(PC, "MDOParallelChain", "_compute_jacobian"), bool(ok), "the Jacobian row of an output must be REPLACED by (a copy of) the row of each later discipline computing it, in the order of the disciplines: merging rows keeps blocks of a discipline whose value was overwritten; aliasing the discipline's own row lets the zero filling write into it", node=(news or merges or [g])[0], stmt="row of the last discipline replaces the previous one (copied)")
    # additive chain
    h = ctx.index.method(AC, "MDOAdditiveChain", "_compute_jacobian")
    conh = cname(AC, "MDOAdditiveChain", "_compute_jacobian")
    st = [s for s in stmts_of(h) if isinstance(s, ast.Assign) and isinstance(s.targets[0], ast.Subscript) and isinstance(s.targets[0].value, ast.Subscript) and dotted(s.targets[0].value.value) == "self.jac"]
    ok = len(st) == 1
    if ok:
        want = (norm_stmt(st[0].targets[0].value.slice), norm_stmt(st[0].targets[0].slice))
        comp = [n for n in walk_body(h) if isinstance(n, ast.ListComp)]
        ok = len(comp) == 1 and isinstance(comp[0].elt, ast.Subscript) and isinstance(comp[0].elt.value, ast.Subscript) and (norm_stmt(comp[0].elt.value.slice), norm_stmt(comp[0].elt.slice)) == want and isinstance(st[0].value, ast.Call) and dotted(st[0].value.func) in ("sum", "np_sum")
    ctx.ob("9.1-additive", conh, ok, "the additive chain must sum, for each (output, input), the disciplines' blocks of the same (output, input)", node=(st or [h])[0])


def _check_zero_fill(ctx: Ctx, f, con, after) -> None:
    cfg = cfg_of(f)
    calls = rules.self_calls(f, "_init_jacobian")
    ok = len(calls) == 1
    if ok:
        c = calls[0]
        fm = kwarg(c, "fill_missing_keys")
        ok = const_value(fm) is True and [dotted(a) for a in c.args[:2]] == ["input_names", "output_names"]
        n = cfg.node_of(c)
        ok = ok and cfg.must_pass(cfg.entry, {n}) and all(cfg.reachable(a, n) and not cfg.reachable(n, a) for a in after)
    ctx.ob("9.3-zero-fill", con, ok, "the composite Jacobian must end with _init_jacobian(input_names, output_names, fill_missing_keys=True): independent (output, input) pairs get zero blocks of the right shape and existing blocks are kept", node=(calls or [f])[0])


def check_init_jacobian(ctx: Ctx) -> None:
    f = ctx.index.method(DI, "Discipline", "_init_jacobian")
    con = cname(DI, "Discipline", "_init_jacobian")
    cfg = cfg_of(f)
    enum = ctx.index.cls(DI, "Discipline.InitJacobianType")
    members = [t.id for s in enum.node.body if isinstance(s, ast.Assign) for t in s.targets if isinstance(t, ast.Name)]
    handled = set()
    for n in cfg.nodes(lambda k: cfg.kind[k] == "test"):
        cp = compare_parts(cfg.ast[n].test)
        if cp and cp[1] is ast.Eq and (dotted(cp[2]) or "").startswith("self.InitJacobianType."):
            handled.add(dotted(cp[2]).split(".")[-1])
    ctx.ob("9.3-init-types", con, set(members) == handled and len(members) >= 2, f"every Jacobian initialisation type must be handled: enum {members}, handled {sorted(handled)}", node=f, stmt="InitJacobianType exhaustive")
    stores = [s for s in stmts_of(f) if isinstance(s, ast.Assign) and isinstance(s.targets[0], ast.Subscript) and isinstance(s.value, ast.Call) and dotted(s.value.func) == "default_matrix"]
    ctx.need(len(stores) == 2, "_init_jacobian: the two zero-block stores were not found")
    for s in stores:
        n = cfg.node_of(s)
        loops = [cfg.ast[t] for (t, v), b in cfg.branch.items() if v and cfg.kind[t] == "loop" and cfg.dominates(b, n)]
        # innermost two loops: for output_name, output_size in ...: for input_name, input_size in ...
        pairs = {}
        for lp in loops:
            if isinstance(lp.target, ast.Tuple) and len(lp.target.elts) == 2:
                pairs[dotted(lp.target.elts[0])] = (dotted(lp.target.elts[1]), norm_stmt(lp.iter))
        shape = s.value.args[0]
        ok = isinstance(shape, ast.Tuple) and len(shape.elts) == 2
        if ok:
            rows, cols = dotted(shape.elts[0]), dotted(shape.elts[1])
            col_key = dotted(s.targets[0].slice)
            row_key = next((k for k in pairs if k != col_key), None)
            ok = col_key in pairs and row_key is not None and pairs[col_key][0] == cols and pairs[row_key][0] == rows and "output" in pairs[row_key][1] and "input" in pairs[col_key][1]
            # the row dictionary is the one of the row key
            row_dict = dotted(s.targets[0].value)
            rd = [x for x in stmts_of(f) if isinstance(x, ast.Assign) and dotted(x.targets[0]) == row_dict and row_key in names_in(x.value)]
            ok = ok and bool(rd)
        ctx.ob("9.3-zero-shape", con, ok, "a zero block stored at [output][input] must have the shape (size of that output, size of that input)", node=s)
    fill = [s for s in stores if any(v and norm_stmt(cfg.ast[t].test) == "fill_missing_keys" for t, v in branch_conditions(cfg, cfg.node_of(s)) if cfg.kind[t] == "test")]
    ok = len(fill) == 1
    if ok:
        conds = [norm_stmt(cfg.ast[t].test) for t, v in branch_conditions(cfg, cfg.node_of(fill[0])) if v and cfg.kind[t] == "test"]
        ok = any(c.endswith("is None") for c in conds)
    ctx.ob("9.3-keep-existing", con, ok, "with fill_missing_keys only the missing blocks may be created: an existing block must not be overwritten by zeros", node=(fill or stores)[0])


def check_cache_and_traversal(ctx: Ctx) -> None:
    f = ctx.index.method(CH, "MDOChain", "_compute_diff_in_outs")
    con = cname(CH, "MDOChain", "_compute_diff_in_outs")
    cfg = cfg_of(f)
    key = [s for s in stmts_of(f) if isinstance(s, ast.Assign) and isinstance(s.value, ast.Tuple) and sorted(norm_stmt(e) for e in s.value.elts) == ["set(input_names)", "set(output_names)"]]
    tests = [n for n in cfg.nodes(lambda k: cfg.kind[k] == "test") if "_last_diff_inouts" in norm_stmt(cfg.ast[n].test)]
    ok = len(key) == 1 and len(tests) == 1
    if ok:
        kv = dotted(key[0].targets[0])
        cp = compare_parts(cfg.ast[tests[0]].test)
        ok = cp[1] is ast.NotEq and {dotted(cp[0]), dotted(cp[2])} == {"self._last_diff_inouts", kv}
        upd = [s for s in stmts_of(f) if isinstance(s, ast.Assign) and dotted(s.targets[0]) == "self._last_diff_inouts"]
        trav = [c for c in walk_body(f) if isinstance(c, ast.Call) and dotted(c.func) == "traverse_add_diff_io"]
        ok = ok and len(upd) == 1 and dotted(upd[0].value) == kv and cfg.under_branch(cfg.node_of(upd[0]), tests[0], True) and len(trav) == 1 and cfg.under_branch(cfg.node_of(trav[0]), tests[0], True) and [dotted(a) for a in trav[0].args[1:3]] == ["input_names", "output_names"]
    ctx.ob("9.4-cache-key", con, ok, "the traversal must be redone whenever (set(input_names), set(output_names)) differs from the last request, and the key updated with it", node=(key or [f])[0])
    # 9.5 slots
    g = ctx.index.func(CR, "_bfs_one_way_diff_io")
    cong = cname(CR, None, "_bfs_one_way_diff_io")
    cg = cfg_of(g)
    asg = {}
    for s in stmts_of(g):
        if isinstance(s, ast.Assign) and dotted(s.targets[0]) in ("inputs_source_edge_index", "outputs_dest_edge_index") and isinstance(s.value, ast.Constant):
            conds = [(t, v) for t, v in branch_conditions(cg, cg.node_of(s)) if cg.kind[t] == "test" and norm_stmt(cg.ast[t].test) == "reverse"]
            if len(conds) == 1:
                asg[(dotted(s.targets[0]), conds[0][1])] = s.value.value
    want = {("inputs_source_edge_index", True): 1, ("outputs_dest_edge_index", True): 0, ("inputs_source_edge_index", False): 0, ("outputs_dest_edge_index", False): 1}
    ctx.ob("9.5-slots", cong, asg == want, f"slot indices of (inputs, outputs): forward traversal (0, 1), reverse traversal (1, 0); found {asg}", node=g, stmt="slot indices per direction")
    rv = [s for s in stmts_of(g) if isinstance(s, ast.Assign) and isinstance(s.value, ast.Call) and dotted(s.value.func) == "reverse_view"]
    ok = len(rv) == 1 and any(v and norm_stmt(cg.ast[t].test) == "reverse" for t, v in branch_conditions(cg, cg.node_of(rv[0])) if cg.kind[t] == "test") and dotted(rv[0].targets[0]) == dotted(rv[0].value.args[0])
    ctx.ob("9.5-slots", cong, ok, "the reverse traversal must walk the reversed graph", node=(rv or [g])[0])
    ext = [c for c in walk_body(g) if isinstance(c, ast.Call) and last_attr(c) == "extend" and isinstance(c.func.value, ast.Subscript)]
    ctx.need(len(ext) == 2, "_bfs_one_way_diff_io: the two slot extensions were not found")
    edge_of = {}
    for s in stmts_of(g):
        if isinstance(s, ast.Assign) and isinstance(s.value, ast.Subscript) and dotted(s.value.value) == "edge":
            edge_of[dotted(s.targets[0])] = const_value(s.value.slice)
    coupl_of = {}
    for s in stmts_of(g):
        if isinstance(s, ast.Assign) and isinstance(s.value, ast.Call) and last_attr(s.value) == "get" and s.value.args and dotted(s.value.args[0]) in edge_of:
            coupl_of[dotted(s.targets[0])] = edge_of[dotted(s.value.args[0])]
    got = {}
    for c in ext:
        holder = dotted(c.func.value.value)
        got[coupl_of.get(holder)] = dotted(c.func.value.slice)
    ctx.ob("9.5-slots", cong, got == {0: "outputs_dest_edge_index", 1: "inputs_source_edge_index"}, f"the edge origin receives the shared names in its outputs slot and the edge destination in its inputs slot; found {got}", node=ext[0], stmt="edge[0] -> outputs slot, edge[1] -> inputs slot")
    m = ctx.index.func(CR, "_merge_diff_ios")
    inter = [s for s in stmts_of(m) if isinstance(s, ast.Assign) and ((isinstance(s.value, ast.Call) and last_attr(s.value) == "intersection") or (isinstance(s.value, ast.BinOp) and isinstance(s.value.op, ast.BitAnd)))]
    ok = len(inter) == 2
    for s in inter:
        idx = [const_value(x.slice) for x in ast.walk(s.value) if isinstance(x, ast.Subscript) and isinstance(x.slice, ast.Constant)]
        ok = ok and len(set(idx)) == 1 and (("inputs" in dotted(s.targets[0])) == (idx[0] == 0))
    ctx.ob("9.5-merge", cname(CR, None, "_merge_diff_ios"), ok, "the merge must intersect inputs with inputs (slot 0) and outputs with outputs (slot 1)", node=(inter or [m])[0])
    t = ctx.index.func(CR, "traverse_add_diff_io")
    calls = [c for c in walk_body(t) if isinstance(c, ast.Call) and dotted(c.func) == "_bfs_one_way_diff_io"]
    ok = len(calls) == 2
    if ok:
        init = [s for s in stmts_of(t) if isinstance(s, ast.Assign) and isinstance(s.value, ast.Call) and dotted(s.value.func) == "_initialize_add_diff_io"]
        src_in, src_out = (dotted(e) for e in init[0].targets[0].elts[:2]) if init else (None, None)
        kinds = {}
        for c in calls:
            rvk = kwarg(c, "reverse")
            kinds[const_value(rvk)] = dotted(c.args[1])
        ok = kinds == {False: src_in, True: src_out}
    ctx.ob("9.5-slots", cname(CR, None, "traverse_add_diff_io"), ok, "the forward traversal starts from the disciplines holding requested inputs, the reverse one from those holding requested outputs", node=(calls or [t])[0])
    # 9.6 monotone
    for mname, attr in (("add_differentiated_inputs", "_differentiated_input_names"), ("add_differentiated_outputs", "_differentiated_output_names")):
        a = ctx.index.method(DI, "Discipline", mname)
        asg_ = rules.assigns_to_self(a, attr)
        ok = len(asg_) == 1 and (
            any(isinstance(c, ast.Call) and last_attr(c) == "union" and any(isinstance(x, ast.Attribute) and x.attr == attr for x in ast.walk(c.func)) for c in ast.walk(asg_[0].value))
            or any(isinstance(c, ast.BinOp) and isinstance(c.op, ast.BitOr) and any(isinstance(x, ast.Attribute) and x.attr == attr for side in (c.left, c.right) for x in ast.walk(side)) for c in ast.walk(asg_[0].value))
        )
        ctx.ob("9.6-monotone", cname(DI, "Discipline", mname), ok, f"{mname} must extend {attr} with the union of the old names and the new ones: a later, smaller request must not drop blocks requested before", node=(asg_ or [a])[0])


def check_mda_chain_point(ctx: Ctx) -> None:
    f = ctx.index.method("mda/mda_chain.py", "MDAChain", "_compute_jacobian")
    con = cname("mda/mda_chain.py", "MDAChain", "_compute_jacobian")
    lin = [c for c in walk_body(f) if isinstance(c, ast.Call) and norm_stmt(c.func) == "self.mdo_chain.linearize"]
    ctx.need(len(lin) == 1, "MDAChain._compute_jacobian: self.mdo_chain.linearize not found")
    pt = lin[0].args[0] if lin[0].args else kwarg(lin[0], "input_data")
    alts = (unfolded(f, pt) or [pt]) if pt is not None else []
    ok = bool(alts) and all(isinstance(a_, ast.Call) and norm_stmt(a_.func) == "self.io.get_input_data" and not a_.args for a_ in alts)
    ctx.ob("9.6-linearization-point", con, ok, "the inner chain must be linearised at the inputs of the MDA chain", node=lin[0], stmt="mdo_chain.linearize(self.io.get_input_data())")
    ex = kwarg(lin[0], "execute")
    ok = ex is None or const_value(ex, None) is True
    ctx.ob("9.6-linearization-point", con, ok, "the inner chain must be (re-)executed at that point when it is linearised: after a cache hit of the MDA chain, or a request at an earlier point, the inner disciplines hold the data of ANOTHER point and execute=False returns the blocks of that point", node=lin[0], stmt="mdo_chain.linearize executes at the requested point")


def run(ctx: Ctx) -> None:
    check_mda_chain_point(ctx)
    check_reverse_chain_rule(ctx)
    check_compute_jacobian(ctx)
    check_init_jacobian(ctx)
    check_cache_and_traversal(ctx)
    # copy_jacs copies every array
    f = ctx.index.method(CH, "MDOChain", "copy_jacs")
    st = [s for s in stmts_of(f) if isinstance(s, ast.Assign) and isinstance(s.targets[0], ast.Subscript)]
    leaf = [s for s in st if isinstance(s.value, ast.Call) and last_attr(s.value) in ("copy", "deepcopy")]
    alias = [s for s in st if isinstance(s.value, ast.Name) and s.value.id in ("derivatives", "output_jacobian")]
    ctx.ob("9.2-copy", cname(CH, "MDOChain", "copy_jacs"), len(leaf) >= 2 and not alias, "copy_jacs must copy every array of the nested dictionary", node=(alias or leaf or [f])[0])


# ---------------------------------------------------------------------------
WITNESSES = [
    {"name": "overwritten-variable-block-kept", "file": CH, "old": "                consumed_jac = {\n                    input_name: self.jac[output_name].pop(input_name)\n                    for input_name in common_inputs\n                }\n", "new": "                consumed_jac = {\n                    input_name: self.jac[output_name][input_name]\n                    for input_name in common_inputs\n                }\n", "expect": "9.1"},
    {"name": "contribution-stored-over-existing-block", "file": CH, "old": "                        if new_in in self.jac[output_name]:\n", "new": "                        if new_in in self.jac[output_name] and input_name != new_in:\n", "expect": "9.1"},
    {"name": "product-reversed", "file": CH, "old": "                            loc_dot = curr_jac @ new_jac", "new": "                            loc_dot = new_jac @ curr_jac", "expect": "9.1"},
    {"name": "operator-product-reversed", "file": CH, "old": "loc_dot = new_jac.__rmatmul__(curr_jac)", "new": "loc_dot = curr_jac.__rmatmul__(new_jac)", "expect": "9.1"},
    {"name": "store-at-inner-key", "file": CH, "old": "                            self.jac[output_name][new_in] = loc_dot\n", "new": "                            self.jac[output_name][input_name] = loc_dot\n", "expect": "9.1"},
    {"name": "overwrite-shared-input", "file": CH, "old": "                                self.jac[output_name][new_in] += loc_dot", "new": "                                self.jac[output_name][new_in] = loc_dot", "expect": "9.1"},
    {"name": "subtract-contribution", "file": CH, "old": "                                self.jac[output_name][new_in] += loc_dot", "new": "                                self.jac[output_name][new_in] -= loc_dot", "expect": "9.1"},
    {"name": "row-not-copied", "file": CH, "old": "self.jac[output_name] = MDOChain.copy_jacs(discipline.jac[output_name])", "new": "self.jac[output_name] = discipline.jac[output_name]", "expect": "9.2"},
    {"name": "last-jacobian-not-copied", "file": CH, "old": "        self.jac = self.copy_jacs(last_discipline.jac)", "new": "        self.jac = last_discipline.jac", "expect": "9.2"},
    {"name": "copy_jacs-shallow", "file": CH, "old": "                    output_jacobian_copy[input_name] = derivatives.copy()", "new": "                    output_jacobian_copy[input_name] = derivatives", "expect": "9.2"},
    {"name": "forward-order", "file": CH, "old": "        for discipline in remaining_disciplines[::-1]:", "new": "        for discipline in remaining_disciplines:", "expect": "9.1"},
    {"name": "start-from-first", "file": CH, "old": "        last_discipline = self.disciplines[-1]", "new": "        last_discipline = self.disciplines[0]", "expect": "9.1"},
    {"name": "no-zero-fill", "file": CH, "old": "            fill_missing_keys=True,\n            init_type=Discipline.InitJacobianType.SPARSE,", "new": "            fill_missing_keys=False,\n            init_type=Discipline.InitJacobianType.SPARSE,", "expect": "9.3"},
    {"name": "parallel-no-zero-fill", "file": PC, "old": "        self._init_jacobian(\n            input_names,\n            output_names,\n            fill_missing_keys=True,\n            init_type=self.InitJacobianType.SPARSE,\n        )\n", "new": "", "expect": "9.3"},
    {"name": "remove-requested-inputs", "file": CH, "old": "                if input_name not in input_names:\n                    del output_jacobian[input_name]", "new": "                if input_name in input_names:\n                    del output_jacobian[input_name]", "expect": "9.3"},
    {"name": "parallel-merges-rows", "file": PC, "old": "                self.jac[output_name] = dict(output_jacobian)", "new": "                self.jac.setdefault(output_name, {}).update(output_jacobian)", "expect": "9.3"},
    {"name": "parallel-first-discipline-wins", "file": PC, "old": "                self.jac[output_name] = dict(output_jacobian)", "new": "                self.jac.setdefault(output_name, dict(output_jacobian))", "expect": "9.3"},
    {"name": "parallel-row-aliases-discipline-jacobian", "file": PC, "old": "                self.jac[output_name] = dict(output_jacobian)", "new": "                self.jac[output_name] = output_jacobian", "expect": "9.3"},
    {"name": "zero-shape-transposed", "file": DI, "old": "                        jac_loc[input_name] = default_matrix((output_size, input_size))\n        else:", "new": "                        jac_loc[input_name] = default_matrix((input_size, output_size))\n        else:", "expect": "9.3"},
    {"name": "fill-overwrites", "file": DI, "old": "                    sub_jac = jac_loc.get(input_name)\n                    if sub_jac is None:\n                        jac_loc[input_name]", "new": "                    sub_jac = jac_loc.get(input_name)\n                    if True:\n                        jac_loc[input_name]", "expect": "9.3"},
    {"name": "cache-key-inputs-only", "file": CH, "old": "        diff_ios = (set(input_names), set(output_names))\n        if self._last_diff_inouts != diff_ios:", "new": "        diff_ios = set(input_names)\n        if self._last_diff_inouts != diff_ios:", "expect": "9.4"},
    {"name": "reverse-slots-not-swapped", "file": CR, "old": "        inputs_source_edge_index = 1\n        outputs_dest_edge_index = 0", "new": "        inputs_source_edge_index = 0\n        outputs_dest_edge_index = 1", "expect": "9.5"},
    {"name": "edge-ends-swapped", "file": CR, "old": "            disc_1 = edge[0]", "new": "            disc_1 = edge[1]", "expect": "9.5"},
    {"name": "merge-crosses-slots", "file": CR, "old": "diff_inputs = set(in_out_1[0]).intersection(in_out_2[0])", "new": "diff_inputs = set(in_out_1[0]).intersection(in_out_2[1])", "expect": "9.5"},
    {"name": "reverse-traversal-from-inputs", "file": CR, "old": "diff_io_reverse = _bfs_one_way_diff_io(graph, source_output_disc, reverse=True)", "new": "diff_io_reverse = _bfs_one_way_diff_io(graph, source_input_disc, reverse=True)", "expect": "9.5"},
    {"name": "differentiated-inputs-replaced", "file": DI, "old": "        self._differentiated_input_names = list(\n            set(self._differentiated_input_names).union(\n                filter(input_grammar.data_converter.is_continuous, input_names)\n            )\n        )", "new": "        self._differentiated_input_names = list(\n            filter(input_grammar.data_converter.is_continuous, input_names)\n        )", "expect": "9.6"},
    {"name": "additive-sums-other-block", "file": AC, "old": "                    discipline.jac[output_name][input_name]\n                    for discipline in self.disciplines", "new": "                    discipline.jac[input_name][output_name]\n                    for discipline in self.disciplines", "expect": "9.1"},
    {"name": "init-type-unhandled", "file": DI, "old": "        elif init_type == self.InitJacobianType.SPARSE:\n            default_matrix = csr_array\n", "new": "", "expect": "9.3"},
]
TWINS = [
    {"name": "dot-method", "file": CH, "old": "                            loc_dot = curr_jac @ new_jac", "new": "                            loc_dot = curr_jac.dot(new_jac)"},
    {"name": "accumulate-explicit-sum", "file": CH, "old": "                                self.jac[output_name][new_in] += loc_dot", "new": "                                self.jac[output_name][new_in] = self.jac[output_name][new_in] + loc_dot"},
    {"name": "reversed-builtin", "file": CH, "old": "        for discipline in remaining_disciplines[::-1]:", "new": "        for discipline in reversed(remaining_disciplines):"},
    {"name": "condition-operands-swapped", "file": CH, "old": "if new_in in self.jac[output_name] and input_name != new_in:", "new": "if input_name != new_in and new_in in self.jac[output_name]:"},
]
