"""C09 -- composite processes differentiate by the chain rule (block algebra and ownership)."""

from __future__ import annotations

import ast

from gv import rules
from gv.astutil import compare_parts
from gv.astutil import const_value
from gv.astutil import dotted
from gv.astutil import kwarg
from gv.astutil import last_attr
from gv.astutil import names_in
from gv.astutil import norm_stmt
from gv.astutil import stmts_of
from gv.astutil import unparse
from gv.astutil import walk_body
from gv.cfg import cfg_of
from gv.props.shared import accumulated_lists
from gv.props.shared import unfolded
from gv.props import describe
from gv.props.shared import branch_conditions
from gv.props.shared import conj_literals
from gv.props.shared import literal_facts
from gv.report import Ctx
from gv.report import cname

CH = "core/chains/chain.py"
PC = "core/chains/parallel_chain.py"
AC = "core/chains/additive_chain.py"
CR = "core/derivatives/chain_rule.py"
DI = "core/discipline/discipline.py"

describe(
    "C09",
    explanation=(
        "Numerical exactness of composite Jacobians is NOT decided. Decided: block-key typing of reverse "
        "accumulation (J[o][k] @ J[k][i] stored/accumulated at [o][i], accumulation iff the block exists and "
        "the input is not the pass-through one); accumulated arrays are copies, never a sub-discipline's own "
        "Jacobian; missing blocks are zero-filled with the (output_size, input_size) of the same loop "
        "variables and blocks of non-requested inputs removed; the traversal cache is keyed by the whole "
        "request; the two BFS traversals fill the right (inputs, outputs) slots; successive requests only add "
        "differentiated names."
    ),
    decided=["9.1 block algebra of reverse accumulation", "9.2 ownership of accumulated arrays", "9.3 zero filling / removal", "9.4 traversal cache key", "9.5 traversal slots", "9.6 monotone requests", "9.6 linearisation point of each discipline / of the inner chain"],
    not_decided=["numerical exactness of the composite Jacobian", "sufficiency of the set selected by traverse_add_diff_io"],
)


IO = "core/discipline/io.py"


def _all_input_data(ctx: Ctx, call: ast.AST, owner: str) -> bool:
    """``call`` is ``<owner>.get_input_data()`` returning the input data under their own (namespaced) names: no
    argument, or every argument given (by position or keyword) is the constant that the signature of
    ``IO.get_input_data`` declares as its default."""
    if not (isinstance(call, ast.Call) and isinstance(call.func, ast.Attribute) and call.func.attr == "get_input_data" and norm_stmt(call.func.value) == owner):
        return False
    if not call.args and not call.keywords:
        return True
    try:
        sig = ctx.index.method(IO, "IO", "get_input_data").args
    except Exception:  # noqa: BLE001
        return False
    params = [a.arg for a in sig.args][1:]
    defaults = dict(zip(params[len(params) - len(sig.defaults):], sig.defaults))
    defaults.update({a.arg: d for a, d in zip(sig.kwonlyargs, sig.kw_defaults) if d is not None})
    if any(isinstance(a, ast.Starred) for a in call.args) or len(call.args) > len(params) or any(k.arg is None for k in call.keywords):
        return False
    given = list(zip(params, call.args)) + [(k.arg, k.value) for k in call.keywords]
    return all(isinstance(v, ast.Constant) and isinstance(defaults.get(p), ast.Constant) and type(v.value) is type(defaults[p].value) and v.value == defaults[p].value for p, v in given)


ROW, PAIRS = "<row of>", "<pairs of>"  # first component of the type of a local holding a whole row (dict / list of pairs)


class BlockTyper:
    """K5: type ``(row key, column key)`` of nested-dict Jacobian expressions in one function."""

    def __init__(self, func: ast.AST, roots: set[str]):
        self.func = func
        self.roots = roots
        self.locals: dict[str, tuple[str, str]] = {}
        self.problems: list[tuple[ast.AST, str]] = []
        conflicts: set[str] = set()
        for _ in range(8):  # bounded fixpoint (locals are chained at most a few levels deep)
            changed = False
            # loop variables bound by ``for k, v in ROW.items()`` (ROW: ``ROOT[a]`` or a local row) and by
            # ``for k, v in PAIRS`` (a local list of (key, block) pairs): v is the block (a, k)
            for s in stmts_of(func):
                if isinstance(s, ast.For) and isinstance(s.target, ast.Tuple) and len(s.target.elts) == 2 and all(isinstance(x, ast.Name) for x in s.target.elts):
                    if isinstance(s.iter, ast.Call) and last_attr(s.iter) == "items" and isinstance(s.iter.func, ast.Attribute) and not s.iter.args:
                        held = self.type_of(s.iter.func.value, record=False)
                        held = held if held is not None and held[0] == ROW else None
                    else:
                        held = self.type_of(s.iter, record=False)
                        held = held if held is not None and held[0] == PAIRS else None
                    v = s.target.elts[1].id
                    if held is not None and v not in self.locals:
                        self.locals[v] = (held[1], s.target.elts[0].id)
                        changed = True
            for s in stmts_of(func):
                if isinstance(s, ast.Assign) and len(s.targets) == 1 and isinstance(s.targets[0], ast.Name):
                    name = s.targets[0].id
                    t = self.type_of(s.value, record=False)
                    if t is None or name in conflicts:
                        continue
                    if name not in self.locals:
                        self.locals[name] = t
                        changed = True
                    elif self.locals[name] != t:
                        # a name assigned blocks of different keys in different branches
                        conflicts.add(name)
                        self.problems.append((s, f"`{name}` holds blocks of different keys: {self.locals[name]} and {t}"))
            if not changed:
                break

    def type_of(self, e: ast.AST, record: bool = True):
        if isinstance(e, ast.Name):
            return self.locals.get(e.id)
        if isinstance(e, ast.Subscript) and isinstance(e.value, ast.Subscript) and dotted(e.value.value) in self.roots:
            return (norm_stmt(e.value.slice), norm_stmt(e.slice))
        # ROOT[o]: the row of o
        if isinstance(e, ast.Subscript) and dotted(e.value) in self.roots:
            return (ROW, norm_stmt(e.slice))
        # ROW.pop(k) / ROW.get(k) (ROW: ROOT[o] or a local holding a row): the block (o, k)
        if isinstance(e, ast.Call) and last_attr(e) in ("pop", "get") and e.args and isinstance(e.func, ast.Attribute):
            row = self.type_of(e.func.value, record=False)
            if row is not None and row[0] == ROW:
                return (row[1], norm_stmt(e.args[0]))
            return None
        # a row held in a local: {k: block(o, k) for k in ...} and row[k]
        if isinstance(e, ast.DictComp) and len(e.generators) == 1:
            t = self.type_of(e.value, record)
            if t is not None and t[0] not in (ROW, PAIRS) and norm_stmt(e.key) == t[1]:
                return (ROW, t[0])
            return None
        # the same as a list of pairs: [(k, block(o, k)) for k in ...]
        if isinstance(e, (ast.ListComp, ast.GeneratorExp)) and len(e.generators) == 1 and isinstance(e.elt, ast.Tuple) and len(e.elt.elts) == 2:
            t = self.type_of(e.elt.elts[1], record)
            if t is not None and t[0] not in (ROW, PAIRS) and norm_stmt(e.elt.elts[0]) == t[1]:
                return (PAIRS, t[0])
            return None
        if isinstance(e, ast.Call) and dotted(e.func) in ("list", "tuple") and len(e.args) == 1 and not e.keywords:
            t = self.type_of(e.args[0], record)
            return t if t is not None and t[0] == PAIRS else None
        if isinstance(e, ast.Subscript) and isinstance(e.value, ast.Name):
            row = self.locals.get(e.value.id)
            if row is not None and row[0] == ROW:
                return (row[1], norm_stmt(e.slice))
        if isinstance(e, ast.BinOp) and isinstance(e.op, ast.MatMult):
            return self._prod(e, e.left, e.right, record)
        if isinstance(e, ast.Call) and last_attr(e) == "__rmatmul__" and e.args:
            return self._prod(e, e.args[0], e.func.value, record)
        if isinstance(e, ast.Call) and last_attr(e) in ("dot", "__matmul__") and e.args and isinstance(e.func, ast.Attribute):
            return self._prod(e, e.func.value, e.args[0], record)
        if isinstance(e, ast.BinOp) and isinstance(e.op, (ast.Add, ast.Sub)):
            a, b = self.type_of(e.left, record), self.type_of(e.right, record)
            if (a and a[0] in (ROW, PAIRS)) or (b and b[0] in (ROW, PAIRS)):
                return None
            if a and b and a != b and record:
                self.problems.append((e, f"sum of blocks with different keys {a} and {b} in `{norm_stmt(e, 60)}`"))
            return a or b
        if isinstance(e, ast.Call) and last_attr(e) in ("copy", "real", "toarray"):
            return self.type_of(e.func.value, record) if isinstance(e.func, ast.Attribute) else None
        return None

    def _prod(self, node, left, right, record):
        a, b = self.type_of(left, record), self.type_of(right, record)
        if a is None or b is None or a[0] in (ROW, PAIRS) or b[0] in (ROW, PAIRS):
            return None
        if a[1] != b[0] and record:
            self.problems.append((node, f"product of block {a} by block {b} in `{norm_stmt(node, 60)}`: the inner keys differ (chain rule d out/d k . d k/d in needs the same k)"))
        return (a[0], b[1])


def _deep_copied(func, e: ast.AST) -> ast.AST | None:
    """The nested dictionary (or row) of which ``e`` is a copy down to the arrays, None when ``e`` is not such a copy.

    ``copy_jacs(src)`` / ``deepcopy(src)``; ``{k: v.copy() for k, v in src.items()}`` and
    ``{k: src[k].copy() for k in src}`` (no filter: every block is taken over).
    """
    if isinstance(e, ast.Call) and (last_attr(e) == "copy_jacs" or (dotted(e.func) or "").split(".")[-1] == "deepcopy") and len(e.args) == 1 and not e.keywords:
        return e.args[0]
    if isinstance(e, ast.DictComp) and len(e.generators) == 1 and not e.generators[0].ifs:
        g = e.generators[0]
        v = e.value
        copied = v.func.value if isinstance(v, ast.Call) and isinstance(v.func, ast.Attribute) and v.func.attr == "copy" and not v.args else (v.args[0] if isinstance(v, ast.Call) and (dotted(v.func) or "").split(".")[-1] == "deepcopy" and len(v.args) == 1 else None)
        if copied is None:
            return None
        if isinstance(g.target, ast.Tuple) and len(g.target.elts) == 2 and isinstance(g.iter, ast.Call) and last_attr(g.iter) == "items" and not g.iter.args:
            if norm_stmt(e.key) == norm_stmt(g.target.elts[0]) and norm_stmt(copied) == norm_stmt(g.target.elts[1]):
                return g.iter.func.value
            return None
        if isinstance(g.target, ast.Name) and norm_stmt(e.key) == g.target.id and isinstance(copied, ast.Subscript) and norm_stmt(copied.slice) == g.target.id:
            src = g.iter.args[0] if isinstance(g.iter, ast.Call) and dotted(g.iter.func) in ("list", "tuple", "sorted") and len(g.iter.args) == 1 else g.iter
            if isinstance(src, ast.Call) and last_attr(src) == "keys":
                src = src.func.value
            return copied.value if norm_stmt(src) == norm_stmt(copied.value) else None
    return None


def check_reverse_chain_rule(ctx: Ctx) -> None:
    f = ctx.index.method(CH, "MDOChain", "reverse_chain_rule")
    con = cname(CH, "MDOChain", "reverse_chain_rule")
    cfg = cfg_of(f)
    bt = BlockTyper(f, {"self.jac", "discipline.jac"})
    prods = [n for n in walk_body(f) if (isinstance(n, ast.BinOp) and isinstance(n.op, ast.MatMult)) or (isinstance(n, ast.Call) and last_attr(n) in ("__rmatmul__", "dot", "__matmul__", "matmul"))]
    ctx.need(len(prods) >= 2, "reverse_chain_rule: the chain-rule products were not found")
    bad_nodes = {id(n): m for n, m in bt.problems}
    for p in prods:
        t = bt.type_of(p, record=True)
        msg = next((m for n, m in bt.problems if n is p), None)
        ctx.ob("9.1-product", con, msg is None and t is not None, msg or "the product could not be typed", node=p, slots={"type": str(t)})
    # stores into self.jac[o][i]; the row self.jac[o] may be held in a local (assigned once)
    n_defs: dict[str, int] = {}
    for s in stmts_of(f):
        for t_ in (s.targets if isinstance(s, ast.Assign) else [s.target] if isinstance(s, (ast.AugAssign, ast.AnnAssign, ast.For)) else []):
            for x in ast.walk(t_):
                if isinstance(x, ast.Name) and isinstance(x.ctx, ast.Store):
                    n_defs[x.id] = n_defs.get(x.id, 0) + 1
    row_alias = {s.targets[0].id: norm_stmt(s.value.slice) for s in stmts_of(f) if isinstance(s, ast.Assign) and len(s.targets) == 1 and isinstance(s.targets[0], ast.Name) and n_defs.get(s.targets[0].id) == 1 and isinstance(s.value, ast.Subscript) and dotted(s.value.value) == "self.jac"}

    def row_key(e: ast.AST) -> str | None:
        """o when ``e`` is the row ``self.jac[o]`` of the chain's Jacobian (in place or through its local)."""
        if isinstance(e, ast.Subscript) and dotted(e.value) == "self.jac":
            return norm_stmt(e.slice)
        return row_alias.get(e.id) if isinstance(e, ast.Name) else None

    stores = []
    for s in stmts_of(f):
        tgt = None
        if isinstance(s, ast.Assign) and len(s.targets) == 1:
            tgt = s.targets[0]
        elif isinstance(s, ast.AugAssign):
            tgt = s.target
        if isinstance(tgt, ast.Subscript) and row_key(tgt.value) is not None:
            stores.append((s, tgt))
    ctx.need(len(stores) >= 3, "reverse_chain_rule: the three block stores (accumulate operator / accumulate array / plain) were not found")
    for s, tgt in stores:
        want = (row_key(tgt.value), norm_stmt(tgt.slice))
        got = bt.type_of(s.value)
        ctx.ob("9.1-store-key", con, got == want, f"a block of keys {got} is stored at self.jac[{want[0]}][{want[1]}]", node=s, slots={"value": str(got), "slot": str(want)})
        n = cfg.node_of(s)
        # what is known, where the store runs, about "the block [o][i] already exists"
        known, txt_pos, txt_neg = set(), set(), set()
        for t, v in branch_conditions(cfg, n):
            if cfg.kind[t] != "test":
                continue
            for holds, e in _known_literals(cfg.ast[t].test, v):
                (txt_pos if holds else txt_neg).add(norm_stmt(e))
                cp = compare_parts(e)
                holder = cp[2].func.value if cp and isinstance(cp[2], ast.Call) and last_attr(cp[2]) == "keys" and isinstance(cp[2].func, ast.Attribute) and not cp[2].args else (cp[2] if cp else None)
                if cp and cp[1] in (ast.In, ast.NotIn) and norm_stmt(cp[0]) == want[1] and row_key(holder) == want[0]:
                    known.add((cp[1] is ast.In) == holds)
        exists = known.pop() if len(known) == 1 else None
        accumulates = isinstance(s, ast.AugAssign) or (isinstance(s.value, ast.BinOp) and isinstance(s.value.op, ast.Add) and any(isinstance(x, ast.Subscript) and row_key(x.value) == want[0] and norm_stmt(x.slice) == want[1] for x in ast.walk(s.value)))
        if accumulates:
            ctx.ob("9.1-accumulate", con, exists is True, "a contribution is ADDED to the block exactly when the block already exists (whatever the inner variable: the blocks w.r.t. the variables computed by the discipline have been consumed before)", node=s, slots={"conditions": sorted(txt_pos)})
            if isinstance(s, ast.AugAssign):
                ctx.ob("9.1-accumulate", con, isinstance(s.op, ast.Add), "contributions through different inner variables must be summed", node=s, stmt=f"sum: {norm_stmt(s, 70)}")
        else:
            ctx.ob("9.1-accumulate", con, exists is False, "a plain store is only right where the block does not exist yet: elsewhere it discards the contributions of the other paths", node=s, slots={"conditions": sorted(txt_pos), "negated": sorted(txt_neg)})
    # the blocks w.r.t. the variables the discipline computes are consumed (removed from the row) before composing
    pops = [c for c in walk_body(f) if isinstance(c, ast.Call) and last_attr(c) == "pop" and isinstance(c.func, ast.Attribute) and row_key(c.func.value) is not None]
    dels = [d for d in stmts_of(f) if isinstance(d, ast.Delete) and any(isinstance(t_, ast.Subscript) and row_key(t_.value) is not None for t_ in d.targets)]
    ok = bool(pops or dels)
    if ok and stores:
        first_store = min(cfg.node_of(s_) for s_, _ in stores)

        def where(st: ast.stmt) -> int:
            """Where the removal takes place: the statement, or the loop ``for k in S: <remove [k]>`` of which it is
            the whole body (the removal of every key of S, like the comprehension over S)."""
            for lp in stmts_of(f):
                if isinstance(lp, ast.For) and isinstance(lp.target, ast.Name) and len(lp.body) == 1 and lp.body[0] is st and not lp.orelse:
                    keys = [t_.slice for t_ in st.targets if isinstance(t_, ast.Subscript)] if isinstance(st, ast.Delete) else [c.args[0] for c in ast.walk(st) if isinstance(c, ast.Call) and last_attr(c) == "pop" and c.args]
                    if keys and all(isinstance(k_, ast.Name) and k_.id == lp.target.id for k_ in keys):
                        return cfg.node_of(lp)
            return cfg.node_of(st)

        rm = [where(rules.enclosing_stmt(f, c)) for c in pops] + [where(d) for d in dels]
        ok = all(cfg.path(first_store, r_) is None or cfg.dominates(r_, first_store) for r_ in rm) and any(cfg.dominates(r_, first_store) for r_ in rm)
    ctx.ob("9.1-consume", con, ok, "the derivatives of an output with respect to the variables that the discipline COMPUTES must be removed from the row (they are replaced by their chain-rule products) before any contribution is stored: kept, they give wrong derivatives for overwritten variables and for disciplines updating several of their inputs", node=(pops or dels or [f])[0], stmt="blocks w.r.t. the discipline's outputs consumed before composing")
    # ... all of them: the keys removed are the keys the chain rule then goes through
    def iter_of_removal(c_: ast.AST):
        for n_ in walk_body(f):
            if isinstance(n_, (ast.DictComp, ast.ListComp, ast.SetComp, ast.GeneratorExp)) and any(x is c_ for x in ast.walk(n_)) and len(n_.generators) == 1 and not n_.generators[0].ifs:
                return n_.generators[0].iter, n_
        st_ = c_ if isinstance(c_, ast.stmt) else rules.enclosing_stmt(f, c_)
        for lp in stmts_of(f):
            if isinstance(lp, ast.For) and len(lp.body) == 1 and lp.body[0] is st_ and not lp.orelse:
                return lp.iter, lp
        return None, None

    # the loop over the inner variables: it goes, for each of them, through the discipline's row `discipline.jac[<it>]`
    chain_loops = [lp for lp in stmts_of(f) if isinstance(lp, ast.For) and isinstance(lp.target, ast.Name) and any(isinstance(l2, ast.For) and any(isinstance(x, ast.Subscript) and dotted(x.value) == "discipline.jac" and dotted(x.slice) == lp.target.id for x in ast.walk(l2.iter)) for b_ in lp.body for l2 in ast.walk(b_))]
    if len(chain_loops) == 1:
        def keyset(e: ast.AST, at: ast.AST) -> set[str]:
            if isinstance(e, ast.Name) and sum(1 for n_ in walk_body(f) if isinstance(n_, ast.Name) and n_.id == e.id and isinstance(n_.ctx, ast.Store)) == 1:
                return {e.id}  # a local bound once: the same list of keys wherever it is read
            alts = unfolded(f, e)
            if alts is None and isinstance(at, ast.For):
                alts = unfolded(f, at, get=lambda l_: l_.iter)
            return {norm_stmt(a_, 300).replace("sorted(", "(").replace("list(", "(").replace("tuple(", "(") for a_ in (alts or [e])}

        want_keys = keyset(chain_loops[0].iter, chain_loops[0])
        for c_ in [*pops, *dels]:
            it_, host = iter_of_removal(c_)
            if it_ is None:
                continue
            got_keys = keyset(it_, host)
            ctx.ob("9.1-consume", con, got_keys == want_keys, f"the blocks removed from the row are those of `{', '.join(sorted(got_keys))}` while the chain rule goes through `{', '.join(sorted(want_keys))}`: a block that is composed but not removed is counted twice, one that is removed but not composed is lost", node=c_, stmt="the consumed blocks are the composed ones")
    # 9.2 ownership
    whole = [s for s in stmts_of(f) if isinstance(s, ast.Assign) and isinstance(s.targets[0], ast.Subscript) and dotted(s.targets[0].value) == "self.jac"]
    ctx.need(len(whole) == 1, "reverse_chain_rule: initialisation of a new output row not found")
    srcs = [_deep_copied(f, a_) for a_ in (unfolded(f, whole[0].value) or [whole[0].value])]
    ok = bool(srcs) and all(isinstance(x, ast.Subscript) and dotted(x.value) == "discipline.jac" and norm_stmt(x.slice) == norm_stmt(whole[0].targets[0].slice) for x in srcs)
    ctx.ob("9.2-copy", con, ok, "a discipline's Jacobian row taken over by the chain must be copied (copy_jacs): later accumulations (+=) would otherwise modify the discipline's own Jacobian", node=whole[0])
    # the linearisation precedes the use
    lin = [c for c in walk_body(f) if isinstance(c, ast.Call) and norm_stmt(c.func) == "discipline.linearize"]
    ok = len(lin) == 1 and all(cfg.dominates(cfg.node_of(lin[0]), cfg.node_of(s)) for s, _ in stores)
    ctx.ob("9.1-linearize-first", con, ok, "the new discipline must be linearised before its blocks are composed", node=(lin or [f])[0])
    # ... at the inputs it was executed with: a variable overwritten further down the chain has another value in the
    # chain's final data, and the partials of a non-linear discipline taken there are not those of the function computed
    if lin:
        pt = lin[0].args[0] if lin[0].args else kwarg(lin[0], "input_data")
        alts = (unfolded(f, pt) or [pt]) if pt is not None else []
        ok = bool(alts) and all(_all_input_data(ctx, a_, "discipline.io") for a_ in alts)
        ctx.ob("9.6-linearization-point", con, ok, "a discipline of the chain must be linearised at ITS OWN last inputs (discipline.io.get_input_data()), the point at which it was executed, not at the data of the chain after the following disciplines ran", node=lin[0], stmt="discipline.linearize(<its own last inputs>)")
    # curr_jac read from the chain before the loop over new inputs (reference to the block being replaced)
    ctx.floor("9.1-store-key", 3)
    ctx.floor("9.1-product", 2)


def _keys_of(e: ast.AST) -> str | None:
    """Text of D when ``e`` enumerates the keys of the dictionary D: ``D``, ``D.keys()``, ``list/tuple/set/sorted`` of them."""
    while isinstance(e, ast.Call) and dotted(e.func) in ("list", "tuple", "set", "frozenset", "sorted") and len(e.args) == 1 and not e.keywords:
        e = e.args[0]
    if isinstance(e, ast.Call) and last_attr(e) == "keys" and not e.args and isinstance(e.func, ast.Attribute):
        e = e.func.value
    return norm_stmt(e) if isinstance(e, (ast.Name, ast.Attribute, ast.Subscript)) else None


def _removes_unrequested(f, cfg, d: ast.Delete) -> bool:
    """``del D[k]`` runs for every key k of D that is not in ``input_names`` and for no other: either all the keys of D
    are visited and the removal is guarded by ``k not in input_names`` alone, or the keys visited are already
    ``keys(D) - input_names`` (set difference or filtering comprehension) and the removal is not guarded."""
    tgt = d.targets[0]
    if len(d.targets) != 1 or not isinstance(tgt, ast.Subscript) or not isinstance(tgt.slice, ast.Name):
        return False
    d_txt, k = norm_stmt(tgt.value), tgt.slice.id
    loops = [lp for lp in stmts_of(f) if isinstance(lp, ast.For) and isinstance(lp.target, ast.Name) and lp.target.id == k and any(x is d for x in ast.walk(lp))]
    if len(loops) != 1:
        return False
    lp = loops[0]
    requested = ("input_names", "set(input_names)", "frozenset(input_names)")
    guarded = False
    for t, v in branch_conditions(cfg, cfg.node_of(d)):
        if cfg.kind[t] != "test" or not any(x is cfg.ast[t] for x in ast.walk(lp)):
            continue
        for holds, e in _known_literals(cfg.ast[t].test, v):
            cp = compare_parts(e)
            if cp and cp[1] in (ast.In, ast.NotIn) and norm_stmt(cp[0]) == k and norm_stmt(cp[2]) in requested and (cp[1] is ast.NotIn) == holds:
                guarded = True
            else:
                return False  # another restriction: some unrequested blocks would stay (or requested ones go)
    n_all = n_filtered = 0
    alts = unfolded(f, lp.iter) or [lp.iter]
    for it in alts:
        if isinstance(it, ast.Name):
            # a snapshot of the keys taken before the loop (the removals make it opaque for the unfolding)
            defs = [s for s in stmts_of(f) if isinstance(s, ast.Assign) and any(isinstance(t, ast.Name) and t.id == it.id for t in s.targets)]
            if len(defs) == 1 and len(defs[0].targets) == 1 and not any(x is defs[0] for x in ast.walk(lp)) and cfg.dominates(cfg.node_of(defs[0]), cfg.node_of(lp)):
                it = defs[0].value
        while isinstance(it, ast.Call) and dotted(it.func) in ("list", "tuple", "sorted") and len(it.args) == 1 and not it.keywords:
            it = it.args[0]
        if isinstance(it, ast.BinOp) and isinstance(it.op, ast.Sub) and _keys_of(it.left) == d_txt and norm_stmt(it.right) in requested:
            n_filtered += 1
        elif isinstance(it, ast.Call) and last_attr(it) == "difference" and len(it.args) == 1 and _keys_of(it.func.value) == d_txt and norm_stmt(it.args[0]) in requested:
            n_filtered += 1
        elif isinstance(it, (ast.ListComp, ast.SetComp, ast.GeneratorExp)) and len(it.generators) == 1 and isinstance(it.generators[0].target, ast.Name) and norm_stmt(it.elt) == it.generators[0].target.id and _keys_of(it.generators[0].iter) == d_txt:
            g = it.generators[0]
            lits = [l_ for c in g.ifs for l_ in conj_literals(c)]
            cps = [(pol, compare_parts(e)) for pol, e in lits]
            if lits and all(cp and cp[1] in (ast.In, ast.NotIn) and norm_stmt(cp[0]) == g.target.id and norm_stmt(cp[2]) in requested and (cp[1] is ast.NotIn) == pol for pol, cp in cps):
                n_filtered += 1
            elif not lits:
                n_all += 1
        elif _keys_of(it) == d_txt:
            n_all += 1
    return (n_all == len(alts) and guarded) or (n_filtered == len(alts) and not guarded) or (n_filtered == len(alts) and guarded)


class _NotASelection(Exception):
    pass


def _eval_disciplines(e: ast.AST, seq: list):
    """Value of an expression selecting from ``self.disciplines`` (slices, indices, reversed/list/tuple, len and
    integer arithmetic) when ``self.disciplines`` is ``seq``."""
    if dotted(e) == "self.disciplines":
        return list(seq)
    if isinstance(e, ast.Constant) and (e.value is None or type(e.value) is int):
        return e.value
    if isinstance(e, ast.UnaryOp) and isinstance(e.op, ast.USub):
        v = _eval_disciplines(e.operand, seq)
        if type(v) is int:
            return -v
    if isinstance(e, ast.BinOp) and isinstance(e.op, (ast.Add, ast.Sub)):
        a, b = _eval_disciplines(e.left, seq), _eval_disciplines(e.right, seq)
        if type(a) is int and type(b) is int:
            return a + b if isinstance(e.op, ast.Add) else a - b
    if isinstance(e, ast.Call) and not e.keywords and len(e.args) == 1 and dotted(e.func) in ("reversed", "list", "tuple", "len"):
        v = _eval_disciplines(e.args[0], seq)
        if isinstance(v, list):
            return {"reversed": lambda: v[::-1], "list": lambda: v, "tuple": lambda: v, "len": lambda: len(v)}[dotted(e.func)]()
    if isinstance(e, ast.Subscript):
        v = _eval_disciplines(e.value, seq)
        if isinstance(v, list):
            if isinstance(e.slice, ast.Slice):
                parts = [None if x is None else _eval_disciplines(x, seq) for x in (e.slice.lower, e.slice.upper, e.slice.step)]
                if all(x is None or type(x) is int for x in parts) and parts[2] != 0:
                    return v[slice(*parts)]
            else:
                i = _eval_disciplines(e.slice, seq)
                if type(i) is int:
                    return v[i]
    raise _NotASelection(norm_stmt(e))


def _in_chain_order(func, loop: ast.For) -> bool:
    """The loop visits every discipline of ``self.disciplines`` once, from the first to the last: over the sequence
    itself (possibly copied / sliced as a whole) or over ``enumerate`` of it with the discipline as second target."""
    it = loop.iter
    if isinstance(it, ast.Call) and dotted(it.func) == "enumerate" and len(it.args) == 1 and all(k.arg == "start" for k in it.keywords):
        if not (isinstance(loop.target, ast.Tuple) and len(loop.target.elts) == 2 and isinstance(loop.target.elts[1], ast.Name)):
            return False
        it = it.args[0]
    elif not isinstance(loop.target, ast.Name):
        return False
    try:
        return all(_eval_disciplines(a, list(range(n_))) == list(range(n_)) for a in (unfolded(func, it) or [it]) for n_ in range(1, 5))
    except (_NotASelection, IndexError):
        return False


def _overwrites_entries(node: ast.AST, mapping: str) -> bool:
    """``node`` stores entries into ``mapping`` so that a key already there takes the new value: ``mapping.update(..)``,
    ``mapping[k] = v``, ``mapping |= ..`` (not ``setdefault``, which keeps the first value)."""
    if isinstance(node, ast.Call):
        return isinstance(node.func, ast.Attribute) and node.func.attr == "update" and norm_stmt(node.func.value) == mapping
    if isinstance(node, ast.Assign):
        return any(isinstance(t, ast.Subscript) and norm_stmt(t.value) == mapping for t in node.targets)
    if isinstance(node, ast.AugAssign):
        return isinstance(node.op, ast.BitOr) and norm_stmt(node.target) == mapping
    return False


def _shallow_copied(func, e: ast.AST) -> ast.AST | None:
    """The mapping of which ``e`` is a new dictionary with the same entries (at least a shallow copy), else None:
    ``dict(m)``, ``dict(**m)``, ``dict(m.items())``, ``m.copy()``, ``copy(m)``, ``{**m}``, ``{k: v for k, v in m.items()}``
    and the deep copies of :func:`_deep_copied`."""
    if isinstance(e, ast.Call) and dotted(e.func) == "dict":
        if len(e.args) == 1 and not e.keywords:
            a = e.args[0]
            if isinstance(a, ast.Call) and last_attr(a) == "items" and isinstance(a.func, ast.Attribute) and not a.args and not a.keywords:
                return a.func.value
            return a if isinstance(a, (ast.Name, ast.Attribute, ast.Subscript)) else None
        if not e.args and len(e.keywords) == 1 and e.keywords[0].arg is None:
            return e.keywords[0].value
        return None
    if isinstance(e, ast.Call) and isinstance(e.func, ast.Attribute) and e.func.attr == "copy" and not e.args and not e.keywords and dotted(e.func.value) not in ("copy",):
        return e.func.value
    if isinstance(e, ast.Call) and dotted(e.func) in ("copy", "copy.copy") and len(e.args) == 1 and not e.keywords:
        return e.args[0]
    if isinstance(e, ast.Dict) and len(e.keys) == 1 and e.keys[0] is None:
        return e.values[0]
    if isinstance(e, ast.DictComp) and len(e.generators) == 1 and not e.generators[0].ifs:
        g = e.generators[0]
        if isinstance(g.target, ast.Tuple) and len(g.target.elts) == 2 and isinstance(g.iter, ast.Call) and last_attr(g.iter) == "items" and isinstance(g.iter.func, ast.Attribute) and not g.iter.args and [norm_stmt(e.key), norm_stmt(e.value)] == [norm_stmt(x) for x in g.target.elts]:
            return g.iter.func.value
    return _deep_copied(func, e)


def _without_none(func, it: ast.AST, var: str | None = None) -> tuple[ast.AST, bool]:
    """``(X, True)`` when ``it`` enumerates, in order, the elements of X that are not None (``filter(None, X)``,
    ``[j for j in X if j is not None]`` / ``if j``), else ``(it, False)``."""
    if isinstance(it, ast.Call) and dotted(it.func) == "filter" and len(it.args) == 2 and not it.keywords and const_value(it.args[0], 0) is None:
        return it.args[1], True
    if isinstance(it, (ast.ListComp, ast.GeneratorExp)) and len(it.generators) == 1 and isinstance(it.generators[0].target, ast.Name) and norm_stmt(it.elt) == it.generators[0].target.id and it.generators[0].ifs:
        j = it.generators[0].target.id
        lits = [l_ for c in it.generators[0].ifs for l_ in conj_literals(c)]
        if all((pol, norm_stmt(e)) in ((True, f"{j} is not None"), (False, f"{j} is None"), (True, j)) for pol, e in lits):
            return it.generators[0].iter, True
    return it, False


def _rows_replaced_in_order(g) -> tuple[bool, list, list]:
    """MDOParallelChain._compute_jacobian: for each discipline Jacobian returned by ``self.parallel_lin.execute``, in
    that order, and each of its (output, row), the entry [output] of the composite Jacobian is overwritten by a new
    dictionary holding the entries of that row; the only condition is that the discipline has a Jacobian.

    The composite Jacobian is ``self.jac`` or a local that is (unconditionally) assigned to ``self.jac``; the entry is
    written by ``J[o] = copy`` in a loop over the items / the keys of the discipline Jacobian, or by
    ``J.update({o: copy for ...})`` over the same.  Returns (verdict, entry writes, other merges).
    """
    cg = cfg_of(g)
    holders = {"self.jac"}
    for s in stmts_of(g):
        if isinstance(s, ast.Assign) and len(s.targets) == 1 and dotted(s.targets[0]) == "self.jac" and isinstance(s.value, ast.Name):
            defs = [d for d in stmts_of(g) if isinstance(d, (ast.Assign, ast.AugAssign, ast.AnnAssign)) and any(isinstance(t, ast.Name) and t.id == s.value.id for t in (d.targets if isinstance(d, ast.Assign) else [d.target]))]
            if len(defs) == 1 and cg.must_pass(cg.entry, {cg.node_of(s)}):
                holders.add(s.value.id)
    # the results of the linearisations, in the order of the disciplines
    def from_execute(x: ast.AST) -> bool:
        alts = unfolded(g, x) or [x]
        if all(isinstance(a, ast.Call) and norm_stmt(a.func) == "self.parallel_lin.execute" for a in alts):
            return True
        return isinstance(x, ast.Name) and any(isinstance(s, ast.Assign) and isinstance(s.value, ast.Call) and norm_stmt(s.value.func) == "self.parallel_lin.execute" and [dotted(t) for t in s.targets] == [x.id] for s in stmts_of(g))

    jl = []
    for s in stmts_of(g):
        if isinstance(s, ast.For) and isinstance(s.target, ast.Name):
            if from_execute(_without_none(g, s.iter)[0]) or all(from_execute(_without_none(g, a)[0]) for a in (unfolded(g, s.iter) or [s.iter])):
                jl.append(s)
    # every way an entry gets into the composite Jacobian: (statement, key, value, (target, iter) of the enumeration)
    def touches(e: ast.AST) -> bool:
        return any(isinstance(x, (ast.Name, ast.Attribute)) and dotted(x) in holders for x in ast.walk(e))

    writes, merges = [], []
    for s in stmts_of(g):
        if isinstance(s, ast.Assign) and any(isinstance(t, ast.Subscript) and dotted(t.value) in holders for t in s.targets):
            writes.append((s, s.targets[0].slice if len(s.targets) == 1 else None, s.value, None))
        elif isinstance(s, ast.AugAssign) and dotted(s.target) in holders:
            merges.append(s)
    for c in walk_body(g):
        if isinstance(c, ast.Call) and isinstance(c.func, ast.Attribute) and c.func.attr in ("update", "setdefault", "__setitem__"):
            recv = c.func.value
            on_holder = dotted(recv) in holders
            on_row = touches(recv) or (isinstance(recv, ast.Name) and any(isinstance(s, ast.Assign) and dotted(s.targets[0]) == recv.id and touches(s.value) for s in stmts_of(g)))
            if on_holder and c.func.attr == "update" and len(c.args) == 1 and not c.keywords:
                arg = c.args[0]
                alts = unfolded(g, arg) or [arg]
                if len(alts) == 1 and isinstance(alts[0], ast.DictComp) and len(alts[0].generators) == 1 and not alts[0].generators[0].ifs:
                    dc = alts[0]
                    writes.append((rules.enclosing_stmt(g, c), dc.key, dc.value, (dc.generators[0].target, dc.generators[0].iter)))
                    continue
            if on_holder or on_row:
                merges.append(c)
    news = [w[0] for w in writes]
    if len(jl) != 1 or len(writes) != 1 or merges:
        return False, news, merges
    stmt, key, value, enum = writes[0]
    if key is None or not any(x is stmt for x in ast.walk(jl[0])):
        return False, news, merges
    if enum is None:
        inner = [x for x in ast.walk(jl[0]) if isinstance(x, ast.For) and x is not jl[0] and any(y is stmt for y in ast.walk(x))]
        if len(inner) != 1:
            return False, news, merges
        enum = (inner[0].target, inner[0].iter)
    jv = jl[0].target.id
    target, it = enum
    rows = set()
    if isinstance(target, ast.Tuple) and len(target.elts) == 2 and all(isinstance(x, ast.Name) for x in target.elts) and isinstance(it, ast.Call) and last_attr(it) == "items" and isinstance(it.func, ast.Attribute) and dotted(it.func.value) == jv and not it.args:
        k = target.elts[0].id
        rows = {target.elts[1].id, f"{jv}[{k}]"}
    elif isinstance(target, ast.Name) and _keys_of(it) == jv:
        k = target.id
        rows = {f"{jv}[{k}]"}
    else:
        return False, news, merges
    alts = unfolded(g, value) or [value]
    copied = [_shallow_copied(g, a) for a in alts]
    fresh = bool(copied) and all(c is not None and norm_stmt(c) in rows for c in copied)
    # the only condition allowed on the replacement is "this discipline has a Jacobian" (a failed one has None)
    guards = [norm_stmt(cg.ast[tv[0]].test) + ("" if tv[1] else " [false]") for tv in branch_conditions(cg, cg.node_of(stmt)) if cg.kind[tv[0]] == "test"]
    ok = dotted(key) == k and fresh and all(g_ in (f"{jv} is None [false]", f"{jv} is not None", f"{jv}") for g_ in guards)
    return ok, news, merges


def check_compute_jacobian(ctx: Ctx) -> None:
    f = ctx.index.method(CH, "MDOChain", "_compute_jacobian")
    con = cname(CH, "MDOChain", "_compute_jacobian")
    cfg = cfg_of(f)
    init = [s for s in stmts_of(f) if isinstance(s, ast.Assign) and dotted(s.targets[0]) == "self.jac"]
    ok = len(init) == 1 and isinstance(init[0].value, ast.Call) and _deep_copied(f, init[0].value) is not None
    ctx.ob("9.2-copy", con, ok, "the chain's Jacobian must start from a copy of the last discipline's Jacobian", node=(init or [f])[0])
    # which disciplines, in which order: the expressions are evaluated on chains of 1 to 6 disciplines, so that any
    # spelling by slices / reversed / list is understood
    def denotes(e: ast.AST, expected) -> bool:
        alts = unfolded(f, e) or [e]
        try:
            return bool(alts) and all(_eval_disciplines(a, list(range(n_))) == expected(n_) for a in alts for n_ in range(1, 7))
        except (_NotASelection, IndexError):
            return False

    src = _deep_copied(f, init[0].value) if len(init) == 1 else None
    ok = isinstance(src, ast.Attribute) and src.attr == "jac" and denotes(src.value, lambda n_: n_ - 1)
    ctx.ob("9.1-reverse-order", con, ok, "reverse accumulation starts from the last discipline of the chain", node=(init or [f])[0])
    loops = [s for s in stmts_of(f) if isinstance(s, ast.For) and any(isinstance(c, ast.Call) and last_attr(c) == "reverse_chain_rule" for c in ast.walk(s))]
    ok = len(loops) == 1 and denotes(loops[0].iter, lambda n_: list(range(n_ - 2, -1, -1)))
    ctx.ob("9.1-reverse-order", con, ok, "the remaining disciplines must be composed from the last to the first", node=(loops or [f])[0])
    call = [c for c in walk_body(f) if isinstance(c, ast.Call) and last_attr(c) == "reverse_chain_rule"]
    ok = len(call) == 1 and dotted(call[0].args[0]) == "output_names" and loops and dotted(call[0].args[1]) == dotted(loops[0].target)
    ctx.ob("9.1-reverse-order", con, bool(ok), "each remaining discipline is composed for the requested outputs", node=(call or [f])[0])
    # 9.3 removal then zero filling
    dels = [s for s in stmts_of(f) if isinstance(s, ast.Delete)]
    ok = len(dels) == 1
    if ok:
        ok = _removes_unrequested(f, cfg, dels[0])
    ctx.ob("9.3-remove", con, ok, "blocks with respect to names that are not requested inputs must be removed (and only those)", node=(dels or [f])[0])
    _check_zero_fill(ctx, f, con, after=[cfg.node_of(d) for d in dels] + [cfg.node_of(c) for c in call])
    g = ctx.index.method(PC, "MDOParallelChain", "_compute_jacobian")
    _check_zero_fill(ctx, g, cname(PC, "MDOParallelChain", "_compute_jacobian"), after=[])
    # parallel chain: value and Jacobian of an output computed by several disciplines come from the same (last) one
    ex = ctx.index.method(PC, "MDOParallelChain", "_execute")
    loops_e = [s for s in stmts_of(ex) if isinstance(s, ast.For) and _in_chain_order(ex, s)]
    ok_e = len(loops_e) == 1 and any(_overwrites_entries(c, "self.io.data") for c in ast.walk(loops_e[0]))
    ctx.ob("9.3-last-wins", cname(PC, "MDOParallelChain", "_execute"), ok_e, "the outputs are taken discipline by discipline in the order of self.disciplines (the last one computing a name defines it)", node=(loops_e or [ex])[0], stmt="outputs updated in discipline order")
    ok, news, merges = _rows_replaced_in_order(g)
    ctx.ob("9.3-last-wins", cname(PC, "MDOParallelChain", "_compute_jacobian"), bool(ok), "the Jacobian row of an output must be REPLACED by (a copy of) the row of each later discipline computing it, in the order of the disciplines: merging rows keeps blocks of a discipline whose value was overwritten; aliasing the discipline's own row lets the zero filling write into it", node=(news or merges or [g])[0], stmt="row of the last discipline replaces the previous one (copied)")
    # additive chain
    h = ctx.index.method(AC, "MDOAdditiveChain", "_compute_jacobian")
    conh = cname(AC, "MDOAdditiveChain", "_compute_jacobian")
    st = [s for s in stmts_of(h) if isinstance(s, ast.Assign) and isinstance(s.targets[0], ast.Subscript) and isinstance(s.targets[0].value, ast.Subscript) and dotted(s.targets[0].value.value) == "self.jac"]
    ok = len(st) == 1
    if ok:
        want = (norm_stmt(st[0].targets[0].value.slice), norm_stmt(st[0].targets[0].slice))
        alts = unfolded(h, st[0].value) or [st[0].value]
        ok = all(_sums_blocks(h, a, want) for a in alts)
    ctx.ob("9.1-additive", conh, ok, "the additive chain must sum, for each (output, input), the disciplines' blocks of the same (output, input)", node=(st or [h])[0])


def _sums_blocks(func, e: ast.AST, want: tuple[str, str]) -> bool:
    """``e`` is ``sum(<blocks>)`` where every element of <blocks> is a block ``X[o][i]`` with ``(o, i) == want``.

    <blocks> may be a list/generator comprehension (possibly wrapped in ``list``/``tuple``) or a local list built by a
    loop with ``append`` (the locals have been unfolded by the caller).
    """
    if not (isinstance(e, ast.Call) and dotted(e.func) in ("sum", "np_sum", "np.sum", "numpy.sum") and len(e.args) == 1 and not e.keywords):
        return False
    it = e.args[0]
    while isinstance(it, ast.Call) and dotted(it.func) in ("list", "tuple") and len(it.args) == 1 and not it.keywords:
        it = it.args[0]
    if isinstance(it, (ast.ListComp, ast.GeneratorExp)):
        elements = [it.elt] if len(it.generators) == 1 else []
    elif isinstance(it, ast.Name):
        recs = [r for r in accumulated_lists(func) if r["name"] == it.id]
        elements = list(recs[0]["elements"]) if len(recs) == 1 else []
    else:
        elements = []
    return bool(elements) and all(isinstance(x, ast.Subscript) and isinstance(x.value, ast.Subscript) and (norm_stmt(x.value.slice), norm_stmt(x.slice)) == want for x in elements)


def _check_zero_fill(ctx: Ctx, f, con, after) -> None:
    cfg = cfg_of(f)
    calls = rules.self_calls(f, "_init_jacobian")
    ok = len(calls) == 1
    if ok:
        c = calls[0]
        fm = kwarg(c, "fill_missing_keys")
        ok = const_value(fm) is True and [dotted(a) for a in c.args[:2]] == ["input_names", "output_names"]
        n = cfg.node_of(c)
        ok = ok and cfg.must_pass(cfg.entry, {n}) and all(cfg.reachable(a, n) and not cfg.reachable(n, a) for a in after)
    ctx.ob("9.3-zero-fill", con, ok, "the composite Jacobian must end with _init_jacobian(input_names, output_names, fill_missing_keys=True): independent (output, input) pairs get zero blocks of the right shape and existing blocks are kept", node=(calls or [f])[0])


def check_init_jacobian(ctx: Ctx) -> None:
    f = ctx.index.method(DI, "Discipline", "_init_jacobian")
    con = cname(DI, "Discipline", "_init_jacobian")
    cfg = cfg_of(f)
    enum = ctx.index.cls(DI, "Discipline.InitJacobianType")
    members = [t.id for s in enum.node.body if isinstance(s, ast.Assign) for t in s.targets if isinstance(t, ast.Name)]
    handled = set()
    for n in cfg.nodes(lambda k: cfg.kind[k] == "test"):
        cp = compare_parts(cfg.ast[n].test)
        if cp and cp[1] is ast.Eq and (dotted(cp[2]) or "").startswith("self.InitJacobianType."):
            handled.add(dotted(cp[2]).split(".")[-1])
    ctx.ob("9.3-init-types", con, set(members) == handled and len(members) >= 2, f"every Jacobian initialisation type must be handled: enum {members}, handled {sorted(handled)}", node=f, stmt="InitJacobianType exhaustive")
    stores = [s for s in stmts_of(f) if isinstance(s, ast.Assign) and isinstance(s.targets[0], ast.Subscript) and isinstance(s.value, ast.Call) and dotted(s.value.func) == "default_matrix"]
    ctx.need(len(stores) == 2, "_init_jacobian: the two zero-block stores were not found")
    for s in stores:
        n = cfg.node_of(s)
        loops = [cfg.ast[t] for (t, v), b in cfg.branch.items() if v and cfg.kind[t] == "loop" and cfg.dominates(b, n)]
        # innermost two loops: for output_name, output_size in ...: for input_name, input_size in ...
        pairs = {}
        for lp in loops:
            if isinstance(lp.target, ast.Tuple) and len(lp.target.elts) == 2:
                pairs[dotted(lp.target.elts[0])] = (dotted(lp.target.elts[1]), norm_stmt(lp.iter))
        shape = s.value.args[0]
        ok = isinstance(shape, ast.Tuple) and len(shape.elts) == 2
        if ok:
            rows, cols = dotted(shape.elts[0]), dotted(shape.elts[1])
            col_key = dotted(s.targets[0].slice)
            row_key = next((k for k in pairs if k != col_key), None)
            ok = col_key in pairs and row_key is not None and pairs[col_key][0] == cols and pairs[row_key][0] == rows and "output" in pairs[row_key][1] and "input" in pairs[col_key][1]
            # the row dictionary is the one of the row key
            row_dict = dotted(s.targets[0].value)
            rd = [x for x in stmts_of(f) if isinstance(x, ast.Assign) and dotted(x.targets[0]) == row_dict and row_key in names_in(x.value)]
            ok = ok and bool(rd)
        ctx.ob("9.3-zero-shape", con, ok, "a zero block stored at [output][input] must have the shape (size of that output, size of that input)", node=s)
    fill = [s for s in stores if any(v and norm_stmt(cfg.ast[t].test) == "fill_missing_keys" for t, v in branch_conditions(cfg, cfg.node_of(s)) if cfg.kind[t] == "test")]
    ok = len(fill) == 1
    if ok:
        # the store runs only where the block is known to be missing: `D.get(k) is None` (possibly through a local) or
        # `k not in D`, for the very D[k] that is stored
        tgt = fill[0].targets[0]
        d_txt, k_txt = norm_stmt(tgt.value), norm_stmt(tgt.slice)

        def reads_block(x: ast.AST) -> bool:
            alts = unfolded(f, x) or [x]
            return all(isinstance(a, ast.Call) and last_attr(a) == "get" and norm_stmt(a.func.value) == d_txt and a.args and norm_stmt(a.args[0]) == k_txt and (len(a.args) == 1 or const_value(a.args[1], 0) is None) and not a.keywords for a in alts)

        missing = False
        for t, v in branch_conditions(cfg, cfg.node_of(fill[0])):
            if cfg.kind[t] != "test":
                continue
            for holds, e in _known_literals(cfg.ast[t].test, v):
                cp = compare_parts(e)
                if not cp:
                    continue
                if cp[1] in (ast.Is, ast.IsNot, ast.Eq, ast.NotEq) and isinstance(cp[2], ast.Constant) and cp[2].value is None and reads_block(cp[0]):
                    missing = missing or ((cp[1] in (ast.Is, ast.Eq)) == holds)
                elif cp[1] in (ast.In, ast.NotIn) and norm_stmt(cp[0]) == k_txt and norm_stmt(cp[2]) in (d_txt, d_txt + ".keys()"):
                    missing = missing or ((cp[1] is ast.NotIn) == holds)
        ok = missing
    ctx.ob("9.3-keep-existing", con, ok, "with fill_missing_keys only the missing blocks may be created: an existing block must not be overwritten by zeros", node=(fill or stores)[0])


def _known_literals(test: ast.AST, value: bool) -> list[tuple[bool, ast.AST]]:
    """(truth value, expression) of the plain conditions known once ``test`` evaluated to ``value``:
    every conjunct of ``a and not b`` on its true side, every disjunct of ``a or b`` (negated) on its false side."""
    if value:
        return conj_literals(test)
    if isinstance(test, ast.BoolOp) and isinstance(test.op, ast.Or):
        out = []
        for v in test.values:
            out += _known_literals(v, False)
        return out
    if isinstance(test, ast.UnaryOp) and isinstance(test.op, ast.Not):
        return _known_literals(test.operand, True)
    if isinstance(test, ast.BoolOp):
        return []
    return [(False, test)]


def _eval_flag(e: ast.AST, env: dict):
    """Value of a small integer/boolean expression over the names of ``env`` (constants, not, int/bool, + - and
    conditional expressions)."""
    if isinstance(e, ast.Constant) and type(e.value) in (int, bool):
        return e.value
    if isinstance(e, ast.Name) and e.id in env:
        return env[e.id]
    if isinstance(e, ast.UnaryOp) and isinstance(e.op, ast.Not):
        return not _eval_flag(e.operand, env)
    if isinstance(e, ast.UnaryOp) and isinstance(e.op, ast.USub):
        return -_eval_flag(e.operand, env)
    if isinstance(e, ast.Call) and dotted(e.func) in ("int", "bool") and len(e.args) == 1 and not e.keywords:
        v = _eval_flag(e.args[0], env)
        return int(v) if dotted(e.func) == "int" else bool(v)
    if isinstance(e, ast.BinOp) and isinstance(e.op, (ast.Add, ast.Sub)):
        a, b = _eval_flag(e.left, env), _eval_flag(e.right, env)
        return a + b if isinstance(e.op, ast.Add) else a - b
    if isinstance(e, ast.IfExp):
        return _eval_flag(e.body if _eval_flag(e.test, env) else e.orelse, env)
    raise _NotASelection(norm_stmt(e))


_GROWING = {"update", "add", "extend", "append"}
_MUTATORS = _GROWING | {"pop", "clear", "remove", "insert", "sort", "setdefault", "discard", "popitem", "reverse", "intersection_update", "difference_update", "symmetric_difference_update", "__delitem__"}


def _extends(func, e: ast.AST, attr: str, depth: int = 0) -> bool:
    """``e`` contains every name of ``self.<attr>``: a union (``.union`` / ``|``) or a concatenation one side of
    which is (a collection made from) ``self.<attr>``, possibly wrapped in list/set/sorted/tuple, or a local collection
    initialised from ``self.<attr>`` and only grown afterwards (update / add / extend / append / ``|=`` / ``+=``)."""

    def holds_old(x: ast.AST) -> bool:
        while isinstance(x, ast.Call) and dotted(x.func) in ("list", "set", "tuple", "sorted", "frozenset") and len(x.args) == 1 and not x.keywords:
            x = x.args[0]
        if isinstance(x, ast.Starred):
            x = x.value
        return (isinstance(x, ast.Attribute) and x.attr == attr and dotted(x.value) == "self") or _extends(func, x, attr, depth + 1)

    if depth > 4:
        return False
    while isinstance(e, ast.Call) and dotted(e.func) in ("list", "set", "tuple", "sorted", "frozenset") and len(e.args) == 1 and not e.keywords:
        e = e.args[0]
    if isinstance(e, ast.Call) and last_attr(e) == "union" and isinstance(e.func, ast.Attribute):
        return holds_old(e.func.value) or any(holds_old(x) for x in e.args)
    if isinstance(e, ast.BinOp) and isinstance(e.op, (ast.BitOr, ast.Add)):
        return holds_old(e.left) or holds_old(e.right)
    if isinstance(e, (ast.List, ast.Set, ast.Tuple)):
        return any(isinstance(x, ast.Starred) and holds_old(x) for x in e.elts)
    if isinstance(e, ast.Name):
        defs = [s for s in stmts_of(func) if isinstance(s, (ast.Assign, ast.AugAssign, ast.AnnAssign)) and any(isinstance(t, ast.Name) and t.id == e.id for t in (s.targets if isinstance(s, ast.Assign) else [s.target]))]
        plain = [s for s in defs if isinstance(s, ast.Assign)]
        if len(plain) != 1 or len(plain[0].targets) != 1 or not holds_old(plain[0].value):
            return False
        if any(not (isinstance(s, ast.AugAssign) and isinstance(s.op, (ast.BitOr, ast.Add))) for s in defs if s is not plain[0]):
            return False
        calls = [c for c in walk_body(func) if isinstance(c, ast.Call) and isinstance(c.func, ast.Attribute) and isinstance(c.func.value, ast.Name) and c.func.value.id == e.id and c.func.attr in _MUTATORS]
        return all(c.func.attr in _GROWING for c in calls)
    return False


def check_cache_and_traversal(ctx: Ctx) -> None:
    f = ctx.index.method(CH, "MDOChain", "_compute_diff_in_outs")
    con = cname(CH, "MDOChain", "_compute_diff_in_outs")
    cfg = cfg_of(f)
    # The request key: (set(input_names), set(output_names)), written in place or through locals.
    def key_texts(e):
        alts = unfolded(f, e) or [e]
        ok_ = all(isinstance(a, ast.Tuple) and sorted(norm_stmt(x) for x in a.elts) in (["set(input_names)", "set(output_names)"], ["frozenset(input_names)", "frozenset(output_names)"]) for a in alts)
        return {norm_stmt(a) for a in alts} if ok_ else None

    key = [s for s in stmts_of(f) if isinstance(s, ast.Assign) and isinstance(s.value, ast.Tuple) and key_texts(s.value)]
    trav = [c for c in walk_body(f) if isinstance(c, ast.Call) and dotted(c.func) == "traverse_add_diff_io"]
    upd = [s for s in stmts_of(f) if isinstance(s, ast.Assign) and any(dotted(t) == "self._last_diff_inouts" for t in s.targets)]
    ok = len(trav) == 1 and [dotted(a) for a in trav[0].args[1:3]] == ["input_names", "output_names"]
    if ok:
        tn = cfg.node_of(trav[0])
        # branches on which the request is known to EQUAL the last one: `last == key` true, `last != key` false
        same, keys = set(), set()
        for n in cfg.nodes(lambda k: cfg.kind[k] == "test"):
            for value in (True, False):
                for holds, e in _known_literals(cfg.ast[n].test, value):
                    cp = compare_parts(e)
                    if not cp or cp[1] not in (ast.Eq, ast.NotEq):
                        continue
                    other = [x for x in (cp[0], cp[2]) if dotted(x) != "self._last_diff_inouts"]
                    if len(other) != 1:
                        continue
                    kt = key_texts(other[0])
                    equal = (cp[1] is ast.Eq) == holds
                    if kt and equal and (n, value) in cfg.branch:
                        same.add(cfg.branch[(n, value)])
                        keys |= kt
        # the traversal is skipped only where the whole request equals the last one (no cache at all: never skipped)
        ok = cfg.path(cfg.entry, cfg.exit, avoid={tn} | same) is None
        if same:
            # ... and the remembered request is the one just traversed
            un = [cfg.node_of(u) for u in upd]
            ok = ok and bool(upd) and all((key_texts(u.value) or {"?"}) <= keys for u in upd) and (cfg.must_pass(tn, un) or any(cfg.dominates(u_, tn) for u_ in un))
            # ... and is remembered after having been compared, not before
            ok = ok and not any(cfg.reachable(u_, cfg.branch_of[b][0]) for u_ in un for b in same)
    ctx.ob("9.4-cache-key", con, ok, "the traversal must be redone whenever (set(input_names), set(output_names)) differs from the last request, and the key updated with it", node=(key or [f])[0])
    # 9.5 slots
    g = ctx.index.func(CR, "_bfs_one_way_diff_io")
    cong = cname(CR, None, "_bfs_one_way_diff_io")
    cg = cfg_of(g)
    # the slot each extension writes, per direction: the slot expression is unfolded in the function specialised on
    # `reverse` and evaluated, so that constants per branch, int(reverse), 1 - other ... are all understood
    ext = [c for c in walk_body(g) if isinstance(c, ast.Call) and last_attr(c) == "extend" and isinstance(c.func.value, ast.Subscript)]
    ctx.need(len(ext) == 2, "_bfs_one_way_diff_io: the two slot extensions were not found")

    def slot_value(c: ast.Call, rev: bool):
        alts = unfolded(g, c, facts={"reverse": rev}, get=lambda c_: c_.func.value.slice if isinstance(c_, ast.Call) else None) or []
        vals = set()
        for a in alts:
            try:
                vals.add(int(_eval_flag(a, {"reverse": rev})))
            except _NotASelection:
                return None
        return vals.pop() if len(vals) == 1 else None

    slots = {id(c): (slot_value(c, False), slot_value(c, True)) for c in ext}
    asg = sorted(slots.values(), key=str)
    ctx.ob("9.5-slots", cong, asg == [(0, 1), (1, 0)], f"slot indices of (inputs, outputs): forward traversal (0, 1), reverse traversal (1, 0); found (forward, reverse) slots of the two extensions {asg}", node=g, stmt="slot indices per direction")
    rv = [s for s in stmts_of(g) if isinstance(s, ast.Assign) and isinstance(s.value, ast.Call) and dotted(s.value.func) == "reverse_view"]
    ok = len(rv) == 1 and any(v and norm_stmt(cg.ast[t].test) == "reverse" for t, v in branch_conditions(cg, cg.node_of(rv[0])) if cg.kind[t] == "test") and dotted(rv[0].targets[0]) == dotted(rv[0].value.args[0])
    ctx.ob("9.5-slots", cong, ok, "the reverse traversal must walk the reversed graph", node=(rv or [g])[0])
    # which end of the edge each extended pair belongs to: every key under which the pair is read from / stored into
    # the mapping (get / setdefault / [] / store) is the same edge[i]
    def edge_end(holder: ast.AST):
        if not isinstance(holder, ast.Name):
            return None
        keys = []
        for s in stmts_of(g):
            if not isinstance(s, ast.Assign) or len(s.targets) != 1:
                continue
            t, v = s.targets[0], s.value
            if isinstance(t, ast.Name) and t.id == holder.id:
                if isinstance(v, ast.Call) and last_attr(v) in ("get", "setdefault") and v.args and isinstance(v.func, ast.Attribute):
                    keys.append(v.args[0])
                elif isinstance(v, ast.Subscript):
                    keys.append(v.slice)
                elif not (isinstance(v, ast.Tuple) and all(isinstance(x, ast.List) and not x.elts for x in v.elts)):
                    return None  # bound to something that is not an entry of the mapping nor a new empty pair
            elif isinstance(t, ast.Subscript) and isinstance(v, ast.Name) and v.id == holder.id:
                keys.append(t.slice)
        ends = set()
        for k in keys:
            for a in unfolded(g, k) or [k]:
                ends.add(const_value(a.slice) if isinstance(a, ast.Subscript) and dotted(a.value) == "edge" and isinstance(a.slice, ast.Constant) else None)
        return ends.pop() if len(ends) == 1 else None

    got = {}
    for c in ext:
        got[edge_end(c.func.value.value)] = slots[id(c)]
    ctx.ob("9.5-slots", cong, got == {0: (1, 0), 1: (0, 1)}, f"the edge origin receives the shared names in its outputs slot (1; 0 in the reversed graph) and the edge destination in its inputs slot (0; 1 in the reversed graph); found {{edge end: (forward, reverse) slot}} = {got}", node=ext[0], stmt="edge[0] -> outputs slot, edge[1] -> inputs slot")
    m = ctx.index.func(CR, "_merge_diff_ios")
    inter = [s for s in stmts_of(m) if isinstance(s, ast.Assign) and ((isinstance(s.value, ast.Call) and last_attr(s.value) == "intersection") or (isinstance(s.value, ast.BinOp) and isinstance(s.value.op, ast.BitAnd)))]
    ok = len(inter) == 2
    for s in inter:
        idx = [const_value(x.slice) for x in ast.walk(s.value) if isinstance(x, ast.Subscript) and isinstance(x.slice, ast.Constant)]
        ok = ok and len(set(idx)) == 1 and (("inputs" in dotted(s.targets[0])) == (idx[0] == 0))
    ctx.ob("9.5-merge", cname(CR, None, "_merge_diff_ios"), ok, "the merge must intersect inputs with inputs (slot 0) and outputs with outputs (slot 1)", node=(inter or [m])[0])
    t = ctx.index.func(CR, "traverse_add_diff_io")
    calls = [c for c in walk_body(t) if isinstance(c, ast.Call) and dotted(c.func) == "_bfs_one_way_diff_io"]
    ok = len(calls) == 2
    if ok:
        init = [s for s in stmts_of(t) if isinstance(s, ast.Assign) and isinstance(s.value, ast.Call) and dotted(s.value.func) == "_initialize_add_diff_io"]
        src_in, src_out = (dotted(e) for e in init[0].targets[0].elts[:2]) if init else (None, None)
        kinds = {}
        for c in calls:
            rvk = kwarg(c, "reverse")
            kinds[const_value(rvk)] = dotted(c.args[1])
        ok = kinds == {False: src_in, True: src_out}
    ctx.ob("9.5-slots", cname(CR, None, "traverse_add_diff_io"), ok, "the forward traversal starts from the disciplines holding requested inputs, the reverse one from those holding requested outputs", node=(calls or [t])[0])
    # 9.6 monotone
    for mname, attr in (("add_differentiated_inputs", "_differentiated_input_names"), ("add_differentiated_outputs", "_differentiated_output_names")):
        a = ctx.index.method(DI, "Discipline", mname)
        asg_ = rules.assigns_to_self(a, attr)
        ok = len(asg_) == 1 and isinstance(asg_[0], ast.Assign) and _extends(a, asg_[0].value, attr)
        if len(asg_) == 1 and isinstance(asg_[0], ast.AugAssign):
            ok = isinstance(asg_[0].op, (ast.Add, ast.BitOr))  # self.attr += new / |= new keeps the old names
        ctx.ob("9.6-monotone", cname(DI, "Discipline", mname), ok, f"{mname} must extend {attr} with the union of the old names and the new ones: a later, smaller request must not drop blocks requested before", node=(asg_ or [a])[0])


def check_mda_chain_point(ctx: Ctx) -> None:
    f = ctx.index.method("mda/mda_chain.py", "MDAChain", "_compute_jacobian")
    con = cname("mda/mda_chain.py", "MDAChain", "_compute_jacobian")
    lin = [c for c in walk_body(f) if isinstance(c, ast.Call) and norm_stmt(c.func) == "self.mdo_chain.linearize"]
    ctx.need(len(lin) == 1, "MDAChain._compute_jacobian: self.mdo_chain.linearize not found")
    pt = lin[0].args[0] if lin[0].args else kwarg(lin[0], "input_data")
    alts = (unfolded(f, pt) or [pt]) if pt is not None else []
    ok = bool(alts) and all(_all_input_data(ctx, a_, "self.io") for a_ in alts)
    ctx.ob("9.6-linearization-point", con, ok, "the inner chain must be linearised at the inputs of the MDA chain", node=lin[0], stmt="mdo_chain.linearize(self.io.get_input_data())")
    ex = kwarg(lin[0], "execute")
    ok = ex is None or const_value(ex, None) is True
    ctx.ob("9.6-linearization-point", con, ok, "the inner chain must be (re-)executed at that point when it is linearised: after a cache hit of the MDA chain, or a request at an earlier point, the inner disciplines hold the data of ANOTHER point and execute=False returns the blocks of that point", node=lin[0], stmt="mdo_chain.linearize executes at the requested point")


def check_operator_products(ctx: Ctx) -> None:
    """9.7: the chain rule composes blocks with ``@``; for matrix-free blocks (JacobianOperator) the product is built by
    ``__matmul__`` / ``__rmatmul__``: ``A @ B`` is the composition with A on the left, whichever of the two methods
    Python dispatches to (reverse_chain_rule calls ``new_jac.__rmatmul__(curr_jac)`` for ``curr_jac @ new_jac``)."""
    jop = "core/derivatives/jacobian_operator.py"
    n = 0
    for meth, left_is_self in (("__matmul__", True), ("__rmatmul__", False)):
        f = ctx.index.method(jop, "JacobianOperator", meth)
        other = f.args.args[1].arg
        want = ["self", other] if left_is_self else [other, "self"]
        for r in [s_ for s_ in stmts_of(f) if isinstance(s_, ast.Return)]:
            for v in unfolded(f, r, get=lambda s_: s_.value) or [r.value]:
                n += 1
                ok = isinstance(v, ast.Call) and [dotted(a_) for a_ in v.args[:2]] == want and not v.keywords
                ctx.ob("9.7-operator-product", cname(jop, "JacobianOperator", meth), ok, f"{meth}(self, {other}) must build the product with operands ({', '.join(want)}) in that order (left factor first): swapped, the chain rule of two matrix-free blocks is dB.dA instead of dA.dB", node=r, stmt=f"{meth}: {norm_stmt(r, 70)}")
    ctx.floor("9.7-operator-product", 4)
    # the composed operator applies the right factor first: (A B) x = A (B x)
    for cls in ctx.index.module(jop).classes.values():
        if not cls.name.startswith("_ComposedOperation"):
            continue
        mv = cls.methods.get("_matvec") or cls.methods.get("_matmat")
        if mv is None:
            continue
        rets = [s_ for s_ in stmts_of(mv) if isinstance(s_, ast.Return) and s_.value is not None]
        for r in rets:
            txt = norm_stmt(r.value, 200)
            i1, i2 = txt.find("_operand_1"), txt.find("_operand_2")
            ok = i1 != -1 and i2 != -1 and i1 < i2
            ctx.ob("9.7-operator-product", cname(jop, cls.name, mv.name), ok, f"the product applies its right operand first and its left operand to the result (found `{txt}`)", node=r, stmt=f"{cls.name}: left(right(x))")


def run(ctx: Ctx) -> None:
    check_operator_products(ctx)
    check_mda_chain_point(ctx)
    check_reverse_chain_rule(ctx)
    check_compute_jacobian(ctx)
    check_init_jacobian(ctx)
    check_cache_and_traversal(ctx)
    # copy_jacs copies every array
    f = ctx.index.method(CH, "MDOChain", "copy_jacs")
    _check_copy_jacs(ctx, f)


def _check_copy_jacs(ctx: Ctx, f) -> None:
    """Every value stored into the copy is new down to the arrays: ``a.copy()`` / ``deepcopy(a)`` of an array, a
    dictionary built from such values (comprehension), or a new empty dictionary that is itself filled that way."""
    cfg = cfg_of(f)
    local_values: dict[str, list[ast.AST]] = {}
    for s in stmts_of(f):
        if isinstance(s, ast.Assign):
            for t in s.targets:
                if isinstance(t, ast.Name):
                    local_values.setdefault(t.id, []).append(s.value)
    leaves: list[ast.AST] = []

    def fresh(e: ast.AST, at: int, depth: int = 0) -> bool:
        if isinstance(e, ast.Call) and (dotted(e.func) or "").split(".")[-1] == "deepcopy" and len(e.args) == 1:
            leaves.append(e)
            return True
        if isinstance(e, ast.Call) and isinstance(e.func, ast.Attribute) and e.func.attr == "copy" and not e.args:
            # the copy of a DICTIONARY is shallow: its arrays stay shared
            if literal_facts(cfg, at).get(f"isinstance({norm_stmt(e.func.value)}, dict)") is True:
                return False
            leaves.append(e)
            return True
        if isinstance(e, ast.DictComp):
            return fresh(e.value, at, depth)
        if isinstance(e, ast.IfExp):
            return fresh(e.body, at, depth) and fresh(e.orelse, at, depth)
        if (isinstance(e, ast.Dict) and not e.keys) or (isinstance(e, ast.Call) and dotted(e.func) == "dict" and not e.args and not e.keywords):
            return True
        if isinstance(e, ast.Name) and depth < 3 and e.id in local_values:
            return all(fresh(v, at, depth + 1) for v in local_values[e.id])
        return False

    st = [s for s in stmts_of(f) if isinstance(s, ast.Assign) and any(isinstance(t, ast.Subscript) for t in s.targets)]
    bad = [s for s in st if not fresh(s.value, cfg.node_of(s))]
    # other ways of putting entries into a dictionary
    merges = [c for c in walk_body(f) if isinstance(c, ast.Call) and last_attr(c) in ("update", "setdefault") and c.args]
    bad += [c for c in merges if not fresh(c.args[-1], cfg.node_of(c))]
    bad += [s for s in stmts_of(f) if isinstance(s, ast.AugAssign) and isinstance(s.op, ast.BitOr) and not fresh(s.value, cfg.node_of(s))]
    rets = [r for r in walk_body(f) if isinstance(r, ast.Return) and r.value is not None]
    bad += [r for r in rets if not fresh(r.value, cfg.node_of(r))]
    n_leaves = len({id(x) for x in leaves})
    whole = any(isinstance(x, ast.Call) and (dotted(x.func) or "").split(".")[-1] == "deepcopy" and x.args and dotted(x.args[0]) == "jacobian" for x in leaves)
    # a row is a dictionary of arrays or (JacobianOperator, array) itself: both kinds are copied
    ctx.ob("9.2-copy", cname(CH, "MDOChain", "copy_jacs"), bool(rets) and not bad and (n_leaves >= 2 or whole), "copy_jacs must copy every array of the nested dictionary", node=(bad or leaves or [f])[0])


# ---------------------------------------------------------------------------
WITNESSES = [
    {"name": "seeded-C09-10", "file": "core/derivatives/jacobian_operator.py", "old": "            return _ComposedOperationArrayOperator(other, self)\n        return _ComposedOperationOperatorOperator(other, self)\n\n", "new": "            return _ComposedOperationArrayOperator(other, self)\n        return _ComposedOperationOperatorOperator(self, other)\n\n", "expect": "9.7", "note": "JacobianOperator.__rmatmul__ composes two operators in the wrong order"},
    {"name": "consume-all-but-the-first-common-input", "file": "core/chains/chain.py", "old": "                    for input_name in common_inputs\n                }", "new": "                    for input_name in common_inputs[1:]\n                }", "expect": "9.1"},
    {"name": "overwritten-variable-block-kept", "file": CH, "old": "                consumed_jac = {\n                    input_name: self.jac[output_name].pop(input_name)\n                    for input_name in common_inputs\n                }\n", "new": "                consumed_jac = {\n                    input_name: self.jac[output_name][input_name]\n                    for input_name in common_inputs\n                }\n", "expect": "9.1"},
    {"name": "contribution-stored-over-existing-block", "file": CH, "old": "                        if new_in in self.jac[output_name]:\n", "new": "                        if new_in in self.jac[output_name] and input_name != new_in:\n", "expect": "9.1"},
    {"name": "product-reversed", "file": CH, "old": "                            loc_dot = curr_jac @ new_jac", "new": "                            loc_dot = new_jac @ curr_jac", "expect": "9.1"},
    {"name": "operator-product-reversed", "file": CH, "old": "loc_dot = new_jac.__rmatmul__(curr_jac)", "new": "loc_dot = curr_jac.__rmatmul__(new_jac)", "expect": "9.1"},
    {"name": "store-at-inner-key", "file": CH, "old": "                            self.jac[output_name][new_in] = loc_dot\n", "new": "                            self.jac[output_name][input_name] = loc_dot\n", "expect": "9.1"},
    {"name": "overwrite-shared-input", "file": CH, "old": "                                self.jac[output_name][new_in] += loc_dot", "new": "                                self.jac[output_name][new_in] = loc_dot", "expect": "9.1"},
    {"name": "subtract-contribution", "file": CH, "old": "                                self.jac[output_name][new_in] += loc_dot", "new": "                                self.jac[output_name][new_in] -= loc_dot", "expect": "9.1"},
    {"name": "row-not-copied", "file": CH, "old": "self.jac[output_name] = MDOChain.copy_jacs(discipline.jac[output_name])", "new": "self.jac[output_name] = discipline.jac[output_name]", "expect": "9.2"},
    {"name": "last-jacobian-not-copied", "file": CH, "old": "        self.jac = self.copy_jacs(last_discipline.jac)", "new": "        self.jac = last_discipline.jac", "expect": "9.2"},
    {"name": "copy_jacs-shallow", "file": CH, "old": "                    output_jacobian_copy[input_name] = derivatives.copy()", "new": "                    output_jacobian_copy[input_name] = derivatives", "expect": "9.2"},
    {"name": "forward-order", "file": CH, "old": "        for discipline in remaining_disciplines[::-1]:", "new": "        for discipline in remaining_disciplines:", "expect": "9.1"},
    {"name": "start-from-first", "file": CH, "old": "        last_discipline = self.disciplines[-1]", "new": "        last_discipline = self.disciplines[0]", "expect": "9.1"},
    {"name": "no-zero-fill", "file": CH, "old": "            fill_missing_keys=True,\n            init_type=Discipline.InitJacobianType.SPARSE,", "new": "            fill_missing_keys=False,\n            init_type=Discipline.InitJacobianType.SPARSE,", "expect": "9.3"},
    {"name": "parallel-no-zero-fill", "file": PC, "old": "        self._init_jacobian(\n            input_names,\n            output_names,\n            fill_missing_keys=True,\n            init_type=self.InitJacobianType.SPARSE,\n        )\n", "new": "", "expect": "9.3"},
    {"name": "remove-requested-inputs", "file": CH, "old": "                if input_name not in input_names:\n                    del output_jacobian[input_name]", "new": "                if input_name in input_names:\n                    del output_jacobian[input_name]", "expect": "9.3"},
    {"name": "parallel-merges-rows", "file": PC, "old": "                self.jac[output_name] = dict(output_jacobian)", "new": "                self.jac.setdefault(output_name, {}).update(output_jacobian)", "expect": "9.3"},
    {"name": "parallel-first-discipline-wins", "file": PC, "old": "                self.jac[output_name] = dict(output_jacobian)", "new": "                self.jac.setdefault(output_name, dict(output_jacobian))", "expect": "9.3"},
    {"name": "parallel-row-aliases-discipline-jacobian", "file": PC, "old": "                self.jac[output_name] = dict(output_jacobian)", "new": "                self.jac[output_name] = output_jacobian", "expect": "9.3"},
    {"name": "zero-shape-transposed", "file": DI, "old": "                        jac_loc[input_name] = default_matrix((output_size, input_size))\n        else:", "new": "                        jac_loc[input_name] = default_matrix((input_size, output_size))\n        else:", "expect": "9.3"},
    {"name": "fill-overwrites", "file": DI, "old": "                    sub_jac = jac_loc.get(input_name)\n                    if sub_jac is None:\n                        jac_loc[input_name]", "new": "                    sub_jac = jac_loc.get(input_name)\n                    if True:\n                        jac_loc[input_name]", "expect": "9.3"},
    {"name": "cache-key-inputs-only", "file": CH, "old": "        diff_ios = (set(input_names), set(output_names))\n        if self._last_diff_inouts != diff_ios:", "new": "        diff_ios = set(input_names)\n        if self._last_diff_inouts != diff_ios:", "expect": "9.4"},
    {"name": "reverse-slots-not-swapped", "file": CR, "old": "        inputs_source_edge_index = 1\n        outputs_dest_edge_index = 0", "new": "        inputs_source_edge_index = 0\n        outputs_dest_edge_index = 1", "expect": "9.5"},
    {"name": "edge-ends-swapped", "file": CR, "old": "            disc_1 = edge[0]", "new": "            disc_1 = edge[1]", "expect": "9.5"},
    {"name": "merge-crosses-slots", "file": CR, "old": "diff_inputs = set(in_out_1[0]).intersection(in_out_2[0])", "new": "diff_inputs = set(in_out_1[0]).intersection(in_out_2[1])", "expect": "9.5"},
    {"name": "reverse-traversal-from-inputs", "file": CR, "old": "diff_io_reverse = _bfs_one_way_diff_io(graph, source_output_disc, reverse=True)", "new": "diff_io_reverse = _bfs_one_way_diff_io(graph, source_input_disc, reverse=True)", "expect": "9.5"},
    {"name": "differentiated-inputs-replaced", "file": DI, "old": "        self._differentiated_input_names = list(\n            set(self._differentiated_input_names).union(\n                filter(input_grammar.data_converter.is_continuous, input_names)\n            )\n        )", "new": "        self._differentiated_input_names = list(\n            filter(input_grammar.data_converter.is_continuous, input_names)\n        )", "expect": "9.6"},
    {"name": "additive-sums-other-block", "file": AC, "old": "                    discipline.jac[output_name][input_name]\n                    for discipline in self.disciplines", "new": "                    discipline.jac[input_name][output_name]\n                    for discipline in self.disciplines", "expect": "9.1"},
    {"name": "init-type-unhandled", "file": DI, "old": "        elif init_type == self.InitJacobianType.SPARSE:\n            default_matrix = csr_array\n", "new": "", "expect": "9.3"},
]
TWINS = [
    {"name": "dot-method", "file": CH, "old": "                            loc_dot = curr_jac @ new_jac", "new": "                            loc_dot = curr_jac.dot(new_jac)"},
    {"name": "accumulate-explicit-sum", "file": CH, "old": "                                self.jac[output_name][new_in] += loc_dot", "new": "                                self.jac[output_name][new_in] = self.jac[output_name][new_in] + loc_dot"},
    {"name": "reversed-builtin", "file": CH, "old": "        for discipline in remaining_disciplines[::-1]:", "new": "        for discipline in reversed(remaining_disciplines):"},
    {"name": "condition-operands-swapped", "file": CH, "old": "if new_in in self.jac[output_name] and input_name != new_in:", "new": "if input_name != new_in and new_in in self.jac[output_name]:"},
]
