"""C20 -- serialised objects behave like the originals: the exclusion / re-creation protocol.

20.1  what ``_ATTR_NOT_TO_SERIALIZE`` drops is re-created on every path of the restore
      (``__setstate__`` or the shared-memory hooks), from state that is itself serialised.
20.2  process-bound primitives (locks, ``multiprocessing.Value``, manager proxies) held by
      instances never go raw into a pickled state: they are created in the shared-memory hooks
      (a ``Value`` is then stored and restored by value), or excluded and re-created, or the
      class has its own ``__getstate__`` that leaves them out.
20.3  ``__getstate__``/``__setstate__`` pairs agree: keys removed are re-created, keys added are
      consumed, ``HDF5Cache`` re-invokes ``__init__`` with exactly its parameters, the base
      protocol runs the hooks first/last and moves ``Synchronized`` attributes by value.
20.4  a name mangled with ``self.__class__.__name__`` is only valid in a class without subclasses.
20.5  ``__getstate__`` never edits the live object (it edits a copy of ``__dict__``).
20.6  ``to_pickle``/``from_pickle`` are a binary dump/load pair.
"""

from __future__ import annotations

import ast

from gv import rules
from gv.astutil import AnalysisError
from gv.astutil import decorator_names
from gv.astutil import dotted
from gv.astutil import const_value
from gv.astutil import kwarg
from gv.astutil import last_attr
from gv.astutil import mangle
from gv.astutil import norm_stmt
from gv.astutil import param_names
from gv.astutil import stmts_of
from gv.astutil import walk_body
from gv.cfg import cfg_of
from gv.props.shared import branch_conditions
from gv.props.shared import conj_literals
from gv.index import ClassInfo
from gv.props import describe
from gv.report import Ctx
from gv.report import cname

SER = "core/serializable.py"
HDF = "caches/hdf5_cache.py"
JSG = "core/grammars/json_grammar.py"
PYG = "core/grammars/pydantic_grammar.py"
PKL = "utils/pickle.py"
BEFORE = "_init_shared_memory_attrs_before"
AFTER = "_init_shared_memory_attrs_after"
HOOKS = (BEFORE, AFTER)

describe(
    "C20",
    explanation=(
        "Equality of outputs, Jacobians and optimisation results after a restore, for every class and every moment "
        "of the object's life, is behavioural and NOT decided. Decided on the source, for every class of src/gemseo: "
        "every attribute dropped by an effective _ATTR_NOT_TO_SERIALIZE entry is re-created on every path of the "
        "restore from serialised state; every instance attribute bound to a lock, a multiprocessing Value or a "
        "manager proxy is handled by the class's pickling protocol (hook + by-value, excluded + re-created, or own "
        "__getstate__ that omits it); every __getstate__/__setstate__ pair agrees on the keys it removes, adds and "
        "reads; the base protocol runs the hooks first and last and moves counters by value; class-name mangling "
        "is used only in classes without subclasses; __getstate__ edits a copy; to_pickle/from_pickle are a pair."
    ),
    decided=[
        "20.1 excluded attributes are re-created on every restore path",
        "20.2 process-bound primitives never reach the pickled state raw",
        "20.3 __getstate__/__setstate__/__init__ agreement (HDF5Cache, JSONGrammar, PydanticGrammar, progress bar, Serializable)",
        "20.4 class-name mangling only in classes without subclasses",
        "20.5 __getstate__ edits a copy of the state",
        "20.6 to_pickle/from_pickle pairing", "20.7 cached JSON schema reset by edits (rule group of C15)", "20.8 run-time pydantic models pickled by their fields", "20.10 builder required emptied after unpickling (rule group 15.8 of C15)"],
    not_decided=[
        "equality of outputs, Jacobians and results after restore for every class, cache, grammar and history",
        "picklability of third-party objects held by disciplines",
    ],
    trusted=["pickle calls __getstate__/__setstate__ as documented; multiprocessing locks and Values cannot be pickled outside process spawning"],
)

# Classes holding process-bound primitives that are never part of a pickled GEMSEO object.
NOT_PICKLED = {
    "utils/xdsmizer.py::XDSMizer": "a tool object created on demand around a scenario; no discipline, process or problem holds it",
    "caches/_hdf5_file_singleton.py::HDF5FileSingleton": "held only by HDF5Cache, whose __getstate__ stores the file path instead (checked by 20.3-hdf5)",
    "algos/opt/mnbi/mnbi.py::MNBI": "an optimisation library, neither Serializable nor one of the objects of the property; its manager list exists only during a parallel run",
}
# XLSDiscipline needs Excel (outside the property's quantifier) and re-creates its book either in __setstate__ or at
# each run, depending on two documented flags.
CONDITIONAL_REBUILD = {"disciplines/wrappers/xls_discipline.py::XLSDiscipline"}

LOCKS = {"RLock", "Lock", "Semaphore", "BoundedSemaphore", "Condition", "Event", "Barrier"}
SYNCHRONIZED = {"Value", "Array", "RawValue", "RawArray"}
MANAGERS = {"Manager", "get_multi_processing_manager", "SyncManager"}


# ---------------------------------------------------------------- helpers
def _is_abstract(ctx: Ctx, cls: ClassInfo) -> bool:
    names = set()
    for c in ctx.index.mro(cls):
        for m, f in c.methods.items():
            if "abstractmethod" in decorator_names(f):
                names.add(m)
    for m in names:
        found = ctx.index.resolve_method(cls, m)
        if found is not None and "abstractmethod" in decorator_names(found[1]):
            return True
    return False


def _entries(ctx: Ctx, cls: ClassInfo, _depth: int = 0) -> tuple[set[str], ClassInfo | None]:
    """Entries of the ``_ATTR_NOT_TO_SERIALIZE`` that applies to ``cls`` and the class defining it."""
    for c in ctx.index.mro(cls):
        node = c.class_attrs.get("_ATTR_NOT_TO_SERIALIZE")
        if node is None:
            continue
        value = getattr(node, "value", None)
        if value is None:
            continue
        out = _entries_of(ctx, c, value, _depth)
        return out, c
    return set(), None


def _entries_of(ctx: Ctx, cls: ClassInfo, value: ast.AST, depth: int) -> set[str]:
    """The strings of a set expression, whatever its spelling: displays (with ``*base`` parts), ``set()`` /
    ``frozenset(<iterable>)``, ``a | b``, ``a.union(b, ...)`` and ``<Base>._ATTR_NOT_TO_SERIALIZE``."""
    if isinstance(value, (ast.Set, ast.List, ast.Tuple)):
        out: set[str] = set()
        for e in value.elts:
            if isinstance(e, ast.Constant) and isinstance(e.value, str):
                out.add(e.value)
            elif isinstance(e, ast.Starred):
                out |= _entries_of(ctx, cls, e.value, depth)
            else:
                raise AnalysisError(f"{cls.key}: _ATTR_NOT_TO_SERIALIZE has non-literal entries")
        return out
    if isinstance(value, ast.Call) and dotted(value.func) in ("set", "frozenset") and not value.keywords:
        if not value.args:
            return set()
        if len(value.args) == 1:
            return _entries_of(ctx, cls, value.args[0], depth)
    if isinstance(value, ast.Call) and isinstance(value.func, ast.Attribute) and value.func.attr == "union" and not value.keywords:
        # bound (``a.union(b, ...)``) or through the type (``set.union(a, b, ...)``): the union of all the operands
        unbound = dotted(value.func.value) in ("set", "frozenset") and bool(value.args)
        out = set() if unbound else _entries_of(ctx, cls, value.func.value, depth)
        for a in value.args:
            out |= _entries_of(ctx, cls, a, depth)
        return out
    if isinstance(value, ast.BinOp) and isinstance(value.op, ast.BitOr):
        return _entries_of(ctx, cls, value.left, depth) | _entries_of(ctx, cls, value.right, depth)
    if isinstance(value, ast.Attribute) and value.attr == "_ATTR_NOT_TO_SERIALIZE":
        base_name = dotted(value.value)
        base = next((b for b in ctx.index.mro(cls)[1:] if b.name == base_name), None)
        if base is None or depth > 6:
            raise AnalysisError(f"{cls.key}: base {base_name} of the exclusion list not found in the MRO")
        return _entries(ctx, base, depth + 1)[0]
    raise AnalysisError(f"{cls.key}: _ATTR_NOT_TO_SERIALIZE has a shape the rule does not know: {norm_stmt(value)}")


def _attr_writes(ctx: Ctx, cls: ClassInfo) -> dict[str, list[tuple[ClassInfo, str, ast.stmt]]]:
    """stored attribute name -> [(defining class, method, statement)] over the MRO of ``cls``."""
    out: dict[str, list] = {}
    for c in ctx.index.mro(cls):
        for mname, f in c.methods.items():
            for s in stmts_of(f):
                targets = []
                if isinstance(s, ast.Assign):
                    targets = s.targets
                elif isinstance(s, (ast.AnnAssign, ast.AugAssign)):
                    targets = [s.target]
                for t in targets:
                    for tt in t.elts if isinstance(t, ast.Tuple) else [t]:
                        if isinstance(tt, ast.Attribute) and dotted(tt.value) == "self":
                            out.setdefault(mangle(c.name, tt.attr), []).append((c, mname, s))
    return out


def _must_assign(ctx: Ctx, cls: ClassInfo, owner: ClassInfo, f: ast.FunctionDef, stored: str, depth: int = 0) -> bool:
    """Every normal path through ``f`` (a method of ``owner``, run on an instance of ``cls``) assigns ``stored``."""
    cfg = cfg_of(f)
    nodes = set()
    for s in stmts_of(f):
        if not cfg.has(s):
            continue
        hit = False
        if isinstance(s, (ast.Assign, ast.AnnAssign)):
            targets = s.targets if isinstance(s, ast.Assign) else [s.target]
            for t in targets:
                for tt in t.elts if isinstance(t, ast.Tuple) else [t]:
                    if isinstance(tt, ast.Attribute) and dotted(tt.value) == "self" and mangle(owner.name, tt.attr) == stored:
                        hit = True
        if not hit and depth < 3 and isinstance(s, ast.Expr) and isinstance(s.value, ast.Call):
            c = s.value
            if isinstance(c.func, ast.Attribute) and dotted(c.func.value) == "self":
                found = ctx.index.resolve_method(cls, mangle(owner.name, c.func.attr)) or ctx.index.resolve_method(cls, c.func.attr)
                if found is not None:
                    hit = _must_assign(ctx, cls, found[0], found[1], stored, depth + 1)
            elif isinstance(c.func, ast.Attribute) and norm_stmt(c.func.value) == "super()":
                found = ctx.index.resolve_method(cls, c.func.attr, after=owner)
                if found is not None:
                    hit = _must_assign(ctx, cls, found[0], found[1], stored, depth + 1)
        if hit:
            nodes.add(cfg.node_of(s))
    return bool(nodes) and cfg.escape_path(cfg.entry, nodes) is None


_MUTATORS = {"update", "append", "extend", "add", "setdefault", "insert", "clear", "pop", "remove"}


def _builders(ctx: Ctx, cls: ClassInfo, stored: str) -> set[str]:
    """Stored names of the methods that (transitively) write the attribute or its items."""
    methods = {}
    for c in reversed(ctx.index.mro(cls)):
        for m, f in c.methods.items():
            methods[mangle(c.name, m)] = (c, f)
    out: set[str] = set()
    changed = True
    while changed:
        changed = False
        for name, (c, f) in methods.items():
            if name in out or name in ("__init__", "__setstate__"):
                continue
            hit = False
            for n in walk_body(f):
                tgt = None
                if isinstance(n, (ast.Assign, ast.AugAssign, ast.AnnAssign)):
                    for t in n.targets if isinstance(n, ast.Assign) else [n.target]:
                        base = t.value if isinstance(t, ast.Subscript) else t
                        if isinstance(base, ast.Attribute) and dotted(base.value) == "self" and mangle(c.name, base.attr) == stored:
                            hit = True
                elif isinstance(n, ast.Call) and isinstance(n.func, ast.Attribute):
                    r = n.func.value
                    if n.func.attr in _MUTATORS and isinstance(r, ast.Attribute) and dotted(r.value) == "self" and mangle(c.name, r.attr) == stored:
                        hit = True
                    elif dotted(r) == "self" and mangle(c.name, n.func.attr) in out:
                        hit = True
                del tgt
            if hit:
                out.add(name)
                changed = True
    return out


def _must_call(f: ast.FunctionDef, method: str) -> bool:
    cfg = cfg_of(f)
    nodes = {cfg.node_of(rules.enclosing_stmt(f, c)) for c in rules.self_calls(f, method)}
    return bool(nodes) and cfg.escape_path(cfg.entry, nodes) is None


def _runs_body(f: ast.FunctionDef, g: ast.FunctionDef) -> bool:
    """Every normal path through ``f`` executes the statements of the parameterless procedure ``g`` (its call replaced
    by its body): they stand, in order and next to each other, in one block of ``f`` that every path enters."""
    if [p for p in param_names(g) if p != "self"] or any(isinstance(n, (ast.Return, ast.Yield, ast.YieldFrom, ast.Await)) for n in walk_body(g)):
        return False
    body = [ast.dump(s) for s in g.body if not (isinstance(s, ast.Expr) and isinstance(s.value, ast.Constant)) and not isinstance(s, ast.Pass)]
    if not body:
        return False
    cfg = cfg_of(f)
    for holder in [f, *stmts_of(f)]:
        for field in ("body", "orelse", "finalbody"):
            block = getattr(holder, field, None)
            if not isinstance(block, list):
                continue
            dumps = [ast.dump(s) for s in block]
            for i in range(len(block) - len(body) + 1):
                if dumps[i : i + len(body)] == body and cfg.has(block[i]) and cfg.escape_path(cfg.entry, {cfg.node_of(block[i])}) is None:
                    return True
    return False


def _must_run(ctx: Ctx, cls: ClassInfo, owner: ClassInfo, f: ast.FunctionDef, method: str, by: ClassInfo) -> bool:
    """``f`` (a method of ``owner``) calls ``self.<method>()`` (as named in the class ``by``) on every path, or executes
    its body itself."""
    if _must_call(f, method):
        return True
    found = ctx.index.resolve_method(cls, mangle(by.name, method)) or ctx.index.resolve_method(cls, method)
    # private names in the body denote the attributes of the class that spells them
    return found is not None and found[0] == owner and _runs_body(f, found[1])


def _restore_functions(ctx: Ctx, cls: ClassInfo):
    out = []
    for m in ("__setstate__", *HOOKS):
        found = ctx.index.resolve_method(cls, m)
        if found is not None:
            out.append((m, *found))
    return out


# ---------------------------------------------------------------- 20.1
def check_exclusions(ctx: Ctx) -> None:
    idx = ctx.index
    ser = idx.cls(SER, "Serializable")
    n_eff = 0
    for cls in [c for c in idx.subclasses(ser) if "_ATTR_NOT_TO_SERIALIZE" in c.class_attrs]:
        con = cname(cls.module.relpath, cls.qualname)
        entries, _ = _entries(ctx, cls)
        writes = _attr_writes(ctx, cls)
        # a redefinition keeps what the bases exclude
        inherited = set()
        for b in idx.mro(cls)[1:]:
            if "_ATTR_NOT_TO_SERIALIZE" in b.class_attrs:
                inherited = _entries(ctx, b)[0]
                break
        ctx.ob("20.1-inherit", con, inherited <= entries, f"the exclusion list of {cls.name} drops {sorted(inherited - entries)} excluded by its base: these attributes would be pickled again", node=cls.class_attrs["_ATTR_NOT_TO_SERIALIZE"], stmt="exclusion list extends the base's")
        for e in sorted(entries - inherited):
            if e in writes:
                n_eff += 1
                if cls.key in CONDITIONAL_REBUILD:
                    # reached from the restore or from the run: __setstate__ / _run or a method they call on self
                    reach, todo = set(), ["__setstate__", "_run", *HOOKS]
                    while todo:
                        m_ = todo.pop()
                        fm = idx.resolve_method(cls, mangle(cls.name, m_)) or idx.resolve_method(cls, m_)
                        if m_ in reach or fm is None:
                            continue
                        reach.add(m_)
                        todo += [c_.func.attr for c_ in walk_body(fm[1]) if isinstance(c_, ast.Call) and isinstance(c_.func, ast.Attribute) and dotted(c_.func.value) == "self"]
                    unm = lambda m_: m_.split("__", 1)[1].join(["__", ""]) if m_.startswith("_" + cls.name + "__") else m_  # noqa: E731
                    ok = any(unm(m) in reach or m in reach for _, m, _ in writes[e])
                    ctx.ob("20.1-rebuild", con, ok, f"{e} is excluded and never assigned again", node=cls.node, stmt=f"excluded attribute {e} is re-created (conditionally, see CONDITIONAL_REBUILD)")
                    continue
                ok = any(_must_assign(ctx, cls, owner, f, e) for _, owner, f in _restore_functions(ctx, cls))
                if not ok:
                    # created only by a hook that the constructor runs as well: a fresh object and a restored one
                    # get the attribute under the same (serialised) condition
                    hooks = {m for _, m, _ in writes[e]}
                    init = idx.resolve_method(cls, "__init__")
                    ok = hooks <= set(HOOKS) and init is not None and all(_must_call(init[1], h) for h in hooks)
                ctx.ob(
                    "20.1-rebuild",
                    con,
                    ok,
                    f"`{e}` is dropped at serialisation but no path of __setstate__ / the shared-memory hooks of {cls.name} is sure to re-create it: the restored object fails at its first use of the attribute",
                    node=cls.class_attrs["_ATTR_NOT_TO_SERIALIZE"],
                    stmt=f"excluded attribute {e} is re-created on every restore path",
                )
                # the restore runs the builders the constructor runs
                init = idx.resolve_method(cls, "__init__")
                builders = _builders(ctx, cls, e)
                if init is not None:
                    for c in [c for c in walk_body(init[1]) if isinstance(c, ast.Call) and isinstance(c.func, ast.Attribute) and dotted(c.func.value) == "self" and mangle(init[0].name, c.func.attr) in builders]:
                        name = c.func.attr
                        if name in HOOKS:
                            continue  # run by the base protocol (20.3-base, 20.1-super)
                        okb = any(_must_run(ctx, cls, owner, f, name, init[0]) for _, owner, f in _restore_functions(ctx, cls) if owner != idx.cls(SER, "Serializable"))
                        ctx.ob("20.1-rebuild", con, okb, f"the constructor fills `{e}` through self.{name}(); the restore of {cls.name} does not call it on every path, so the restored attribute is not what a fresh object holds", node=c, stmt=f"restore calls the builder {name} of {e}")
                # re-created by the same constructor call as in __init__, from the stored values of the same arguments
                _same_construction(ctx, cls, e, con)
                # the re-creation reads only serialised state
                reads = set()
                for _, owner, f in _restore_functions(ctx, cls):
                    if owner.key == cls.key or e in {mangle(owner.name, a) for a in _self_assigned(f)}:
                        for n in walk_body(f):
                            if isinstance(n, ast.Attribute) and isinstance(n.ctx, ast.Load) and dotted(n.value) == "self":
                                reads.add(mangle(owner.name, n.attr))
                stale = sorted((reads & entries) - {e} - _assigned_in_restore(ctx, cls))
                ctx.ob("20.1-rebuild", con, not stale, f"the restore of {cls.name} reads {stale}, which are excluded from the state and not re-created", node=cls.node, stmt=f"re-creation of {e} reads serialised state only")
            else:
                # an entry that matches no attribute excludes nothing: harmless only when the attribute is
                # created by the before-hook (the restore then ignores or sets by value what the state holds)
                priv = [w for w in writes if w.endswith(e) and w != e and e.startswith("__")]
                ok = bool(priv) and all(any(m == BEFORE for _, m, _ in writes[w]) for w in priv)
                ctx.ob(
                    "20.1-ineffective",
                    con,
                    ok,
                    f"the entry `{e}` matches no attribute of {cls.name} (private names must be mangled) and the attribute is not created by {BEFORE}: it is pickled although the list says otherwise",
                    node=cls.class_attrs["_ATTR_NOT_TO_SERIALIZE"],
                    stmt=f"entry {e} names an attribute, or the attribute is created by the before-hook",
                )
    ctx.floor("20.1-rebuild", 10)
    # overrides of __setstate__ run the base protocol first
    n = 0
    for cls, f in idx.overriders(ser, "__setstate__"):
        if cls == ser:
            continue
        n += 1
        cfg = cfg_of(f)
        sc = [c for c in rules.super_calls(f, "__setstate__")]
        state_param = [p for p in param_names(f) if p != "self"][0]
        ok = len(sc) == 1 and [dotted(a) for a in [*sc[0].args, *[kw.value for kw in sc[0].keywords if kw.arg is not None]]] == [state_param] and all(kw.arg is not None for kw in sc[0].keywords)
        if ok:
            node = cfg.node_of(rules.enclosing_stmt(f, sc[0]))
            excluded = _entries(ctx, cls)[0]
            for st in stmts_of(f):
                if not cfg.has(st) or (isinstance(st, ast.Expr) and isinstance(st.value, ast.Constant)):
                    continue
                if cfg.dominates(node, cfg.node_of(st)):
                    continue
                # before the base protocol only what it cannot see: a fresh value (read from neither the object nor
                # the state) for an attribute that is excluded from the state, so that the loop of the base class
                # neither skips a pickled value because of it nor overwrites it
                tgt = st.targets[0] if isinstance(st, ast.Assign) and len(st.targets) == 1 else None
                fresh = isinstance(tgt, ast.Attribute) and dotted(tgt.value) == "self" and mangle(cls.name, tgt.attr) in excluded and not ({n_.id for n_ in ast.walk(st.value) if isinstance(n_, ast.Name)} & {"self", state_param})
                ok = ok and fresh
            ok = ok and cfg.escape_path(cfg.entry, {node}) is None
        ctx.ob("20.1-super", cname(cls.module.relpath, cls.qualname, "__setstate__"), bool(ok), "an override of __setstate__ must first run the base protocol with the same state (hooks, counters by value, paths)", node=(sc or [f])[0], stmt="super().__setstate__(state) first")
    ctx.floor("20.1-super", 4)
    ctx.extra["effective_exclusions"] = n_eff


def _call_params(ctx: Ctx, cls: ClassInfo, call: ast.Call) -> dict[str, ast.AST] | None:
    """parameter name (or position) -> argument expression, through the callee's signature when it is a class of src."""
    name = dotted(call.func)
    params: list[str] = []
    if name:
        q = cls.module.imports.get(name.split(".")[0])
        target = ctx.index.resolve_qualified(q) if q and "." not in name else None
        if target is None and "." not in name and name in cls.module.classes:
            target = cls.module.classes[name]
        if target is not None:
            found = ctx.index.resolve_method(target, "__init__")
            if found is not None:
                params = [p for p in param_names(found[1]) if p != "self"]
    out: dict[str, ast.AST] = {}
    for i, a in enumerate(call.args):
        if isinstance(a, ast.Starred):
            return None
        out[params[i] if i < len(params) else f"#{i}"] = a
    for k in call.keywords:
        if k.arg is None:
            return None
        out[k.arg] = k.value
    return out


def _same_construction(ctx: Ctx, cls: ClassInfo, stored: str, con: str) -> None:
    idx = ctx.index
    init = idx.resolve_method(cls, "__init__")
    if init is None:
        return

    def direct(f, owner):
        return [s for s in stmts_of(f) if isinstance(s, ast.Assign) and isinstance(s.targets[0], ast.Attribute) and dotted(s.targets[0].value) == "self" and mangle(owner.name, s.targets[0].attr) == stored and isinstance(s.value, ast.Call)]

    a0 = direct(init[1], init[0])
    a1 = [(s, owner) for _, owner, f in _restore_functions(ctx, cls) for s in direct(f, owner)]
    if len(a0) != 1 or len(a1) != 1 or dotted(a0[0].value.func) != dotted(a1[0][0].value.func):
        return  # built through helpers or differently: covered by the builder rule
    p0, p1 = _call_params(ctx, cls, a0[0].value), _call_params(ctx, cls, a1[0][0].value)
    if p0 is None or p1 is None:
        return
    # values stored by __init__: self.<a> = <expr>
    stored_as = {}
    for s in stmts_of(init[1]):
        if isinstance(s, ast.Assign) and isinstance(s.targets[0], ast.Attribute) and dotted(s.targets[0].value) == "self":
            stored_as.setdefault(norm_stmt(s.value), set()).add(s.targets[0].attr)
    bad = []
    for k in sorted(set(p0) | set(p1)):
        e0, e1 = p0.get(k), p1.get(k)
        if e0 is None or e1 is None:
            bad.append(f"{k}: {'missing at restore' if e1 is None else 'only at restore'}")
            continue
        if isinstance(e0, ast.Constant) and isinstance(e1, ast.Constant) and e0.value == e1.value:
            continue
        if isinstance(e1, ast.Attribute) and dotted(e1.value) == "self" and e1.attr in stored_as.get(norm_stmt(e0), ()):
            continue
        if norm_stmt(e0) == norm_stmt(e1) and isinstance(e0, ast.Attribute):
            continue
        bad.append(f"{k}: {norm_stmt(e0)} at construction, {norm_stmt(e1)} at restore")
    ctx.ob("20.1-rebuild", con, not bad, f"`{stored}` is re-created by {dotted(a1[0][0].value.func)}(...) with other arguments than in __init__ ({'; '.join(bad)}): the restored object does not behave like the original for the non-default settings", node=a1[0][0], stmt=f"{stored} re-created with the arguments of __init__")


def _self_assigned(f: ast.FunctionDef) -> set[str]:
    out = set()
    for s in stmts_of(f):
        targets = s.targets if isinstance(s, ast.Assign) else [s.target] if isinstance(s, ast.AnnAssign) and s.value is not None else []
        for t in targets:
            for tt in t.elts if isinstance(t, (ast.Tuple, ast.List)) else [t]:
                if isinstance(tt, ast.Attribute) and dotted(tt.value) == "self":
                    out.add(tt.attr)
    return out


def _assigned_in_restore(ctx: Ctx, cls: ClassInfo) -> set[str]:
    out = set()
    for _, owner, f in _restore_functions(ctx, cls):
        out |= {mangle(owner.name, a) for a in _self_assigned(f)}
    return out


# ---------------------------------------------------------------- 20.2
def _primitive_kind(ctx: Ctx, cls: ClassInfo, func: ast.FunctionDef, e: ast.AST, depth: int = 0) -> str | None:
    imports = cls.module.imports
    if isinstance(e, ast.IfExp):
        return _primitive_kind(ctx, cls, func, e.body, depth) or _primitive_kind(ctx, cls, func, e.orelse, depth)
    if not isinstance(e, ast.Call):
        return None
    fn = e.func
    name = dotted(fn)
    if name is not None and "(" not in name and "[" not in name and name.split(".")[0] != "self":
        # RLock(), multiprocessing.RLock(), mp.RLock(), multiprocessing.synchronize.RLock(): resolved through the imports
        head, _, rest = name.partition(".")
        q = imports.get(head, head) + ("." + rest if rest else "")
        if name in ("cast", "typing.cast") and len(e.args) == 2:
            return _primitive_kind(ctx, cls, func, e.args[1], depth)
        tail = q.rsplit(".", 1)[-1]
        if q.startswith(("multiprocessing", "threading")):
            if tail in LOCKS:
                return "lock"
            if tail in SYNCHRONIZED:
                return "synchronized"
        if isinstance(fn, ast.Name):
            return None
    if isinstance(fn, ast.Attribute):
        recv = fn.value
        if isinstance(recv, ast.Name) and recv.id != "self":
            defs = [s.value for s in stmts_of(func) if isinstance(s, ast.Assign) and any(isinstance(t, ast.Name) and t.id == recv.id for t in s.targets)]
            recv = defs[0] if len(defs) == 1 else recv
        if isinstance(recv, ast.Call) and isinstance(recv.func, ast.Name) and imports.get(recv.func.id, recv.func.id).rsplit(".", 1)[-1] in MANAGERS:
            return "proxy"
        if dotted(recv) == "self" and depth < 2:
            kinds = set()
            for c in [cls, *ctx.index.subclasses(cls)]:
                g = c.methods.get(fn.attr) or c.methods.get(mangle(cls.name, fn.attr))
                if g is None:
                    continue
                for r in [s for s in stmts_of(g) if isinstance(s, ast.Return) and s.value is not None]:
                    k = _primitive_kind(ctx, c, g, r.value, depth + 1)
                    if k is None and isinstance(r.value, ast.Attribute) and r.value.attr in ("lock", "_lock"):
                        k = "lock"
                    if k:
                        kinds.add(k)
            return sorted(kinds)[0] if kinds else None
    return None


def check_primitives(ctx: Ctx) -> None:
    idx = ctx.index
    ser = idx.cls(SER, "Serializable")
    sites: dict[tuple[str, str], dict] = {}
    for cls in idx.all_classes():
        for mname, f in cls.methods.items():
            for s in stmts_of(f):
                if not isinstance(s, (ast.Assign, ast.AnnAssign)) or s.value is None:
                    continue
                targets = s.targets if isinstance(s, ast.Assign) else [s.target]
                for t in targets:
                    if isinstance(t, ast.Attribute) and dotted(t.value) == "self":
                        k = _primitive_kind(ctx, cls, f, s.value)
                        if k:
                            rec = sites.setdefault((cls.key, t.attr), {"cls": cls, "attr": t.attr, "kind": k, "methods": set(), "stmt": s})
                            rec["methods"].add(mname)
    ctx.extra["primitive_sites"] = sorted(f"{k[0]}.{k[1]} ({v['kind']}, in {sorted(v['methods'])})" for k, v in sites.items())
    n = 0
    for (ckey, attr), rec in sorted(sites.items()):
        k_cls: ClassInfo = rec["cls"]
        stored = mangle(k_cls.name, attr)
        for s_cls in [k_cls, *idx.subclasses(k_cls)]:
            if _is_abstract(ctx, s_cls):
                continue
            con = cname(s_cls.module.relpath, s_cls.qualname)
            stmt = f"{rec['kind']} attribute {stored} is kept out of the pickled state or moved by value"
            n += 1
            if s_cls.key in NOT_PICKLED or k_cls.key in NOT_PICKLED:
                ctx.ob("20.2-primitives", con, True, "", node=rec["stmt"], stmt=stmt + " (class never pickled: " + NOT_PICKLED.get(s_cls.key, NOT_PICKLED.get(k_cls.key)) + ")")
                continue
            own = next(((c, c.methods["__getstate__"]) for c in idx.mro(s_cls) if "__getstate__" in c.methods and c != ser), None)
            in_hook = bool(rec["methods"] & set(HOOKS))
            if own is not None:
                ok, why = _getstate_omits(own[1], own[0], stored)
                what = f"{s_cls.name} pickles through {own[0].name}.__getstate__, which {why}"
            elif idx.is_subclass(s_cls, ser):
                excluded = stored in _entries(ctx, s_cls)[0]
                if rec["kind"] == "synchronized":
                    ok = in_hook
                    if BEFORE in rec["methods"]:
                        # a counter created by the before-hook is meant to travel by value: excluding it loses the value
                        ctx.ob("20.2-by-value", con, not excluded, f"the counter `{stored}` is created by {BEFORE} (so that Serializable restores its value) but it is also excluded from the state: the restored object starts from the initial value, counters and statistics do not carry over", node=rec["stmt"], stmt=f"counter {stored} travels by value")
                    what = f"the multiprocessing value `{stored}` is created in {sorted(rec['methods'])}, not in a shared-memory hook: Serializable stores its value and the restored object holds a plain number where a Synchronized is expected"
                else:
                    ok = excluded and in_hook
                    what = f"the {rec['kind']} `{stored}` is {'not ' if not excluded else ''}excluded by _ATTR_NOT_TO_SERIALIZE and {'not ' if not in_hook else ''}re-created in a shared-memory hook: " + ("pickling raises (locks are only shared through inheritance)" if not excluded else "the restored object has no such attribute")
            else:
                ok = False
                what = f"{s_cls.name} holds the {rec['kind']} `{stored}` (created in {k_cls.name}.{sorted(rec['methods'])[0]}) and has no pickling protocol for it (neither Serializable nor an own __getstate__): an object holding it cannot be pickled, or shares it after a restore"
            ctx.ob("20.2-primitives", con, ok, what, node=rec["stmt"], stmt=stmt)
    ctx.floor("20.2-primitives", 20)
    # a hook that creates attributes is run by __init__ (or __init__ creates them itself)
    for cls in idx.subclasses(ser):
        for h in HOOKS:
            f = cls.methods.get(h)
            if f is None:
                continue
            attrs = _self_assigned(f)
            init = idx.resolve_method(cls, "__init__")
            if not attrs or init is None or init[0] != cls:
                continue
            ok = _must_call(init[1], h) or all(_must_assign(ctx, cls, cls, init[1], mangle(cls.name, a)) for a in attrs)
            ctx.ob("20.2-hook-in-init", cname(cls.module.relpath, cls.qualname, "__init__"), ok, f"{cls.name}.{h} creates {sorted(attrs)}; the constructor must create them too (by calling the hook), otherwise a fresh object and a restored one differ", node=init[1], stmt=f"__init__ creates what {h} creates")
    ctx.floor("20.2-hook-in-init", 5)


def _literal_mapping(e: ast.AST) -> dict[str, ast.AST] | None:
    """key -> value of a mapping written out entry by entry: ``{"k": v, ...}``, ``dict(k=v, ...)``, ``dict({...}, k=v)``."""
    if isinstance(e, ast.Dict):
        if all(isinstance(k, ast.Constant) and isinstance(k.value, str) for k in e.keys):
            return {k.value: v for k, v in zip(e.keys, e.values)}
        return None
    if isinstance(e, ast.Call) and dotted(e.func) == "dict" and len(e.args) <= 1:
        out = _literal_mapping(e.args[0]) if e.args else {}
        if out is None or any(k.arg is None for k in e.keywords):
            return None
        out = dict(out)
        out.update({k.arg: k.value for k in e.keywords})
        return out
    return None


def _explicit_state(f: ast.FunctionDef) -> dict[str, ast.AST] | None:
    """key -> value of a ``__getstate__`` that writes its state out entry by entry: returned directly, or built in a
    local that is only completed by ``<local>["k"] = v`` statements.  None for any other construction."""
    rets = [s for s in stmts_of(f) if isinstance(s, ast.Return) and s.value is not None]
    if len(rets) != 1:
        return None
    v = rets[0].value
    for n in walk_body(f):
        # a display that is stored into or mutated in place is a local that the engine's inlining of new single-use
        # locals has replaced by its definition: the returned display is then not the whole state
        base = n.value if isinstance(n, ast.Subscript) and isinstance(n.ctx, (ast.Store, ast.Del)) else n.func.value if isinstance(n, ast.Call) and isinstance(n.func, ast.Attribute) and n.func.attr in _MUTATORS else None
        if base is not None and _literal_mapping(base) is not None:
            return None
    if not isinstance(v, ast.Name):
        return _literal_mapping(v)
    defs = [s for s in stmts_of(f) if isinstance(s, (ast.Assign, ast.AnnAssign)) and s.value is not None and any(isinstance(t, ast.Name) and t.id == v.id for t in (s.targets if isinstance(s, ast.Assign) else [s.target]))]
    out = _literal_mapping(defs[0].value) if len(defs) == 1 else None
    if out is None:
        return None
    out = dict(out)
    uses = sum(1 for n in walk_body(f) if isinstance(n, ast.Name) and n.id == v.id)
    known = 2  # the definition and the return
    for s in stmts_of(f):
        if isinstance(s, ast.Assign) and len(s.targets) == 1 and isinstance(s.targets[0], ast.Subscript) and dotted(s.targets[0].value) == v.id and isinstance(s.targets[0].slice, ast.Constant) and isinstance(s.targets[0].slice.value, str) and v.id not in {n.id for n in ast.walk(s.value) if isinstance(n, ast.Name)}:
            out[s.targets[0].slice.value] = s.value
            known += 1
    return out if uses == known else None  # any other use (update, pop, del, alias) is not understood


def _getstate_omits(f: ast.FunctionDef, owner: ClassInfo, stored: str) -> tuple[bool, str]:
    rets = [s for s in stmts_of(f) if isinstance(s, ast.Return) and s.value is not None]
    if len(rets) != 1:
        return False, "has several returns"
    v = rets[0].value
    explicit = _explicit_state(f)
    if explicit is not None:
        raw = [x for x in explicit.values() if isinstance(x, ast.Attribute) and dotted(x.value) == "self" and mangle(owner.name, x.attr) == stored]
        return (not raw, "builds its state explicitly" + (" but stores the attribute raw" if raw else " without it"))
    edits = _state_edits(f)
    if edits is not None:
        _, src, deleted, popped, added = edits
        if "__dict__" in norm_stmt(src.value) or "vars(self)" in norm_stmt(src.value):
            # removed, or replaced by another value
            gone = {_key_text(owner, k) for k in [*deleted, *popped, *added]}
            return (stored in gone, f"copies __dict__ and {'removes' if stored in gone else 'keeps'} {stored}")
    return False, "builds its state in a way the rule does not know"


# ---------------------------------------------------------------- 20.3
def _takes_state(st: ast.stmt, setstate: ast.FunctionDef) -> bool:
    """``self.__dict__.update(<state>)`` / ``vars(self).update(<state>)`` / ``self.__dict__ |= <state>``."""
    state_param = ([p for p in param_names(setstate) if p != "self"] or ["state"])[0]
    if isinstance(st, ast.Expr) and isinstance(st.value, ast.Call) and isinstance(st.value.func, ast.Attribute) and st.value.func.attr == "update":
        c = st.value
        return norm_stmt(c.func.value) in _OWN_DICT and [dotted(a) for a in c.args] == [state_param] and not c.keywords
    if isinstance(st, ast.AugAssign) and isinstance(st.op, ast.BitOr):
        return norm_stmt(st.target) in _OWN_DICT and dotted(st.value) == state_param
    return False


def _reads_self_attr(x: ast.AST, attr: str) -> bool:
    """``self.<attr>`` read, or ``getattr(self, "<attr>")``."""
    if isinstance(x, ast.Attribute) and isinstance(x.ctx, ast.Load) and x.attr == attr and dotted(x.value) == "self":
        return True
    return isinstance(x, ast.Call) and dotted(x.func) == "getattr" and len(x.args) >= 2 and dotted(x.args[0]) == "self" and getattr(x.args[1], "value", None) == attr


def _filtered_copy(e: ast.AST) -> list[ast.AST] | None:
    """Keys left out by ``{k: v for k, v in self.__dict__.items() if k != "a" and k not in ("b", "c")}``; None when
    ``e`` is not such a filtered copy of the instance dictionary."""
    if not (isinstance(e, ast.DictComp) and len(e.generators) == 1):
        return None
    gen = e.generators[0]
    it = gen.iter
    if not (isinstance(it, ast.Call) and isinstance(it.func, ast.Attribute) and it.func.attr == "items" and norm_stmt(it.func.value) in ("self.__dict__", "vars(self)") and not it.args):
        return None
    if not (isinstance(gen.target, ast.Tuple) and len(gen.target.elts) == 2 and all(isinstance(x, ast.Name) for x in gen.target.elts)):
        return None
    k, v = (x.id for x in gen.target.elts)
    if dotted(e.key) != k or dotted(e.value) != v:
        return None
    out: list[ast.AST] = []
    from gv.props.shared import conj_literals

    for cond in gen.ifs:
        for pol, lit in conj_literals(cond):
            if not (isinstance(lit, ast.Compare) and len(lit.ops) == 1 and dotted(lit.left) == k):
                return None
            op, right = lit.ops[0], lit.comparators[0]
            if (pol and isinstance(op, ast.NotEq)) or (not pol and isinstance(op, ast.Eq)):
                out.append(right)
            elif ((pol and isinstance(op, ast.NotIn)) or (not pol and isinstance(op, ast.In))) and isinstance(right, (ast.Tuple, ast.List, ast.Set)):
                out += list(right.elts)
            else:
                return None
    return out


def _state_edits(f: ast.FunctionDef):
    """(state variable, source statement, deleted keys, popped keys, added keys) of a ``__getstate__`` that copies the
    instance dictionary and edits the copy; a filtering comprehension counts as copy + deletions (the variable is None
    when the comprehension is returned directly)."""
    rets = [s for s in stmts_of(f) if isinstance(s, ast.Return) and s.value is not None]
    if len(rets) != 1:
        return None
    if not isinstance(rets[0].value, ast.Name):
        left_out = _filtered_copy(rets[0].value)
        return None if left_out is None else (None, rets[0], left_out, [], [])
    var = rets[0].value.id
    src = [s for s in stmts_of(f) if isinstance(s, ast.Assign) and any(isinstance(t, ast.Name) and t.id == var for t in s.targets)]
    if len(src) != 1:
        return None
    deleted, popped, added = list(_filtered_copy(src[0].value) or []), [], []
    for n in walk_body(f):
        if isinstance(n, ast.Delete):
            for t in n.targets:
                if isinstance(t, ast.Subscript) and dotted(t.value) == var:
                    deleted.append(t.slice)
        if isinstance(n, ast.Call) and isinstance(n.func, ast.Attribute) and n.func.attr == "pop" and dotted(n.func.value) == var and n.args:
            popped.append(n.args[0])
        if isinstance(n, ast.Assign) and isinstance(n.targets[0], ast.Subscript) and dotted(n.targets[0].value) == var:
            added.append(n.targets[0].slice)
    return var, src[0], deleted, popped, added


def _key_text(cls: ClassInfo, e: ast.AST) -> str | None:
    """Stored attribute name denoted by a key expression (constant or f"_{self.__class__.__name__}__x")."""
    if isinstance(e, ast.Constant) and isinstance(e.value, str):
        return e.value
    if isinstance(e, ast.Name):
        return None
    if isinstance(e, ast.JoinedStr):
        out = ""
        for v in e.values:
            if isinstance(v, ast.Constant):
                out += v.value
            elif isinstance(v, ast.FormattedValue) and norm_stmt(v.value) in ("self.__class__.__name__", "type(self).__name__"):
                out += cls.name.lstrip("_")
            else:
                return None
        return out
    return None


def check_pairs(ctx: Ctx) -> None:
    idx = ctx.index
    ser = idx.cls(SER, "Serializable")
    # generic pairs
    n = 0
    for cls in idx.all_classes():
        g, s = cls.methods.get("__getstate__"), cls.methods.get("__setstate__")
        if g is None or s is None or cls == ser:
            continue
        con = cname(cls.module.relpath, cls.qualname)
        edits = _state_edits(g)
        if edits is None:
            continue
        var, src, deleted, popped, added = edits
        local_names = {}
        for st in stmts_of(g):
            if isinstance(st, ast.Assign) and isinstance(st.targets[0], ast.Name):
                local_names[st.targets[0].id] = st.value
        for key in [*deleted, *popped]:
            k = _key_text(cls, local_names.get(key.id, key) if isinstance(key, ast.Name) else key)
            if k is None:
                raise AnalysisError(f"{cls.key}.__getstate__: key {norm_stmt(key)} not understood")
            n += 1
            ok = _must_assign(ctx, cls, cls, s, k)
            ctx.ob("20.3-keys", con, ok, f"__getstate__ removes `{k}` from the state but no path of __setstate__ is sure to re-create it: the restored {cls.name} has no such attribute", node=key, stmt=f"{k} removed at pickling is re-created at restore")
        attrs = set(_attr_writes(ctx, cls))
        for key in added:
            k = _key_text(cls, local_names.get(key.id, key) if isinstance(key, ast.Name) else key)
            if k is None or k in attrs:
                continue  # an attribute replaced by a picklable stand-in: handled by the class's own restore
            n += 1
            used = any(isinstance(x, ast.Call) and isinstance(x.func, ast.Attribute) and x.func.attr == "pop" and x.args and _key_text(cls, x.args[0]) == k for x in walk_body(s)) or any(isinstance(x, ast.Subscript) and isinstance(x.ctx, ast.Load) and _key_text(cls, x.slice) == k for x in walk_body(s))
            ctx.ob("20.3-keys", con, used, f"__getstate__ adds the key `{k}`, which is not an attribute, and __setstate__ never reads it: the information is lost", node=key, stmt=f"extra key {k} is consumed by __setstate__")
    ctx.floor("20.3-keys", 5)

    # JSONGrammar specifics
    cls = idx.cls(JSG, "JSONGrammar")
    g, s = cls.methods["__getstate__"], cls.methods["__setstate__"]
    con = cname(JSG, "JSONGrammar", "__getstate__")
    cfg = cfg_of(g)
    copy_stmt = _state_edits(g)[1]
    # any statement that evaluates the property (``self.schema``, ``_ = self.schema``, ``getattr(self, "schema")``)
    refresh = [st for st in stmts_of(g) if cfg.has(st) and not isinstance(st, (ast.If, ast.For, ast.While, ast.With, ast.Try)) and any(_reads_self_attr(x, "schema") for x in ast.walk(st))]
    refresh = [st for st in refresh if cfg.node_of(st) != cfg.node_of(copy_stmt) and cfg.dominates(cfg.node_of(st), cfg.node_of(copy_stmt))] or refresh
    ok = bool(refresh) and cfg.node_of(refresh[0]) != cfg.node_of(copy_stmt) and cfg.dominates(cfg.node_of(refresh[0]), cfg.node_of(copy_stmt))
    ctx.ob("20.3-json", con, ok, "the schema must be refreshed (self.schema) before the state is copied: the pickled schema is what rebuilds the grammar", node=(refresh or [g])[0], stmt="schema refreshed before the state is copied")
    cons = cname(JSG, "JSONGrammar", "__setstate__")
    cfg = cfg_of(s)
    clear = [st for st in stmts_of(s) if isinstance(st, ast.Expr) and norm_stmt(st.value) in ("self.clear()", "self._clear()")]
    upd = [st for st in stmts_of(s) if _takes_state(st, s)]
    add = [c for c in walk_body(s) if isinstance(c, ast.Call) and norm_stmt(c.func) == "self.__schema_builder.add_schema"]
    ok = len(clear) == 1 and len(upd) == 1 and len(add) == 1
    if ok:
        n_clear, n_upd, n_add = cfg.node_of(clear[0]), cfg.node_of(upd[0]), cfg.node_of(rules.enclosing_stmt(s, add[0]))
        ok = cfg.dominates(n_clear, n_upd) and cfg.dominates(n_clear, n_add)
        key = add[0].args[0]
        ok = ok and isinstance(key, ast.Subscript) and dotted(key.value) == "state" and _key_text(cls, key.slice) == "_JSONGrammar__schema"
    ctx.ob("20.3-json", cons, bool(ok), "__setstate__ must create the missing attributes (clear) before taking the state, and rebuild the schema builder from the pickled schema", node=(add or [s])[0], stmt="clear, then state, then schema builder from the pickled schema")
    dflt = [c for c in walk_body(s) if isinstance(c, ast.Call) and norm_stmt(c.func) == "self._defaults.update"]
    ok = len(dflt) == 1 and "state.pop('defaults')" in norm_stmt(dflt[0].args[0]) and cfg.dominates(cfg.node_of(upd[0]), cfg.node_of(rules.enclosing_stmt(s, dflt[0]))) if upd and dflt else False
    ctx.ob("20.3-json", cons, bool(ok), "the default values travel as a raw dictionary and must be put back into the grammar's Defaults", node=(dflt or [s])[0], stmt="defaults restored from the raw dictionary")

    # PydanticGrammar
    cls = idx.cls(PYG, "PydanticGrammar")
    g, s = cls.methods["__getstate__"], cls.methods["__setstate__"]
    cfg = cfg_of(g)
    rb = [st for st in stmts_of(g) if isinstance(st, ast.Expr) and norm_stmt(st.value) == "self.__rebuild_model()"]
    cp = _state_edits(g)
    ok = len(rb) == 1 and cp is not None and cfg.dominates(cfg.node_of(rb[0]), cfg.node_of(cp[1]))
    ctx.ob("20.3-pydantic", cname(PYG, "PydanticGrammar", "__getstate__"), ok, "the model must be rebuilt before its fields are pickled", node=(rb or [g])[0], stmt="model rebuilt before the state is copied")
    ok = any(_takes_state(st, s) for st in stmts_of(s)) and any(isinstance(c, ast.Call) and norm_stmt(c.func) == "self._clear" for c in walk_body(s)) and any(isinstance(st, ast.Assign) and norm_stmt(st.targets[0]) == "self.__model.model_fields" for st in stmts_of(s))
    ctx.ob("20.3-pydantic", cname(PYG, "PydanticGrammar", "__setstate__"), ok, "a model pickled as its fields must be re-created from them", node=s, stmt="model re-created from the pickled fields")

    # HDF5Cache re-invokes __init__
    cls = idx.cls(HDF, "HDF5Cache")
    g, s, init = cls.methods["__getstate__"], cls.methods["__setstate__"], cls.methods["__init__"]
    con = cname(HDF, "HDF5Cache", "__getstate__")
    rets = [st for st in stmts_of(g) if isinstance(st, ast.Return)]
    keys = _explicit_state(g)
    ok = keys is not None
    keys = keys or {}
    params = [p for p in param_names(init) if p != "self"]
    n_def = len(init.args.defaults)
    required = params[: len(params) - n_def] if n_def else params
    ctx.ob("20.3-hdf5", con, ok and set(keys) <= set(params) and set(required) <= set(keys), f"__setstate__ calls __init__(**state): the state keys {sorted(keys)} must be parameters of __init__ {params} and include the required ones {required}", node=(rets or [g])[0], stmt="state keys are the parameters of __init__")
    ctx.ob("20.3-hdf5", con, set(keys) == set(params), f"every parameter of __init__ travels in the state (missing: {sorted(set(params) - set(keys))}), otherwise the restored cache silently takes the default", node=(rets or [g])[0], stmt="every __init__ parameter is in the state")
    # each value is where __init__ put the parameter
    writes = _attr_writes(ctx, cls)
    for k, v in keys.items():
        root = v
        while isinstance(root, ast.Attribute) and not (isinstance(root.value, ast.Name) and root.value.id == "self"):
            root = root.value
        okv = isinstance(root, ast.Attribute) and dotted(root.value) == "self"
        if okv:
            stored = mangle(cls.name, root.attr)
            src = [st for (c, m, st) in writes.get(stored, []) if m == "__init__"]
            okv = any(k in {n_.id for n_ in ast.walk(st.value) if isinstance(n_, ast.Name)} for st in src)
            if okv and root is not v:
                okv = v.attr == k  # e.g. self.__hdf_file.hdf_file_path for hdf_file_path
        ctx.ob("20.3-hdf5", con, bool(okv), f"the state entry `{k}` = {norm_stmt(v)} is not where __init__ keeps its parameter {k}", node=v, stmt=f"state[{k}] is the stored parameter {k}")
    raw = [v for v in keys.values() if norm_stmt(v) == "self.__hdf_file"]
    ctx.ob("20.3-hdf5", con, not raw, "the file singleton (a lock and an open-file manager) must not travel in the state", node=(raw or [g])[0], stmt="the file singleton is not pickled")
    cons = cname(HDF, "HDF5Cache", "__setstate__")
    calls = [c for c in walk_body(s) if isinstance(c, ast.Call) and last_attr(c) == "__init__"]
    state_param = ([p for p in param_names(s) if p != "self"] or ["state"])[0]
    ok = len(calls) == 1 and [(k.arg, dotted(k.value)) for k in calls[0].keywords] == [(None, state_param)]
    if ok:
        # the unbound spelling takes the instance, the bound one (self.__init__(**state)) nothing else
        unbound = norm_stmt(calls[0].func) in ("self.__class__.__init__", "HDF5Cache.__init__", "type(self).__init__")
        ok = [dotted(a) for a in calls[0].args] == (["self"] if unbound else []) and (unbound or norm_stmt(calls[0].func) == "self.__init__")
    ctx.ob("20.3-hdf5", cons, ok, "the cache re-attaches to its file by re-running __init__ with the pickled parameters", node=(calls or [s])[0], stmt="__init__(self, **state)")

    # the base protocol
    g, s = ser.methods["__getstate__"], ser.methods["__setstate__"]
    con = cname(SER, "Serializable", "__setstate__")
    cfg = cfg_of(s)
    b = [rules.enclosing_stmt(s, c) for c in rules.self_calls(s, BEFORE)]
    a = [rules.enclosing_stmt(s, c) for c in rules.self_calls(s, AFTER)]
    loops = [st for st in stmts_of(s) if isinstance(st, ast.For)]
    ok = len(b) == 1 and len(a) == 1 and len(loops) == 1
    if ok:
        ok = cfg.dominates(cfg.node_of(b[0]), cfg.node_of(loops[0])) and cfg.path(cfg.node_of(a[0]), cfg.node_of(loops[0])) is None and cfg.escape_path(cfg.entry, {cfg.node_of(a[0])}) is None
    ctx.ob("20.3-base", con, bool(ok), "the before-hook runs before any attribute is restored and the after-hook after all of them, on every path", node=(b or [s])[0], stmt="before-hook, attributes, after-hook")
    ok = bool(loops) and _restores_by_value(s, loops[0])
    ctx.ob("20.3-base", con, ok, "a missing attribute takes the pickled value; an existing Synchronized attribute (created by the before-hook) takes it through .value", node=(loops or [s])[0], stmt="missing attribute := value; Synchronized.value := value")
    con = cname(SER, "Serializable", "__getstate__")
    loops = [st for st in stmts_of(g) if isinstance(st, ast.For)]
    ok = len(loops) == 1 and _stores_all_but_excluded(g, loops[0])
    ctx.ob("20.3-base", con, ok, "the state holds every attribute except those of _ATTR_NOT_TO_SERIALIZE", node=(loops or [g])[0], stmt="state = __dict__ minus the exclusion list")
    ok = len(loops) == 1 and _stores_counters_by_value(g, loops[0])
    ctx.ob("20.3-base", con, ok, "a Synchronized attribute is stored by value (counters and statistics carry over as numbers)", node=(loops or [g])[0], stmt="Synchronized stored as .value")


_OWN_DICT = ("self.__dict__", "vars(self)")


_EXCLUSION_LIST = {"self._ATTR_NOT_TO_SERIALIZE", "set(self._ATTR_NOT_TO_SERIALIZE)", "type(self)._ATTR_NOT_TO_SERIALIZE", "self.__class__._ATTR_NOT_TO_SERIALIZE"}


def _iter_parts(it: ast.AST) -> tuple[ast.AST | None, bool]:
    """(the mapping view iterated over, whether the exclusion list has been taken out of it): ``m.keys() - excl``,
    ``set(m) - excl``, ``[n for n in m if n not in excl]``, ``sorted(...)`` of these.  (None, False) when the iterable
    is filtered in another way."""
    reduced = False
    while True:
        if isinstance(it, ast.BinOp) and isinstance(it.op, ast.Sub):
            if norm_stmt(it.right) not in _EXCLUSION_LIST:
                return None, False
            reduced, it = True, it.left
        elif isinstance(it, ast.Call) and dotted(it.func) in ("set", "list", "tuple", "sorted", "frozenset") and len(it.args) == 1 and not it.keywords:
            it = it.args[0]
        elif isinstance(it, (ast.ListComp, ast.SetComp, ast.GeneratorExp)) and len(it.generators) == 1 and isinstance(it.generators[0].target, ast.Name) and dotted(it.elt) == it.generators[0].target.id:
            gen = it.generators[0]
            for cond in gen.ifs:
                txt = norm_stmt(cond)
                if txt not in {f"{gen.target.id} not in {x}" for x in _EXCLUSION_LIST}:
                    return None, False
                reduced = True
            it = gen.iter
        else:
            return it, reduced


def _loop_vars(loop: ast.For, mappings: tuple[str, ...]) -> tuple[str, str | None, str] | None:
    """(key variable, value variable or None, mapping text) of ``for k in m`` / ``for k in m.keys()`` /
    ``for k, v in m.items()`` where ``m`` is one of ``mappings`` (the iterable may be reduced by ``- <set>``)."""
    it = _iter_parts(loop.iter)[0]
    if it is None:
        return None
    meth = None
    if isinstance(it, ast.Call) and isinstance(it.func, ast.Attribute) and it.func.attr in ("keys", "items") and not it.args:
        meth, it = it.func.attr, it.func.value
    m = norm_stmt(it)
    if m not in mappings:
        return None
    if meth == "items":
        if isinstance(loop.target, ast.Tuple) and len(loop.target.elts) == 2 and all(isinstance(x, ast.Name) for x in loop.target.elts):
            return loop.target.elts[0].id, loop.target.elts[1].id, m
        return None
    return (loop.target.id, None, m) if isinstance(loop.target, ast.Name) else None


def _conditions(func: ast.AST, cfg, node: int) -> list[tuple[bool, list[str], ast.AST]]:
    """(polarity, unfolded texts, literal) of the plain conditions that hold whenever ``node`` runs."""
    from gv.props.shared import branch_conditions
    from gv.props.shared import conj_literals
    from gv.props.shared import unfolded

    out = []
    for t, v in branch_conditions(cfg, node):
        test = getattr(cfg.ast[t], "test", None)
        if test is None:
            continue
        lits = conj_literals(test)
        if not v and len(lits) != 1:
            continue
        for pol, e in lits:
            out.append((pol if v else not pol, [norm_stmt(x) for x in unfolded(func, e) or [e]], e))
    return out


def _alternatives(func: ast.AST, e: ast.AST) -> set[str]:
    """Texts ``e`` may stand for: locals unfolded, conditional expressions split into their two arms."""
    from gv.props.shared import unfolded

    out: set[str] = set()

    def split(x: ast.AST) -> None:
        if isinstance(x, ast.IfExp):
            split(x.body)
            split(x.orelse)
        else:
            out.add(norm_stmt(x))

    for a in unfolded(func, e) or [e]:
        split(a)
    return out


def _holds(conds, texts: set[str], value: bool) -> bool:
    return any(pol == value and alts and set(alts) <= texts for pol, alts, _ in conds)


def _is_synchronized_test(func: ast.AST, e: ast.AST, subjects: set[str]) -> bool:
    """``isinstance(<one of subjects, possibly through a local>, Synchronized)``."""
    from gv.props.shared import unfolded

    if not (isinstance(e, ast.Call) and dotted(e.func) == "isinstance" and len(e.args) == 2 and (dotted(e.args[1]) or "").split(".")[-1] == "Synchronized"):
        return False
    alts = [norm_stmt(x) for x in unfolded(func, e.args[0]) or [e.args[0]]]
    return bool(alts) and set(alts) <= subjects


def _restores_by_value(func: ast.FunctionDef, loop: ast.For) -> bool:
    """The loop of ``Serializable.__setstate__``: for every (name, value) of the state, the value is bound to the name
    only when the object has no such attribute yet, and an existing ``Synchronized`` attribute receives it through
    ``.value`` -- whatever the order of the two tests and the locals used."""
    from gv.props.shared import unfolded

    state_param = ([p for p in param_names(func) if p != "self"] or ["state"])[0]
    lv = _loop_vars(loop, (state_param,))
    if lv is None:
        return False
    k, v, _ = lv
    values = {v} if v else set()
    values |= {f"{state_param}[{k}]"}
    values |= {f"Path({x})" for x in set(values)}
    current = {f"{d}[{k}]" for d in _OWN_DICT} | {f"{d}.get({k})" for d in _OWN_DICT} | {f"{d}.get({k}, None)" for d in _OWN_DICT}
    missing_true = {f"{k} not in {d}" for d in _OWN_DICT}
    missing_false = {f"{k} in {d}" for d in _OWN_DICT}
    cfg = cfg_of(func)

    def texts(e):
        return _alternatives(func, e)

    raw, by_value = [], []
    for st in [x for x in ast.walk(loop) if isinstance(x, ast.stmt) and x is not loop]:
        if not cfg.has(st):
            continue
        tgt = st.targets[0] if isinstance(st, ast.Assign) and len(st.targets) == 1 else None
        is_raw = isinstance(tgt, ast.Subscript) and norm_stmt(tgt.value) in _OWN_DICT and dotted(tgt.slice) == k
        val = st.value if tgt is not None else None
        if isinstance(st, ast.Expr) and isinstance(st.value, ast.Call) and dotted(st.value.func) == "setattr" and len(st.value.args) == 3 and dotted(st.value.args[0]) == "self" and dotted(st.value.args[1]) == k:
            is_raw, val = True, st.value.args[2]
        conds = _conditions(func, cfg, cfg.node_of(st))
        if is_raw:
            is_missing = _holds(conds, missing_true, True) or _holds(conds, missing_false, False)
            raw.append(is_missing and texts(val) <= values)
        elif isinstance(tgt, ast.Attribute) and tgt.attr == "value" and texts(tgt.value) <= current:
            guarded = any(pol and _is_synchronized_test(func, e, current) for pol, _, e in conds)
            by_value.append(guarded and texts(val) <= values - {x for x in values if x.startswith("Path(")})
    return bool(raw) and all(raw) and bool(by_value) and all(by_value)


def _stores_all_but_excluded(func: ast.FunctionDef, loop: ast.For) -> bool:
    """The loop of ``Serializable.__getstate__`` visits the attributes of the object and stores each of them unless it
    is in ``_ATTR_NOT_TO_SERIALIZE``: the list reduces the iterable (``keys() - list``) or guards the store."""
    lv = _loop_vars(loop, _OWN_DICT)
    if lv is None:
        return False
    k = lv[0]
    excl = _EXCLUSION_LIST
    cfg = cfg_of(func)
    stores = [st for st in ast.walk(loop) if isinstance(st, ast.Assign) and len(st.targets) == 1 and isinstance(st.targets[0], ast.Subscript) and dotted(st.targets[0].slice) == k and isinstance(st.targets[0].value, ast.Name)]
    if not stores or len({st.targets[0].value.id for st in stores}) != 1:
        return False
    reduced = _iter_parts(loop.iter)[1]
    tests = {f"{k} in {x}" for x in excl} | {f"{k} not in {x}" for x in excl}
    for st in stores:
        conds = _conditions(func, cfg, cfg.node_of(st))
        guarded = _holds(conds, {f"{k} in {x}" for x in excl}, False) or _holds(conds, {f"{k} not in {x}" for x in excl}, True)
        # no other condition on the NAME may skip the store
        others = [e for _, alts, e in conds if k in {n_.id for n_ in ast.walk(e) if isinstance(n_, ast.Name)} and not set(alts) <= tests]
        if not (reduced or guarded) or others:
            return False
    # conditions on the value (Synchronized, Path) choose among the stores; some store runs for every kept name
    nodes = {cfg.node_of(st) for st in stores}
    body_entry = cfg.branch.get((cfg.node_of(loop), True))
    if body_entry is None:
        return False
    p = cfg.path(body_entry, cfg.node_of(loop), avoid=nodes)
    if p is None:
        return True
    # the only way round the stores is the guard of the exclusion list
    guards = [t for (t, v), b in cfg.branch.items() if any(sub is cfg.ast[t] for sub in ast.walk(loop)) and cfg.ast[t] is not loop and set(_test_texts(func, cfg.ast[t])) <= tests and _test_texts(func, cfg.ast[t])]
    excluded_branches = set()
    for t in guards:
        txt = _test_texts(func, cfg.ast[t])[0]
        excluded_branches.add(cfg.branch[t, " not in " not in txt])
    return cfg.path(body_entry, cfg.node_of(loop), avoid=nodes | excluded_branches) is None


def _test_texts(func: ast.AST, node: ast.AST) -> list[str]:
    from gv.props.shared import unfolded

    test = getattr(node, "test", None)
    if test is None:
        return []
    return [norm_stmt(x) for x in unfolded(func, test) or [test]]


def _stores_counters_by_value(func: ast.FunctionDef, loop: ast.For) -> bool:
    """What ``Serializable.__getstate__`` stores for a ``Synchronized`` attribute is its ``.value``."""
    from gv.props.shared import unfolded

    lv = _loop_vars(loop, _OWN_DICT)
    if lv is None:
        return False
    k, v, _ = lv
    current = {f"{d}[{k}]" for d in _OWN_DICT} | {f"getattr(self, {k})"} | ({v} if v else set())
    stores = [st for st in ast.walk(loop) if isinstance(st, ast.Assign) and len(st.targets) == 1 and isinstance(st.targets[0], ast.Subscript) and dotted(st.targets[0].slice) == k and isinstance(st.targets[0].value, ast.Name)]
    if not stores:
        return False
    tests = []
    for n_ in ast.walk(loop):
        test = n_.test if isinstance(n_, (ast.If, ast.IfExp)) else None
        if test is not None and _is_synchronized_test(func, test, current) and norm_stmt(test) not in [norm_stmt(t) for t in tests]:
            tests.append(test)
    if len(tests) != 1:
        return False
    by_value = {f"{c}.value" for c in current}
    n_taken = n_other = 0
    for st in stores:
        taken = unfolded(func, st, facts={norm_stmt(tests[0]): True}, get=lambda x: x.value)
        other = unfolded(func, st, facts={norm_stmt(tests[0]): False}, get=lambda x: x.value)
        if taken:  # the store runs for a Synchronized attribute: it stores the number
            n_taken += 1
            if not {norm_stmt(x) for x in taken} <= by_value:
                return False
        if other:  # and a plain attribute is not stored through .value
            n_other += 1
            if any(norm_stmt(x).endswith(".value") for x in other):
                return False
    return n_taken > 0 and n_other > 0


# ---------------------------------------------------------------- 20.4 / 20.5 / 20.6
def check_mangling(ctx: Ctx) -> None:
    idx = ctx.index
    n = 0
    for cls in idx.all_classes():
        for mname, f in cls.methods.items():
            sites = [j for j in walk_body(f) if isinstance(j, ast.JoinedStr) and any(isinstance(v, ast.FormattedValue) and norm_stmt(v.value) in ("self.__class__.__name__", "type(self).__name__") for v in j.values) and any(isinstance(v, ast.Constant) and str(v.value).startswith("__") for v in j.values)]
            for j in sites:
                n += 1
                subs = idx.subclasses(cls)
                ctx.ob("20.4-mangling", cname(cls.module.relpath, cls.qualname, mname), not subs, f"{norm_stmt(j)} builds the mangled name from the runtime class: in the subclass(es) {[c.name for c in subs][:3]} it names an attribute that does not exist (private attributes are mangled with the defining class {cls.name})", node=j)
    ctx.floor("20.4-mangling", 3)


def check_getstate_purity(ctx: Ctx) -> None:
    idx = ctx.index
    n = 0
    for cls in idx.all_classes():
        g = cls.methods.get("__getstate__")
        if g is None:
            continue
        n += 1
        con = cname(cls.module.relpath, cls.qualname, "__getstate__")
        aliases = {"self.__dict__"}
        for s in stmts_of(g):
            if isinstance(s, ast.Assign) and isinstance(s.targets[0], ast.Name) and norm_stmt(s.value) in ("self.__dict__", "self", "vars(self)"):
                aliases.add(s.targets[0].id)
        bad = []
        for nd in walk_body(g):
            if isinstance(nd, ast.Delete):
                bad += [t for t in nd.targets if isinstance(t, ast.Subscript) and norm_stmt(t.value) in aliases]
                bad += [t for t in nd.targets if isinstance(t, ast.Attribute) and dotted(t.value) == "self"]
            elif isinstance(nd, ast.Assign):
                bad += [t for t in nd.targets if isinstance(t, ast.Subscript) and norm_stmt(t.value) in aliases]
            elif isinstance(nd, ast.Call) and isinstance(nd.func, ast.Attribute) and nd.func.attr in ("pop", "clear", "update", "popitem", "setdefault") and norm_stmt(nd.func.value) in aliases:
                bad.append(nd)
        ctx.ob("20.5-copy", con, not bad, "__getstate__ edits the live object's __dict__ instead of a copy: pickling (also the implicit one of multiprocessing) damages the original", node=(bad or [g])[0], stmt="__getstate__ edits a copy of the state")
    ctx.floor("20.5-copy", 6)


def _open_mode(call: ast.Call) -> tuple[ast.AST | None, bool] | None:
    """(mode argument, is the builtin) of an ``open`` call: ``<path>.open(mode)`` or ``open(<path>, mode)``."""
    from gv.astutil import arg_or_kw

    if isinstance(call.func, ast.Attribute) and call.func.attr == "open" and dotted(call.func.value) not in ("io", "os", "codecs"):
        return arg_or_kw(call, 0, "mode"), False
    if dotted(call.func) in ("open", "io.open"):
        return arg_or_kw(call, 1, "mode"), True
    return None


def check_pickle_helpers(ctx: Ctx) -> None:
    from gv.astutil import arg_or_kw
    from gv.props.shared import unfolded

    idx = ctx.index
    imports = idx.module(PKL).imports
    t, f = idx.func(PKL, "to_pickle"), idx.func(PKL, "from_pickle")

    def from_pickle_module(e: ast.AST, name: str) -> bool:
        """``e`` denotes ``pickle.<name>`` (``pickle.load``, ``load`` imported from pickle, under an alias or not)."""
        if isinstance(e, ast.Name):
            return imports.get(e.id) == f"pickle.{name}"
        return isinstance(e, ast.Attribute) and e.attr == name and isinstance(e.value, ast.Name) and imports.get(e.value.id) == "pickle"

    for fn, mode, cls_, meth in ((t, "wb", "Pickler", "dump"), (f, "rb", "Unpickler", "load")):
        con = cname(PKL, None, fn.name)
        opens = [c for c in walk_body(fn) if isinstance(c, ast.Call) and _open_mode(c) is not None]
        withs = [w for w in stmts_of(fn) if isinstance(w, ast.With)]
        ok = len(opens) == 1 and getattr(_open_mode(opens[0])[0], "value", None) == mode and len(withs) == 1 and opens[0] in [i.context_expr for i in withs[0].items]
        # the whole-file spelling: <path>.read_bytes() / <path>.write_bytes(..) open in binary mode and close by themselves
        whole = [c for c in walk_body(fn) if isinstance(c, ast.Call) and isinstance(c.func, ast.Attribute) and c.func.attr == ("write_bytes" if meth == "dump" else "read_bytes") and len(c.args) == (1 if meth == "dump" else 0) and not c.keywords]
        if not opens and not withs and len(whole) == 1:
            ctx.ob("20.6-helpers", con, True, "", node=whole[0], stmt=f"file opened '{mode}' in a with statement")
            conv = [c for c in walk_body(fn) if isinstance(c, ast.Call) and from_pickle_module(c.func, meth + "s")]
            other = [c for c in walk_body(fn) if isinstance(c, ast.Call) and (from_pickle_module(c.func, meth) or from_pickle_module(c.func, cls_) or (isinstance(c.func, ast.Attribute) and c.func.attr == meth))]
            ok = len(conv) == 1 and not other
            if ok and meth == "dump":
                # the bytes written are the pickled first parameter
                written = unfolded(fn, whole[0].args[0]) or []
                ok = len(written) == 1 and [norm_stmt(x) for x in unfolded(fn, conv[0]) or []] == [norm_stmt(written[0])] and dotted(arg_or_kw(conv[0], 0, "obj")) == param_names(fn)[0]
            if ok and meth == "load":
                # the bytes read are unpickled and the result is what is returned
                data = unfolded(fn, arg_or_kw(conv[0], 0, "data")) if arg_or_kw(conv[0], 0, "data") is not None else None
                ok = data is not None and len(data) == 1 and [norm_stmt(x) for x in unfolded(fn, whole[0]) or []] == [norm_stmt(data[0])]
                rets = [s for s in stmts_of(fn) if isinstance(s, ast.Return) and s.value is not None]
                ok = ok and len(rets) == 1
                if ok:
                    alts = unfolded(fn, rets[0].value) or []
                    loaded = [norm_stmt(x) for x in unfolded(fn, conv[0]) or []]
                    ok = bool(alts) and len(loaded) == 1 and all(loaded[0] in norm_stmt(a) for a in alts)
            ctx.ob("20.6-helpers", con, bool(ok), f"{fn.name} must {meth} the object with pickle's {cls_} (or pickle.{meth}) on the opened file", node=(conv or [fn])[0], stmt=f"{cls_}.{meth}")
            continue
        ctx.ob("20.6-helpers", con, bool(ok), f"{fn.name} must open the file in mode '{mode}' inside a with statement", node=(opens or [fn])[0], stmt=f"file opened '{mode}' in a with statement")
        stream = None
        if ok:
            item = next(i for i in withs[0].items if i.context_expr is opens[0])
            stream = dotted(item.optional_vars) if item.optional_vars is not None else None
        # the two spellings of the operation: <Pickler|Unpickler>(stream).<dump|load>(..) and pickle.<dump|load>(.., stream)
        calls = [c for c in walk_body(fn) if isinstance(c, ast.Call) and isinstance(c.func, ast.Attribute) and c.func.attr == meth and not from_pickle_module(c.func, meth)]
        ctor = [c for c in walk_body(fn) if isinstance(c, ast.Call) and from_pickle_module(c.func, cls_)]
        direct = [c for c in walk_body(fn) if isinstance(c, ast.Call) and from_pickle_module(c.func, meth)]
        the_call = None
        if len(calls) == 1 and len(ctor) == 1 and not direct:
            recv = unfolded(fn, calls[0].func.value) or []
            ok = len(recv) == 1 and [norm_stmt(x) for x in unfolded(fn, ctor[0]) or []] == [norm_stmt(recv[0])] and stream is not None and dotted(arg_or_kw(ctor[0], 0, "file")) == stream
            the_call, obj = calls[0], arg_or_kw(calls[0], 0, "obj")
        elif len(direct) == 1 and not calls and not ctor:
            pos = 1 if meth == "dump" else 0
            ok = stream is not None and dotted(arg_or_kw(direct[0], pos, "file")) == stream
            the_call, obj = direct[0], arg_or_kw(direct[0], 0, "obj")
        else:
            ok = False
        if ok and meth == "dump":
            ok = dotted(obj) == param_names(fn)[0]
        if ok and meth == "load":
            rets = [s for s in stmts_of(fn) if isinstance(s, ast.Return) and s.value is not None]
            ok = len(rets) == 1
            if ok:
                alts = unfolded(fn, rets[0].value) or []
                loaded = [norm_stmt(x) for x in unfolded(fn, the_call) or []]
                ok = bool(alts) and len(loaded) == 1 and all(loaded[0] in norm_stmt(a) for a in alts)
        ctx.ob("20.6-helpers", con, bool(ok), f"{fn.name} must {meth} the object with pickle's {cls_} (or pickle.{meth}) on the opened file", node=(calls or direct or [fn])[0], stmt=f"{cls_}.{meth}")


_MARKER = "__internal__"


def _sets_marker(s: ast.stmt, holder: str) -> bool:
    """``<holder>.__internal__ = v`` or ``setattr(<holder>, "__internal__", v)``."""
    if isinstance(s, (ast.Assign, ast.AnnAssign)) and s.value is not None:
        return any(norm_stmt(t) == f"{holder}.{_MARKER}" for t in (s.targets if isinstance(s, ast.Assign) else [s.target]))
    if isinstance(s, ast.Expr) and isinstance(s.value, ast.Call) and dotted(s.value.func) == "setattr" and len(s.value.args) == 3 and not s.value.keywords:
        return norm_stmt(s.value.args[0]) == holder and const_value(s.value.args[1]) == _MARKER
    return False


def _has_marker_test(func: ast.AST, e: ast.AST, subjects: set[str]) -> bool:
    """``hasattr(<one of subjects, possibly through a local>, "__internal__")``."""
    from gv.props.shared import unfolded

    if not (isinstance(e, ast.Call) and dotted(e.func) == "hasattr" and len(e.args) == 2 and not e.keywords and const_value(e.args[1]) == _MARKER):
        return False
    if norm_stmt(e.args[0]) in subjects:
        return True
    alts = {norm_stmt(x) for x in unfolded(func, e.args[0]) or [e.args[0]]}
    return bool(alts) and alts <= subjects


def check_runtime_models(ctx: Ctx) -> None:
    """20.8: a pydantic model created at run time (create_model) cannot be pickled by reference: PydanticGrammar pickles
    the FIELDS of the models that carry the `__internal__` marker instead.  Every site that installs a run-time model must
    therefore mark it, unless it derives from a base that already carries the marker."""
    rel = "core/grammars/pydantic_grammar.py"
    cls = ctx.index.cls(rel, "PydanticGrammar")
    n = 0
    for mname, m in sorted(cls.methods.items()):
        cfg = cfg_of(m)
        for st in stmts_of(m):
            if not (isinstance(st, ast.Assign) and isinstance(st.value, ast.Call) and dotted(st.value.func) == "create_model" and isinstance(st.targets[0], ast.Attribute) and st.targets[0].attr.endswith("__model")):
                continue
            n += 1
            holder = norm_stmt(st.targets[0])
            marks = [s_ for s_ in stmts_of(m) if _sets_marker(s_, holder)]
            base = kwarg(st.value, "__base__")
            sn = cfg.node_of(st)
            ok = False
            for mk in marks:
                mn = cfg.node_of(mk)
                tests = [(t, v) for t, v in branch_conditions(cfg, mn) if cfg.kind[t] == "test"]
                if not tests and cfg.escape_path(sn, {mn}) is None:
                    ok = True  # marked unconditionally
                elif len(tests) == 1:
                    # marked when the marker is absent: looked up on the base (the derived model inherits it otherwise)
                    # or, once the model is created, on the model itself (the lookup goes through its bases); the only
                    # way round the mark is the other outcome of that test
                    t, v = tests[0]
                    subjects = ({norm_stmt(base)} if base is not None else set()) | ({holder} if cfg.dominates(sn, t) else set())
                    lits = conj_literals(cfg.ast[t].test)
                    absent = len(lits) == 1 and _has_marker_test(m, lits[0][1], subjects) and (lits[0][0] if v else not lits[0][0]) is False
                    other = cfg.branch.get((t, not v))
                    if absent and cfg.path(sn, cfg.exit, avoid={mn} | ({other} if other is not None else set())) is None:
                        ok = True
            ctx.ob("20.8-runtime-model", cname(rel, "PydanticGrammar", mname), ok, f"{mname} installs a model created at run time without the `__internal__` marker (set unconditionally, or when its base lacks it): __getstate__ then leaves the class itself in the state and pickle fails (the class cannot be imported), or, unpickled in the same process, shares the class with the original", node=st, stmt="run-time model carries the pickling marker")
    ctx.floor("20.8-runtime-model", 2)
    gs = cls.methods.get("__getstate__")
    ok = gs is not None and any(isinstance(c, ast.Call) and dotted(c.func) == "hasattr" and len(c.args) == 2 and const_value(c.args[1]) == "__internal__" for c in walk_body(gs))
    ctx.ob("20.8-runtime-model", cname(rel, "PydanticGrammar", "__getstate__"), ok, "__getstate__ must replace a marked model by its fields", node=gs or cls.node, stmt="marked models are pickled by their fields")


# attributes a hook run AFTER the state is restored may assign although they are pickled, with the reason
HOOK_RECOMPUTES = {
    ("utils/directory_creator.py::DirectoryCreator", "__counter"): "the counter names the next free directory: it is recomputed from the content of the directory, which is the truth in the process that unpickles",
}


def check_hook_writes(ctx: Ctx) -> None:
    """20.9: ``Serializable.__setstate__`` runs ``_init_shared_memory_attrs_before``, restores the pickled attributes
    (an attribute the first hook created is kept, a synchronised one gets its value), then runs
    ``_init_shared_memory_attrs_after``.  So: what the AFTER hook assigns replaces what was just restored -- it may only
    (re)create attributes that are left out of the pickled state; what the BEFORE hook assigns hides the pickled
    value -- it may only create synchronised primitives (their value is then set) or attributes left out of the state.
    A seeder, a counter or any other plain attribute created in a hook comes back as new from every unpickling."""
    idx = ctx.index
    ser = idx.cls(SER, "Serializable")
    n = 0
    for cls in idx.subclasses(ser):
        entries, _ = _entries(ctx, cls)
        for hook in HOOKS:
            m = cls.methods.get(hook)
            if m is None:
                continue
            for st in stmts_of(m):
                if not isinstance(st, (ast.Assign, ast.AnnAssign)) or getattr(st, "value", None) is None:
                    continue
                for t in (st.targets if isinstance(st, ast.Assign) else [st.target]):
                    if not (isinstance(t, ast.Attribute) and dotted(t.value) == "self"):
                        continue
                    n += 1
                    names = {t.attr, mangle(cls.name, t.attr)}
                    excluded = bool(names & entries)
                    sync = isinstance(st.value, ast.Call) and (dotted(st.value.func) or "").split(".")[-1] in SYNCHRONIZED
                    known = (cls.key, t.attr) in HOOK_RECOMPUTES
                    ok = excluded or known or (hook == BEFORE and sync)
                    ctx.ob("20.9-hook-writes", cname(cls.module.relpath, cls.qualname, hook), ok, f"`{norm_stmt(st, 60)}` in {hook}: `{t.attr}` is part of the pickled state and " + ("is assigned after the state is restored: the restored value is replaced by a new object at every unpickling" if hook == AFTER else "is created before the state is restored as a plain attribute: the pickled value is dropped"), node=st, stmt=f"{t.attr} assigned in {hook}")
    ctx.floor("20.9-hook-writes", 6)


def run(ctx: Ctx) -> None:
    check_hook_writes(ctx)
    check_runtime_models(ctx)
    check_exclusions(ctx)
    check_primitives(ctx)
    check_pairs(ctx)
    check_mangling(ctx)
    check_getstate_purity(ctx)
    check_pickle_helpers(ctx)
    # JSONGrammar pickles its CACHED schema: the state restores the same grammar only if that cache is reset by every
    # edit (C15 rule 15.1), otherwise an object pickled after a rename / namespace change restores with the old names
    from gv.props import c15
    from gv.props.c12 import _Prefixed

    c15.check_json(_Prefixed(ctx, "20.7-current-schema/"))
    # ... and what the pickled schema leaves in the schema builder of the restored grammar (its `required` item) is
    # emptied again, or the restored grammar keeps requiring what an edit made optional (rule group 15.8 of C15)
    c15.check_builder_required(_Prefixed(ctx, "20.10-builder-required/"))


_SOB = "problems/mdo/sobieski/disciplines.py"
_ANA = "disciplines/analytic.py"
_SCA = "problems/mdo/scalable/data_driven/discipline.py"
_DOE = "algos/doe/base_doe_library.py"
_DIR = "utils/directory_creator.py"
_PF = "algos/problem_function.py"
_EST = "core/execution_status.py"
_ESS = "core/execution_statistics.py"
_TQ = "algos/_progress_bars/custom_tqdm_progress_bar.py"
_MFC = "caches/memory_full_cache.py"
WITNESSES = [
    {"name": "seeded-C20-12", "file": "core/grammars/json_grammar.py", "old": "        )\n        # The required names are handled by _required_names.\n        self.__schema_builder.required.clear()\n        self._defaults.update(cast(\"StrKeyMapping\", state.pop(\"defaults\")))\n", "new": "        )\n        self._defaults.update(cast(\"StrKeyMapping\", state.pop(\"defaults\")))\n", "expect": "20.10", "note": "JSONGrammar.__setstate__ no longer empties the required names that the pickled s"},
    {"name": "seeded-C20-9", "file": "algos/doe/base_doe_library.py", "old": "        self.unit_samples = array([])\n        self._seeder = Seeder()\n        self.__compute_jacobians = False\n        self.__output_functions = []\n        self.__jacobian_functions = []\n        self.lock = RLock()\n\n    def _init_shared_memory_attrs_after(self) -> None:\n        self.lock = RLock()\n", "new": "        self.unit_samples = array([])\n        self.__compute_jacobians = False\n        self.__output_functions = []\n        self.__jacobian_functions = []\n        self._init_shared_memory_attrs_after()\n\n    def _init_shared_memory_attrs_after(self) -> None:\n        self._seeder = Seeder()\n        self.lock = RLock()\n", "expect": "20.9", "note": "BaseDOELibrary re-creates its seeder together with the lock in _init_shared_memo"},
    {"name": "sobieski-problem-rebuilt-with-default-dtype", "file": _SOB, "old": "        self.sobieski_problem = SobieskiProblem(self.dtype)", "new": "        self.sobieski_problem = SobieskiProblem()", "expect": "20.1"},
    {"name": "statistics-exclusion-mangled", "file": _ESS, "old": "        \"__duration\",\n        \"__n_executions\",\n        \"__n_linearizations\",", "new": "        \"_ExecutionStatistics__duration\",\n        \"_ExecutionStatistics__n_executions\",\n        \"_ExecutionStatistics__n_linearizations\",", "expect": "20.2"},
    {"name": "sobieski-problem-not-rebuilt", "file": _SOB, "old": "        super().__setstate__(state)\n        self.sobieski_problem = SobieskiProblem(self.dtype)", "new": "        super().__setstate__(state)", "expect": "20.1"},
    {"name": "sobieski-rebuilt-only-for-complex", "file": _SOB, "old": "        super().__setstate__(state)\n        self.sobieski_problem = SobieskiProblem(self.dtype)", "new": "        super().__setstate__(state)\n        if self.dtype != SobieskiBase.DataType.FLOAT:\n            self.sobieski_problem = SobieskiProblem(self.dtype)", "expect": "20.1"},
    {"name": "sobieski-setstate-skips-base", "file": _SOB, "old": "        super().__setstate__(state)\n        self.sobieski_problem = SobieskiProblem(self.dtype)", "new": "        self.__dict__.update(state)\n        self.sobieski_problem = SobieskiProblem(self.dtype)", "expect": "20.1"},
    {"name": "sobieski-dtype-excluded", "file": _SOB, "old": "            \"sobieski_problem\",\n", "new": "            \"sobieski_problem\",\n            \"dtype\",\n", "expect": "20.1"},
    {"name": "analytic-functions-left-empty", "file": _ANA, "old": "        super().__setstate__(state)\n        self._sympy_funcs = {}\n        self._sympy_jac_funcs = {}\n        self._init_expressions()", "new": "        super().__setstate__(state)\n        self._sympy_funcs = {}\n        self._sympy_jac_funcs = {}", "expect": "20.1"},
    {"name": "scalable-model-not-rebuilt", "file": _SCA, "old": "        super().__setstate__(state)\n        self.__create_scalable_model()", "new": "        super().__setstate__(state)", "expect": "20.1"},
    {"name": "doe-lock-not-recreated", "file": _DOE, "old": "    def _init_shared_memory_attrs_after(self) -> None:\n        self.lock = RLock()", "new": "    def _init_shared_memory_attrs_after(self) -> None:\n        pass", "expect": "20."},
    {"name": "doe-lock-not-excluded", "file": _DOE, "old": "_ATTR_NOT_TO_SERIALIZE: ClassVar[set[str]] = {\"lock\"}", "new": "_ATTR_NOT_TO_SERIALIZE: ClassVar[set[str]] = set()", "expect": "20.2"},
    {"name": "directory-lock-pickled", "file": _DIR, "old": "    _ATTR_NOT_TO_SERIALIZE: ClassVar[set[str]] = {\"_DirectoryCreator__lock\"}\n", "new": "", "expect": "20.2"},
    {"name": "directory-lock-unmangled-entry", "file": _DIR, "old": "{\"_DirectoryCreator__lock\"}", "new": "{\"__lock\"}", "expect": "20."},
    {"name": "counter-created-in-constructor", "edits": [{"file": _PF, "old": "        self._init_shared_memory_attrs_before()\n        self._output_evaluation_sequence", "new": "        self._n_calls = Value(\"i\", 0)\n        self._output_evaluation_sequence"}, {"file": _PF, "old": "        \"\"\"Initialize the shared attributes in multiprocessing.\"\"\"\n        self._n_calls = Value(\"i\", 0)", "new": "        \"\"\"Initialize the shared attributes in multiprocessing.\"\"\""}], "expect": "20.2"},
    {"name": "statistics-counters-outside-hook", "edits": [{"file": _ESS, "old": "    def _init_shared_memory_attrs_before(self) -> None:\n        self.__duration = Value", "new": "    def _create_counters(self) -> None:\n        self.__duration = Value"}, {"file": _ESS, "old": "        self.__name = name\n        self._init_shared_memory_attrs_before()", "new": "        self.__name = name\n        self._create_counters()"}], "expect": "20."},
    {"name": "status-gets-a-lock", "edits": [{"file": _EST, "old": "from strenum import StrEnum\n", "new": "from multiprocessing import RLock\n\nfrom strenum import StrEnum\n"}, {"file": _EST, "old": "        self.__status = self.Status.DONE\n        self._init_shared_memory_attrs_before()", "new": "        self.__status = self.Status.DONE\n        self.__lock = RLock()\n        self._init_shared_memory_attrs_before()"}], "expect": "20.2"},
    {"name": "observers-created-in-constructor", "edits": [{"file": _EST, "old": "        self.__status = self.Status.DONE\n        self._init_shared_memory_attrs_before()", "new": "        self.__status = self.Status.DONE\n        self.__observers = set()"}, {"file": _EST, "old": "    def _init_shared_memory_attrs_before(self) -> None:\n        self.__observers = set()", "new": "    def _init_shared_memory_attrs_before(self) -> None:\n        pass"}], "expect": "20.1"},
    {"name": "memory-cache-new-lock", "file": _MFC, "old": "        self.__is_memory_shared = is_memory_shared\n", "new": "        self.__is_memory_shared = is_memory_shared\n        self.__write_lock = RLock()\n", "expect": "20.2"},
    {"name": "hdf5-state-without-name", "file": HDF, "old": "            \"hdf_node_path\": self.__hdf_node_path,\n            \"name\": self.name,\n", "new": "            \"hdf_node_path\": self.__hdf_node_path,\n", "expect": "20.3"},
    {"name": "hdf5-state-with-lock", "file": HDF, "old": "            \"name\": self.name,\n        }", "new": "            \"name\": self.name,\n            \"lock\": self.lock,\n        }", "expect": "20."},
    {"name": "hdf5-paths-swapped", "file": HDF, "old": "            \"hdf_file_path\": self.__hdf_file.hdf_file_path,\n            \"hdf_node_path\": self.__hdf_node_path,", "new": "            \"hdf_file_path\": self.__hdf_node_path,\n            \"hdf_node_path\": self.__hdf_file.hdf_file_path,", "expect": "20.3"},
    {"name": "hdf5-singleton-pickled", "file": HDF, "old": "            \"hdf_file_path\": self.__hdf_file.hdf_file_path,", "new": "            \"hdf_file_path\": self.__hdf_file,", "expect": "20.3"},
    {"name": "hdf5-restore-copies-state", "file": HDF, "old": "        self.__class__.__init__(self, **state)", "new": "        self.__dict__.update(state)", "expect": "20.3"},
    {"name": "json-schema-not-refreshed", "file": JSG, "old": "        # Ensure self.__schema_builder is filled.\n        self.schema  # noqa: B018\n", "new": "", "expect": "20.3"},
    {"name": "json-restore-without-clear", "file": JSG, "old": "        # That will create the missing attributes.\n        self.clear()\n", "new": "", "expect": "20.3"},
    {"name": "json-defaults-not-restored", "file": JSG, "old": "        self._defaults.update(cast(\"StrKeyMapping\", state.pop(\"defaults\")))\n", "new": "", "expect": "20.3"},
    {"name": "json-getstate-edits-live-dict", "file": JSG, "old": "        state = dict(self.__dict__)\n        # The validator will be recreated on demand.", "new": "        state = self.__dict__\n        # The validator will be recreated on demand.", "expect": "20.5"},
    {"name": "json-builder-from-empty-schema", "file": JSG, "old": "            state[f\"_{self.__class__.__name__}__schema\"], True", "new": "            {}, True", "expect": "20.3"},
    {"name": "json-grammar-subclassed", "file": JSG, "old": "        self._defaults.update(cast(\"StrKeyMapping\", state.pop(\"defaults\")))\n", "new": "        self._defaults.update(cast(\"StrKeyMapping\", state.pop(\"defaults\")))\n\n\nclass StrictJSONGrammar(JSONGrammar):\n    \"\"\"A JSON grammar.\"\"\"\n", "expect": "20.4"},
    {"name": "pydantic-model-not-rebuilt-before-pickling", "file": PYG, "old": "    def __getstate__(self) -> dict[str, Any]:\n        self.__rebuild_model()\n", "new": "    def __getstate__(self) -> dict[str, Any]:\n", "expect": "20.3"},
    {"name": "progress-bar-stream-not-recreated", "file": _TQ, "old": "        self.fp = tqdm.utils.DisableOnWriteError(\n            self.__FILE_STREAM_CLASS(), tqdm_instance=self\n        )", "new": "        pass", "expect": "20.3"},
    {"name": "base-after-hook-before-attributes", "edits": [{"file": SER, "old": "        self._init_shared_memory_attrs_before()\n        for attribute_name", "new": "        self._init_shared_memory_attrs_before()\n        self._init_shared_memory_attrs_after()\n        for attribute_name"}, {"file": SER, "old": "                self.__dict__[attribute_name].value = attribute_value\n        self._init_shared_memory_attrs_after()", "new": "                self.__dict__[attribute_name].value = attribute_value"}], "expect": "20.3"},
    {"name": "base-before-hook-dropped", "file": SER, "old": "        self._init_shared_memory_attrs_before()\n        for attribute_name", "new": "        for attribute_name", "expect": "20.3"},
    {"name": "base-counters-pickled-raw", "file": SER, "old": "                attribute_value = attribute_value.value\n", "new": "                pass\n", "expect": "20.3"},
    {"name": "base-counters-not-restored", "file": SER, "old": "                self.__dict__[attribute_name].value = attribute_value\n", "new": "                pass\n", "expect": "20.3"},
    {"name": "base-ignores-exclusion-list", "file": SER, "old": "for attribute_name in self.__dict__.keys() - self._ATTR_NOT_TO_SERIALIZE:", "new": "for attribute_name in self.__dict__.keys():", "expect": "20.3"},
    {"name": "to-pickle-text-mode", "file": PKL, "old": "open(\"wb\")", "new": "open(\"w\")", "expect": "20.6"},
    {"name": "from-pickle-returns-unpickler", "file": PKL, "old": "        return Unpickler(f).load()", "new": "        return Unpickler(f)", "expect": "20.6"},
]
TWINS = [
    {"name": "sobieski-keyword-dtype", "file": _SOB, "old": "        self.sobieski_problem = SobieskiProblem(self.dtype)", "new": "        self.sobieski_problem = SobieskiProblem(dtype=self.dtype)"},
    {"name": "json-state-copied-with-copy", "file": JSG, "old": "        state = dict(self.__dict__)\n        # The validator will be recreated on demand.", "new": "        state = self.__dict__.copy()\n        # The validator will be recreated on demand."},
    {"name": "directory-exclusion-as-union", "file": _DIR, "old": "    _ATTR_NOT_TO_SERIALIZE: ClassVar[set[str]] = {\"_DirectoryCreator__lock\"}\n", "new": "    _ATTR_NOT_TO_SERIALIZE: ClassVar[set[str]] = Serializable._ATTR_NOT_TO_SERIALIZE | {\n        \"_DirectoryCreator__lock\"\n    }\n"},
    {"name": "hdf5-init-by-class-name", "file": HDF, "old": "        self.__class__.__init__(self, **state)", "new": "        HDF5Cache.__init__(self, **state)"},
    {"name": "doe-lock-created-by-hook-in-init", "file": _DOE, "old": "        self.__jacobian_functions = []\n        self.lock = RLock()", "new": "        self.__jacobian_functions = []\n        self._init_shared_memory_attrs_after()"},
    {"name": "pickle-protocol-default", "file": PKL, "old": "Pickler(f, protocol=2)", "new": "Pickler(f)"},
]
