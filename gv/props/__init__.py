"""Per-property rule modules (``c01`` ... ``c20``) and their descriptions."""

from __future__ import annotations

META: dict[str, dict] = {}


def describe(pid: str, *, explanation: str, decided: list[str], not_decided: list[str], trusted: list[str] | None = None) -> None:
    META[pid] = {
        "explanation": explanation,
        "decided": decided,
        "not_decided": not_decided,
        "trusted": trusted or [],
    }
