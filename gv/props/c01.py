"""C01 -- evaluations are faithful, memoised and recorded in physical space."""

from __future__ import annotations

import ast

from gv import rules
from gv.astutil import AnalysisError
from gv.astutil import arg_or_kw
from gv.astutil import call_name
from gv.astutil import compare_parts
from gv.astutil import const_value
from gv.astutil import dotted
from gv.astutil import kwarg
from gv.astutil import last_attr
from gv.astutil import names_in
from gv.astutil import norm_stmt
from gv.astutil import same
from gv.astutil import stmts_of
from gv.astutil import walk_body
from gv.cfg import cfg_of
from gv.dataflow import UNKNOWN
from gv.dataflow import Forward
from gv.props.shared import unfolded
from gv.props import describe
from gv.report import Ctx
from gv.report import cname

PF = "algos/problem_function.py"
EP = "algos/evaluation_problem.py"
DB = "algos/database.py"
DS = "algos/design_space.py"
HN = "algos/hashable_ndarray.py"
LF = "core/mdo_functions/mdo_linear_function.py"

describe(
    "C01",
    explanation=(
        "Static decision of the structural clauses of C01: the five evaluation sequences of "
        "EvaluationProblem._preprocess_function compose to maps of the declared coordinate space "
        "(coordinate-space typing N/U/V/J[N]/J[U]); the four memoising methods of ProblemFunction key the "
        "database by the physical point, look up before computing (dominance), store after computing "
        "(must-pass-through), store the physical Jacobian and return the caller-space Jacobian; gradient "
        "(un)normalisation is the linear part of the point map and every DesignSpace subclass forwards "
        "minus_lb; keys are copied, compared by content; only Database methods write the mapping; "
        "MDOLinearFunction.normalize uses one mask, ub-lb, lb."
    ),
    decided=["1.1 sequence composition", "1.2 database key/value spaces", "1.3 lookup dominates compute", "1.4 store post-dominates compute", "1.5 gradient scaling delegation and forwarding", "1.6 key copy/equality", "1.7 who writes Database.__data", "1.8 linear-function normalisation slots", "1.1 rounding per configuration of the options", "1.8 the original linear function is not modified", "1.9 bounds edits invalidate the cached normalisation (rule groups of C02)", "1.10 results are not a reusable buffer"],
    not_decided=["equality of the returned value with the user's callable", "dtype promotion, NaN values, sparse/dense numerics"],
)

# ---------------------------------------------------------------------------
# roles of the compute methods, read from ProblemFunction.__init__


def compute_roles(ctx: Ctx) -> dict[str, dict]:
    """Map method name -> {role: output|jacobian, db: bool, norm: bool} from ``__init__``."""
    init = ctx.index.method(PF, "ProblemFunction", "__init__")
    roles: dict[str, dict] = {}
    # which local is the output callable / the jacobian callable
    sup = [c for c in rules.super_calls(init, "__init__")]
    ctx.need(sup, "ProblemFunction.__init__ no longer calls super().__init__")
    out_var = sup[0].args[0].id if sup[0].args and isinstance(sup[0].args[0], ast.Name) else None
    jac_e = kwarg(sup[0], "jac")
    jac_var = jac_e.id if isinstance(jac_e, ast.Name) else None
    ctx.need(out_var and jac_var, "cannot identify the output/jacobian callables passed to MDOFunction.__init__")

    def visit(stmts, db, norm):
        for s in stmts:
            if isinstance(s, ast.If):
                names = names_in(s.test)
                b_db = db or "use_database" in names
                b_norm = "with_normalized_inputs" in names
                visit(s.body, b_db, b_norm)
                visit(s.orelse, "use_database" in names and False or db, False) if not (len(s.orelse) == 1 and isinstance(s.orelse[0], ast.If)) else visit(s.orelse, db, False)
            elif isinstance(s, ast.Assign) and len(s.targets) == 1 and isinstance(s.targets[0], ast.Name):
                v = s.value
                if isinstance(v, ast.Attribute) and isinstance(v.value, ast.Name) and v.value.id == "self":
                    if s.targets[0].id == out_var:
                        roles[v.attr] = {"role": "output", "db": db, "norm": norm}
                    elif s.targets[0].id == jac_var:
                        roles[v.attr] = {"role": "jacobian", "db": db, "norm": norm}

    visit(init.body, False, False)
    return roles


# ---------------------------------------------------------------------------
# 1.2 coordinate-space typing of the four memoising methods


def _space_eval(self_tag: str, name_aliases: dict[str, str]):
    """Expression evaluator for K3 inside a ``_compute_*_db*`` method.

    Tags: N, U (points), V (value), JN, JU (Jacobians), K:U / K:N (hashed key of a point in that
    space), name:out / name:grad (function names).
    """

    def ev(e: ast.AST, env) -> frozenset:
        if isinstance(e, ast.Name):
            return env.get(e.id, UNKNOWN)
        if isinstance(e, ast.Attribute):
            d = dotted(e)
            if d == "self.name":
                return frozenset({"name:out"})
            if d == "self._gradient_name":
                return frozenset({"name:grad"})
            if d == "self._database":
                return frozenset({"db"})
            if e.attr in ("real", "data", "T") or e.attr == "imag":
                return ev(e.value, env)
            return UNKNOWN
        if isinstance(e, ast.Call):
            f = e.func
            la = last_attr(e)
            a0 = ev(e.args[0], env) if e.args and not isinstance(e.args[0], ast.Starred) else UNKNOWN
            if la == "_unnormalize_vect":
                return frozenset({"U"}) if a0 == {"N"} else frozenset({"bad:unnormalize_vect(" + "/".join(sorted(a0)) + ")"})
            if la == "_unnormalize_grad":
                return frozenset({"JU"}) if a0 == {"JN"} else frozenset({"bad:unnormalize_grad(" + "/".join(sorted(a0)) + ")"})
            if la == "_normalize_grad":
                return frozenset({"JN"}) if a0 == {"JU"} else frozenset({"bad:normalize_grad(" + "/".join(sorted(a0)) + ")"})
            if la == "_compute_output":
                return frozenset({"V"}) if a0 == {self_tag} else frozenset({"bad:_compute_output(" + "/".join(sorted(a0)) + ")"})
            if la == "_compute_jacobian":
                return frozenset({"J" + self_tag}) if a0 == {self_tag} else frozenset({"bad:_compute_jacobian(" + "/".join(sorted(a0)) + ")"})
            if la == "get_hashable_ndarray":
                return frozenset({"K:" + t for t in a0})
            if la == "get_function_value":
                nm = ev(e.args[0], env) if e.args else UNKNOWN
                if nm == {"name:out"}:
                    return frozenset({"V"})
                if nm == {"name:grad"}:
                    return frozenset({"JU"})
                return UNKNOWN
            if la in ("copy", "astype", "todense", "toarray"):
                if isinstance(f, ast.Attribute):
                    return ev(f.value, env)
            return UNKNOWN
        if isinstance(e, ast.IfExp):
            return ev(e.body, env) | ev(e.orelse, env)
        return UNKNOWN

    return ev


def check_memo_method(ctx: Ctx, mname: str, info: dict) -> None:
    cls = ctx.index.cls(PF, "ProblemFunction")
    func = ctx.index.method(PF, "ProblemFunction", mname)
    con = cname(PF, "ProblemFunction", mname)
    cfg = cfg_of(func)
    in_tag = "N" if info["norm"] else "U"
    params = [a.arg for a in func.args.args if a.arg != "self"]
    ctx.need(len(params) == 1, f"{mname}: expected exactly one data parameter")
    ev = _space_eval(in_tag, {})
    fw = Forward(cfg, ev, init={params[0]: frozenset({in_tag})})
    role = info["role"]
    want_name = "name:out" if role == "output" else "name:grad"
    want_val = "V" if role == "output" else "JU"
    want_ret = "V" if role == "output" else "J" + in_tag

    def tags(e):
        return fw.tags(e)

    def fmt(t):
        return "/".join(sorted(t))

    # -- sinks: keys ------------------------------------------------------
    hashed = rules.calls_named(func, "get_hashable_ndarray")
    ctx.need(hashed, f"{mname}: no get_hashable_ndarray call (key construction not recognised)")
    for c in hashed:
        t = tags(c.args[0]) if c.args else UNKNOWN
        ctx.ob("1.2-key", con, t == {"U"}, f"the database key is built from a point tagged {fmt(t)}; it must be the physical (unnormalised) point", node=c, slots={"arg": fmt(t)})
    lookups = rules.calls_named(func, "get_function_value")
    ctx.need(lookups, f"{mname}: no get_function_value lookup")
    for c in lookups:
        nm = tags(c.args[0]) if c.args else UNKNOWN
        key = tags(c.args[1]) if len(c.args) > 1 else UNKNOWN
        ctx.ob("1.2-lookup-name", con, nm == {want_name}, f"the {role} method looks up {fmt(nm)} instead of {want_name}", node=c)
        ctx.ob("1.2-lookup-key", con, key <= {"K:U", "U"} and bool(key), f"the lookup key is {fmt(key)}; it must be the (hashed) physical point", node=c)
    stores = rules.calls_named(func, "store")
    stores = [c for c in stores if fw.tags(c.func.value) == {"db"}] if stores else stores
    if not stores:
        ctx.ob("1.2-store-value", con, False, f"{mname} never records what it computed in the database: the value is recomputed at each request and the history lacks the point", node=func, stmt="computed value stored")
    for c in stores:
        key = tags(c.args[0]) if c.args else UNKNOWN
        ctx.ob("1.2-store-key", con, key <= {"K:U", "U"} and bool(key), f"the value is stored under a key tagged {fmt(key)}; it must be the (hashed) physical point", node=c)
        d = c.args[1] if len(c.args) > 1 else kwarg(c, "outputs")
        ok_shape = isinstance(d, ast.Dict) and len(d.keys) == 1 and d.keys[0] is not None
        ctx.need(ok_shape, f"{mname}: stored mapping is not a one-entry dict literal")
        nm, val = tags(d.keys[0]), tags(d.values[0])
        ctx.ob("1.2-store-name", con, nm == {want_name}, f"the {role} method stores under {fmt(nm)} instead of {want_name}", node=c)
        ctx.ob("1.2-store-value", con, val == {want_val}, f"the stored value is tagged {fmt(val)}; the database must hold {want_val} ({'the function value' if role == 'output' else 'the physical-space Jacobian'})", node=c, slots={"value": fmt(val)})
    gets = [c for c in rules.calls_named(func, "get") if fw.tags(c.func.value) == {"db"}]
    for c in gets:
        key = tags(c.args[0]) if c.args else UNKNOWN
        ctx.ob("1.2-get-key", con, key <= {"K:U", "U"} and bool(key), f"database.get is asked with a key tagged {fmt(key)}", node=c)
    # -- sinks: compute calls and returns ----------------------------------
    comp_name = "_compute_output" if role == "output" else "_compute_jacobian"
    computes = rules.self_calls(func, comp_name)
    other = rules.self_calls(func, "_compute_jacobian" if role == "output" else "_compute_output")
    ctx.ob("1.2-compute-kind", con, bool(computes) and not other, f"the {role} method must evaluate through self.{comp_name} only", node=(other or computes or [func])[0])
    for c in computes:
        t = tags(c)
        ctx.ob("1.2-compute-arg", con, not any(x.startswith("bad:") for x in t), f"self.{comp_name} receives a point in the wrong space ({fmt(t)}); the wrapped sequence expects the caller's coordinates ({in_tag})", node=c)
    rets = [s for s in stmts_of(func) if isinstance(s, ast.Return)]
    ctx.need(rets, f"{mname}: no return")
    for r in rets:
        t = tags(r.value) if r.value is not None else frozenset({"None"})
        ctx.ob("1.2-return", con, t == {want_ret}, f"the method returns a value tagged {fmt(t)}; the caller expects {want_ret}", node=r, slots={"returned": fmt(t)})
    # all conversions well-typed
    for c in rules.method_calls(func, lambda c: last_attr(c) in ("_unnormalize_vect", "_unnormalize_grad", "_normalize_grad")):
        t = tags(c)
        ctx.ob("1.2-conversion", con, not any(x.startswith("bad:") for x in t), f"conversion applied to a value of the wrong space: {fmt(t)}", node=c)

    # -- 1.3 lookup dominates compute ---------------------------------------
    # the lookup variable(s)
    look_vars = set()
    for s in stmts_of(func):
        if isinstance(s, ast.Assign) and isinstance(s.value, ast.Call) and last_attr(s.value) == "get_function_value":
            for t in s.targets:
                if isinstance(t, ast.Name):
                    look_vars.add(t.id)
    none_tests = []
    for n in cfg.nodes(lambda n: cfg.kind[n] == "test"):
        test = cfg.ast[n].test
        cp = compare_parts(test)
        if cp and isinstance(cp[0], ast.Constant) and isinstance(cp[2], ast.Name):
            cp = (cp[2], cp[1], cp[0])  # ``None is x``
        if cp and isinstance(cp[0], ast.Name) and cp[0].id in look_vars and const_value(cp[2], 0) is None and isinstance(cp[2], ast.Constant):
            if cp[1] is ast.Is:
                none_tests.append((n, True))
            elif cp[1] is ast.IsNot:
                none_tests.append((n, False))
    for c in computes:
        cn = cfg.node_of(c)
        ok = any(cfg.under_branch(cn, t, v) for t, v in none_tests)
        ctx.ob("1.3-memo", con, ok, "the original function is evaluated without first finding the database entry missing: a recorded point would be recomputed (and recounted)", node=c)
    # the hit path must not reach a compute call: implied by dominance above, but the test must
    # compare the value looked up with the same key that is stored
    for c in lookups:
        for st in stores:
            ctx.ob("1.3-same-key", con, same(c.args[1] if len(c.args) > 1 else None, st.args[0] if st.args else None), "lookup and store use different key expressions", node=st)

    # -- 1.4 store after compute ---------------------------------------------
    store_nodes = {cfg.node_of(c) for c in stores}
    for c in computes:
        cn = cfg.node_of(c)
        if role == "output":
            esc = cfg.escape_path(cn, store_nodes)
            ctx.ob("1.4-store", con, esc is None, "a computed value can reach the return without being stored in the database: " + cfg.describe_path(esc), node=c)
        else:
            # allowed escape: the False branch of ``if self.__store_jacobian``
            flag_false = set()
            for n in cfg.nodes(lambda n: cfg.kind[n] == "test"):
                t = cfg.ast[n].test
                if isinstance(t, ast.Attribute) and t.attr in ("__store_jacobian", "_ProblemFunction__store_jacobian") and dotted(t.value) == "self":
                    b = cfg.branch.get((n, False))
                    if b is not None:
                        flag_false.add(b)
            esc = cfg.escape_path(cn, store_nodes | flag_false)
            ctx.ob("1.4-store", con, esc is None, "a computed Jacobian can reach the return without being stored although Jacobian storage is enabled: " + cfg.describe_path(esc), node=c)
            # and the store must not sit under any other condition than the flag
            for st in stores:
                sn = cfg.node_of(st)
                conds = [t for (t, v), b in cfg.branch.items() if cfg.dominates(b, sn) and not cfg.dominates(b, cn)]
                bad = [t for t in conds if not (isinstance(cfg.ast[t].test, ast.Attribute) and cfg.ast[t].test.attr.endswith("__store_jacobian"))]
                ctx.ob("1.4-store-cond", con, not bad, "the Jacobian store is guarded by a condition other than the store_jacobian flag", node=st)


# ---------------------------------------------------------------------------
# 1.1 evaluation sequences


def check_sequences(ctx: Ctx) -> None:
    func = ctx.index.method(EP, "EvaluationProblem", "_preprocess_function")
    con = cname(EP, "EvaluationProblem", "_preprocess_function")
    # design-space aliases
    ds_names = {"self.design_space"}
    for s in func.body:
        if isinstance(s, ast.Assign) and dotted(s.value) == "self.design_space":
            ds_names |= {t.id for t in s.targets if isinstance(t, ast.Name)}
    # the chain
    chain = [s for s in func.body if isinstance(s, ast.If) and any(isinstance(x, ast.Assign) and any(isinstance(t, ast.Name) and t.id in ("func_seq", "jac_seq") for t in x.targets) for x in ast.walk(s))]
    ctx.need(len(chain) == 1, "_preprocess_function: the if/elif chain building func_seq/jac_seq was not found")
    branches = []
    cur = chain[0]
    while True:
        branches.append((cur.test, cur.body))
        if len(cur.orelse) == 1 and isinstance(cur.orelse[0], ast.If):
            cur = cur.orelse[0]
        else:
            branches.append((None, cur.orelse))
            break
    ctx.need(all(b for _, b in branches), "a branch of the sequence chain is empty")

    def conj(test):
        if test is None:
            return []
        return test.values if isinstance(test, ast.BoolOp) and isinstance(test.op, ast.And) else [test]

    for bi, (test, body) in enumerate(branches):
        label = "else" if test is None else "if " + norm_stmt(test, 70)
        seqs = {}
        expects = None
        normalized_function = False
        for s in body:
            if isinstance(s, ast.Assign) and len(s.targets) == 1 and isinstance(s.targets[0], ast.Name):
                tn = s.targets[0].id
                if tn in ("func_seq", "jac_seq"):
                    ctx.need(isinstance(s.value, ast.Tuple), f"{tn} is not a tuple literal in branch {label}")
                    seqs[tn] = s
                elif tn == "expects_normalized_inputs":
                    expects = s.value
                elif tn == "function" and isinstance(s.value, ast.Call) and last_attr(s.value) == "normalize":
                    arg = s.value.args[0] if s.value.args else None
                    ctx.need(arg is not None and dotted(arg) in ds_names, "function.normalize is not given the problem's design space")
                    normalized_function = True
        ctx.need(set(seqs) == {"func_seq", "jac_seq"} and expects is not None, f"branch {label}: func_seq/jac_seq/expects_normalized_inputs not all assigned")
        if isinstance(expects, ast.Constant):
            start = "N" if expects.value is True else "X"
        elif dotted(expects) == "function.expects_normalized_inputs":
            start = "X"  # whatever coordinates the function itself expects
        else:
            raise AnalysisError(f"branch {label}: unrecognised expects_normalized_inputs value {norm_stmt(expects)}")
        f_in = "N" if normalized_function else ("U" if start == "N" else "X")  # what function.func expects
        # polarity demanded by the branch test
        positives = {dotted(c) for c in conj(test)}
        negatives = {dotted(c.operand) for c in conj(test) if isinstance(c, ast.UnaryOp) and isinstance(c.op, ast.Not)}
        if "is_function_input_normalized" in positives:
            ctx.ob("1.1-expects", con, start == "N", f"branch {label} handles normalised inputs but declares expects_normalized_inputs={norm_stmt(expects)}", node=seqs["func_seq"], stmt=f"{label}: expects_normalized_inputs")
        for tn, s in seqs.items():
            cur_tag = start
            problems = []
            names = []
            for el in s.value.elts:
                if isinstance(el, ast.Starred):
                    names.append("*" + norm_stmt(el.value))
                    if not cur_tag.startswith("J"):
                        problems.append(f"*{norm_stmt(el.value)} (Jacobian densification) applied to a non-Jacobian {cur_tag}")
                    continue
                d = dotted(el) or norm_stmt(el)
                names.append(d)
                base, _, meth = d.rpartition(".")
                if base in ds_names and meth == "unnormalize_vect":
                    if cur_tag != "N":
                        problems.append(f"unnormalize_vect applied to {cur_tag}")
                    cur_tag = "U"
                elif base in ds_names and meth == "normalize_vect":
                    if cur_tag != "U":
                        problems.append(f"normalize_vect applied to {cur_tag}")
                    cur_tag = "N"
                elif base in ds_names and meth == "round_vect":
                    if cur_tag not in ("U", "X"):
                        problems.append(f"round_vect applied to {cur_tag} (integers are rounded in physical space)")
                elif base in ds_names and meth == "normalize_grad":
                    if cur_tag != "J[U]":
                        problems.append(f"normalize_grad applied to {cur_tag}")
                    cur_tag = "J[N]"
                elif base in ds_names and meth == "unnormalize_grad":
                    if cur_tag != "J[N]":
                        problems.append(f"unnormalize_grad applied to {cur_tag}")
                    cur_tag = "J[U]"
                elif d == "function.func":
                    if cur_tag != f_in:
                        problems.append(f"function.func receives {cur_tag}, expects {f_in}")
                    cur_tag = "V"
                elif d == "function.jac":
                    if cur_tag != f_in:
                        problems.append(f"function.jac receives {cur_tag}, expects {f_in}")
                    cur_tag = f"J[{f_in}]"
                else:
                    raise AnalysisError(f"branch {label}: unknown element {d} in {tn} (no signature in the K3 table)")
            want = "V" if tn == "func_seq" else f"J[{start}]"
            if cur_tag != want:
                problems.append(f"the sequence yields {cur_tag}, the caller expects {want}")
            ctx.ob("1.1-seq", con, not problems, f"{tn} of branch {label} does not compose to {start}->{want}: " + "; ".join(problems), node=s, stmt=f"{label}: {tn} = ({', '.join(names)})", slots={"start": start, "result": cur_tag})
            if "round_ints" in positives:
                has_round = any(n.endswith(".round_vect") for n in names)
                ctx.ob("1.1-round", con, has_round, f"branch {label} must round integer components but {tn} has no round_vect", node=s, stmt=f"{label}: {tn} rounds")
            if "round_ints" in negatives:
                has_round = any(n.endswith(".round_vect") for n in names)
                ctx.ob("1.1-round", con, not has_round, f"branch {label} must not round but {tn} has round_vect", node=s, stmt=f"{label}: {tn} does not round")
    # every configuration selects a branch: the selected sequences round iff rounding is requested and take normalised
    # inputs iff the caller's inputs are normalised (the tests are boolean formulas over a few options: all their
    # truth assignments are enumerated)
    import itertools

    def atoms_of(t, acc):
        if t is None:
            return
        if isinstance(t, ast.BoolOp):
            for v in t.values:
                atoms_of(v, acc)
        elif isinstance(t, ast.UnaryOp) and isinstance(t.op, ast.Not):
            atoms_of(t.operand, acc)
        else:
            acc.add(norm_stmt(t))

    def holds(t, env):
        if t is None:
            return True
        if isinstance(t, ast.BoolOp):
            vals = [holds(v, env) for v in t.values]
            return all(vals) if isinstance(t.op, ast.And) else any(vals)
        if isinstance(t, ast.UnaryOp) and isinstance(t.op, ast.Not):
            return not holds(t.operand, env)
        return env[norm_stmt(t)]

    atoms = set()
    for test, _ in branches:
        atoms_of(test, atoms)
    atoms = sorted(atoms)
    ctx.need({"round_ints", "is_function_input_normalized"} <= set(atoms) and len(atoms) <= 5, f"the options tested by the sequence chain are not the expected ones: {atoms}")
    summaries = []
    for test, body in branches:
        seq_names = {}
        for s_ in body:
            if isinstance(s_, ast.Assign) and isinstance(s_.targets[0], ast.Name) and s_.targets[0].id in ("func_seq", "jac_seq") and isinstance(s_.value, ast.Tuple):
                seq_names[s_.targets[0].id] = ([dotted(e_.value if isinstance(e_, ast.Starred) else e_) or "" for e_ in s_.value.elts], s_)
        summaries.append(seq_names)
    for combo in itertools.product((True, False), repeat=len(atoms)):
        env = dict(zip(atoms, combo))
        k = next(i for i, (test, _) in enumerate(branches) if holds(test, env))
        cfg_label = ", ".join(f"{a if len(a) < 40 else 'linear function'}={v}" for a, v in env.items())
        for tn, (names_, s_) in summaries[k].items():
            has_round = any(n_.endswith(".round_vect") for n_ in names_)
            ctx.ob("1.1-round", con, has_round == env["round_ints"], f"with {cfg_label} the selected {tn} {'does not round' if not has_round else 'rounds'} the integer components: the function is then evaluated at a point that is not the (rounded) point under which the value is recorded", node=s_, stmt=f"[{cfg_label}] {tn} rounds iff round_ints")
    # constructor wiring
    ctor = [c for c in rules.method_calls(func, lambda c: call_name(c) == "ProblemFunction")]
    ctx.need(len(ctor) == 1, "_preprocess_function: ProblemFunction(...) call not found")
    c = ctor[0]
    got = [norm_stmt(a) for a in c.args[:4]]
    ctx.ob("1.1-wiring", con, got[1:4] == ["func_seq", "jac_seq", "expects_normalized_inputs"], f"ProblemFunction receives {got[1:4]} as (output sequence, jacobian sequence, with_normalized_inputs)", node=c, stmt="ProblemFunction(function, func_seq, jac_seq, expects_normalized_inputs, ...)")
    db_arg = c.args[4] if len(c.args) > 4 else kwarg(c, "database")
    ok = isinstance(db_arg, ast.IfExp) and dotted(db_arg.test) == "use_database" and dotted(db_arg.body) == "self.database" and const_value(db_arg.orelse, 0) is None
    ctx.ob("1.1-wiring", con, ok, "the database handed to ProblemFunction is not `self.database if use_database else None`", node=c, stmt="ProblemFunction(..., database)")
    ds_arg = c.args[7] if len(c.args) > 7 else kwarg(c, "design_space")
    ctx.ob("1.1-wiring", con, ds_arg is not None and dotted(ds_arg) in ds_names, "ProblemFunction is not given the problem's design space", node=c, stmt="ProblemFunction(..., design_space)")


# ---------------------------------------------------------------------------


def check_init_bindings(ctx: Ctx) -> None:
    """The converters bound in ``__init__`` are the design-space methods of matching name."""
    init = ctx.index.method(PF, "ProblemFunction", "__init__")
    con = cname(PF, "ProblemFunction", "__init__")
    want = {"_unnormalize_vect": "unnormalize_vect", "_normalize_grad": "normalize_grad", "_unnormalize_grad": "unnormalize_grad"}
    for attr, meth in want.items():
        ss = rules.assigns_to_self(init, attr)
        ctx.need(ss, f"ProblemFunction.__init__ does not bind {attr}")
        for s in ss:
            v = s.value
            ok = isinstance(v, ast.Attribute) and v.attr == meth and dotted(v.value) == "design_space"
            ctx.ob("1.2-binding", con, ok, f"self.{attr} is bound to {norm_stmt(v)} instead of design_space.{meth}", node=s)
    ss = rules.assigns_to_self(init, "_gradient_name")
    ctx.need(ss, "ProblemFunction.__init__ does not bind _gradient_name")
    for s in ss:
        v = s.value
        ok = isinstance(v, ast.Call) and last_attr(v) == "get_gradient_name" and v.args and dotted(v.args[0]) == "function.name"
        ctx.ob("1.2-binding", con, ok, "the gradient name is not Database.get_gradient_name(function.name)", node=s)
    ss = rules.assigns_to_self(init, "_database")
    for s in ss:
        ctx.ob("1.2-binding", con, dotted(s.value) == "database", "self._database is not the database argument", node=s)


def check_grad_scaling(ctx: Ctx) -> None:
    ds = ctx.index.cls(DS, "DesignSpace")
    for m, callee in (("normalize_grad", "unnormalize_vect"), ("unnormalize_grad", "normalize_vect")):
        f = ctx.index.method(DS, "DesignSpace", m)
        con = cname(DS, "DesignSpace", m)
        rets = [s for s in stmts_of(f) if isinstance(s, ast.Return)]
        ok = False
        node = rets[0] if rets else f
        for r in rets:
            v = r.value
            if isinstance(v, ast.Name):
                ds_ = [s_.value for s_ in stmts_of(f) if isinstance(s_, ast.Assign) and any(dotted(t_) == v.id for t_ in s_.targets)]
                v = ds_[0] if len(ds_) == 1 else v
            if isinstance(v, ast.Call) and isinstance(v.func, ast.Attribute) and v.func.attr == callee and dotted(v.func.value) == "self":
                mlb = arg_or_kw(v, 1, "minus_lb")
                first = v.args[0] if v.args else None
                p0 = f.args.args[1].arg
                ok = isinstance(mlb, ast.Constant) and mlb.value is False and isinstance(first, ast.Name) and first.id == p0
                node = r
        ctx.ob("1.5-linear-part", con, ok and len(rets) == 1, f"{m} must return self.{callee}(<gradient>, minus_lb=False): the gradient map is the linear part of the inverse point map", node=node)
    rules.rule_forwarding(ctx, "1.5-forwarding", ds, ["normalize_vect", "unnormalize_vect"], "gradient scaling goes through (un)normalize_vect(minus_lb=False)")


def check_keys(ctx: Ctx) -> None:
    store = ctx.index.method(DB, "Database", "store")
    con = cname(DB, "Database", "store")
    hs = rules.calls_named(store, "get_hashable_ndarray")
    ctx.need(hs, "Database.store: key conversion not found")
    for c in hs:
        cp = arg_or_kw(c, 1, "copy")
        ctx.ob("1.6-key-copy", con, isinstance(cp, ast.Constant) and cp.value is True, "Database.store must copy the key array (copy=True): otherwise a later in-place edit of the caller's point changes a recorded key", node=c)
    # the data mapping is written with the converted key
    ghn = ctx.index.method(DB, "Database", "get_hashable_ndarray")
    con2 = cname(DB, "Database", "get_hashable_ndarray")
    ctor = [c for c in rules.method_calls(ghn, lambda c: call_name(c) == "HashableNdarray")]
    ctx.need(ctor, "get_hashable_ndarray does not construct HashableNdarray")
    pnames = [a.arg for a in ghn.args.args]
    for c in ctor:
        cp = arg_or_kw(c, 1, "copy")
        ctx.ob("1.6-key-copy", con2, isinstance(cp, ast.Name) and cp.id in pnames, "get_hashable_ndarray must forward its copy argument to HashableNdarray", node=c)
    copies = rules.calls_named(ghn, "copy_wrapped_array")
    ctx.ob("1.6-key-copy", con2, bool(copies), "an existing HashableNdarray must be made a copy when copy is requested (copy_wrapped_array)", node=ghn, stmt="copy_wrapped_array on existing wrapper")
    # HashableNdarray
    init = ctx.index.method(HN, "HashableNdarray", "__init__")
    con3 = cname(HN, "HashableNdarray", "__init__")
    arr = rules.assigns_to_self(init, "__array", "HashableNdarray")
    ctx.need(arr, "HashableNdarray.__init__ does not bind __array")
    for s in arr:
        v = s.value
        ok = isinstance(v, ast.IfExp) and dotted(v.test) == "copy" and isinstance(v.body, ast.Call) and last_attr(v.body) in ("np_array", "array", "copy") and dotted(v.orelse) == "array"
        if isinstance(v, ast.Call) and last_attr(v) in ("np_array", "array", "copy"):
            ok = True  # always copying is stronger
        if not ok:
            # the same through a conditional re-assignment: what is stored when copy is requested / is not
            on = unfolded(init, s, {"copy": True}, get=lambda st: st.value)
            off = unfolded(init, s, {"copy": False}, get=lambda st: st.value)
            ok = bool(on) and all(isinstance(a_, ast.Call) and last_attr(a_) in ("np_array", "array", "copy") and "array" in names_in(a_) for a_ in on) and bool(off) and all("array" in names_in(a_) for a_ in off)
        ctx.ob("1.6-wrap-copy", con3, ok, "the wrapped array must be a fresh copy when copy=True", node=s)
    hs = rules.assigns_to_self(init, "__hash", "HashableNdarray")
    ctx.need(hs, "HashableNdarray.__init__ does not bind __hash")
    for s in hs:
        ok = "array" in names_in(s.value) and any(last_attr(c) and "xxh" in last_attr(c) or last_attr(c) == "hash" for c in ast.walk(s.value) if isinstance(c, ast.Call))
        ctx.ob("1.6-hash-content", con3, ok, "the hash must be computed from the array content", node=s)
    eq = ctx.index.method(HN, "HashableNdarray", "__eq__")
    con4 = cname(HN, "HashableNdarray", "__eq__")
    rets = [s for s in stmts_of(eq) if isinstance(s, ast.Return)]
    content = [r for r in rets if r.value is not None and any(isinstance(c, ast.Call) and last_attr(c) in ("array_equal", "array_equiv") for c in ast.walk(r.value))]
    true_rets = [r for r in rets if isinstance(r.value, ast.Constant) and r.value.value is True]
    ctx.ob("1.6-eq-content", con4, bool(content) and not true_rets, "equality of keys must be decided by array content (array_equal), never by the hash alone", node=(true_rets or rets or [eq])[0])
    hsh = ctx.index.method(HN, "HashableNdarray", "__hash__")
    rets = [s for s in stmts_of(hsh) if isinstance(s, ast.Return)]
    ok = len(rets) == 1 and isinstance(rets[0].value, ast.Attribute) and rets[0].value.attr in ("__hash", "_HashableNdarray__hash")
    ctx.ob("1.6-hash-content", cname(HN, "HashableNdarray", "__hash__"), ok, "__hash__ must return the content digest computed at construction", node=rets[0] if rets else hsh)


def check_linear_normalize(ctx: Ctx) -> None:
    f = ctx.index.method(LF, "MDOLinearFunction", "normalize")
    con = cname(LF, "MDOLinearFunction", "normalize")
    # the normalised twin is built from a copy: scaling the user's own coefficients in place changes the original function
    from gv.purity import impure_writes

    res, sites = impure_writes(f, params={"self"}, track_state=True)
    for node_, p_, what in res:
        ctx.ob("1.8-original-untouched", con, False, f"normalize: {what}: building the normalised function changes the coefficients of the user's function, whose value at the physical point is what must be returned and recorded", node=node_, stmt=f"{norm_stmt(node_, 70)} [{p_}]")
    if not res:
        ctx.ob("1.8-original-untouched", con, sites > 0, "no in-place write reaches the original coefficients", node=f, stmt=f"{sites} in-place site(s) examined")
    space = f.args.args[1].arg
    wheres = {}
    for s in stmts_of(f):
        if isinstance(s, ast.Assign) and isinstance(s.value, ast.Call) and last_attr(s.value) == "where" and len(s.value.args) == 3:
            for t in s.targets:
                if isinstance(t, ast.Name):
                    wheres[t.id] = s
    ctx.need(len(wheres) == 2, "MDOLinearFunction.normalize: the two where(...) selections (factor, shift) were not found")

    def is_bound(e, which):
        return isinstance(e, ast.Call) and last_attr(e) == which and dotted(e.func.value) == space

    factor_var = shift_var = None
    for name, s in wheres.items():
        a = s.value.args
        if isinstance(a[1], ast.BinOp):
            factor_var = name
            ok = isinstance(a[1].op, ast.Sub) and is_bound(a[1].left, "get_upper_bounds") and is_bound(a[1].right, "get_lower_bounds") and const_value(a[2]) in (1, 1.0)
            ctx.ob("1.8-factor", con, ok, "the scaling factor of a normalised component must be ub - lb (1 elsewhere)", node=s)
        else:
            shift_var = name
            ok = is_bound(a[1], "get_lower_bounds") and const_value(a[2], 1) in (0, 0.0)
            ctx.ob("1.8-shift", con, ok, "the shift of a normalised component must be the lower bound (0 elsewhere)", node=s)
    ctx.need(factor_var and shift_var, "MDOLinearFunction.normalize: factor/shift not identified")
    masks = [norm_stmt(s.value.args[0]) for s in wheres.values()]
    ctx.ob("1.8-mask", con, masks[0] == masks[1], "factor and shift must be selected with the same normalisation-policy mask", node=wheres[shift_var], stmt="same mask in both where()")
    # the mask is the design space's policy
    mask_defs = [s for s in stmts_of(f) if isinstance(s, ast.Assign) and any(isinstance(t, ast.Name) and t.id == masks[0] for t in s.targets)]
    ok = bool(mask_defs) and all(isinstance(s.value, ast.Call) and last_attr(s.value) == "convert_dict_to_array" and s.value.args and dotted(s.value.args[0]) == f"{space}.normalize" for s in mask_defs)
    ctx.ob("1.8-mask", con, ok, "the mask must be input_space.convert_dict_to_array(input_space.normalize)", node=mask_defs[0] if mask_defs else f, stmt="mask = policy array")
    # coefficients multiplied by the factor
    mults = []
    for n in walk_body(f):
        if isinstance(n, ast.Call) and last_attr(n) == "multiply" and factor_var in names_in(n):
            mults.append(("mul", n))
        elif isinstance(n, ast.AugAssign) and factor_var in names_in(n.value):
            mults.append(("mul" if isinstance(n.op, ast.Mult) else "other", n))
        elif isinstance(n, ast.BinOp) and factor_var in names_in(n) and not isinstance(n.op, ast.Sub):
            if isinstance(n.left, ast.Name) and n.left.id == factor_var or isinstance(n.right, ast.Name) and n.right.id == factor_var:
                mults.append(("mul" if isinstance(n.op, ast.Mult) else "other", n))
    ctx.need(mults, "MDOLinearFunction.normalize: the coefficient scaling was not found")
    for kind, n in mults:
        ctx.ob("1.8-coeff", con, kind == "mul", "the coefficients must be multiplied by the factor", node=n)
    # value at zero = self.evaluate(shift)
    v0 = [s for s in stmts_of(f) if isinstance(s, ast.Assign) and isinstance(s.value, ast.Call) and last_attr(s.value) in ("evaluate", "func") and dotted(s.value.func.value) == "self"]
    ok = bool(v0) and all(s.value.args and isinstance(s.value.args[0], ast.Name) and s.value.args[0].id == shift_var for s in v0)
    ctx.ob("1.8-constant", con, ok, "the constant term of the normalised function must be the original function evaluated at the shift", node=v0[0] if v0 else f, stmt="value_at_zero = self.evaluate(shift)")
    flag = [s for s in stmts_of(f) if isinstance(s, ast.Assign) and any(isinstance(t, ast.Attribute) and t.attr == "expects_normalized_inputs" for t in s.targets)]
    ok = bool(flag) and all(isinstance(s.value, ast.Constant) and s.value.value is True for s in flag)
    ctx.ob("1.8-flag", con, ok, "the normalised linear function must declare expects_normalized_inputs = True", node=flag[0] if flag else f, stmt="expects_normalized_inputs = True")


def check_equal_bounds(ctx: Ctx) -> None:
    """1.6: a component with equal bounds is inert: the affine maps of DesignSpace (C02 rule 2.7) are part of this property."""
    from gv.props import c02
    from gv.props.c12 import _Prefixed

    ds = ctx.index.cls(DS, "DesignSpace")
    view = c02.View(ctx, ds)
    c02.check_affine_ops(_Prefixed(ctx, "1.6-inert/"), view)
    # the (un)normalisation the evaluation sequences go through uses cached bounds/factors: an edit of the bounds that
    # does not invalidate them makes every later evaluation happen at the physical point of the OLD bounds (C02 2.2/2.3)
    c02.check_protocols(_Prefixed(ctx, "1.9-current-bounds/"), view)
    c02.check_norm_cache(_Prefixed(ctx, "1.9-current-bounds/"), view)


def run(ctx: Ctx) -> None:
    check_equal_bounds(ctx)
    roles = compute_roles(ctx)
    memo = {m: r for m, r in roles.items() if r["db"]}
    ctx.need(len(memo) == 4, f"expected four memoising compute methods, found {sorted(memo)}")
    kinds = {(r["role"], r["norm"]) for r in memo.values()}
    ctx.need(len(kinds) == 4, "the four memoising methods do not cover output/jacobian x normalised/physical")
    check_sequences(ctx)
    check_init_bindings(ctx)
    for m, r in sorted(memo.items()):
        check_memo_method(ctx, m, r)
    check_grad_scaling(ctx)
    check_keys(ctx)
    db = ctx.index.cls(DB, "Database")
    rules.rule_private_attr_writers(
        ctx, "1.7-owner", db, "__data",
        {"__init__", "store", "clear", "__delitem__", "clear_from_iteration", "remove_empty_entries"},
        "only Database's own editing methods may modify the point -> values mapping",
    )
    check_linear_normalize(ctx)
    # what is recorded under a point is that point's own array: the wrapped functions must not hand out a reusable buffer
    from gv.props.shared import check_fresh_results

    check_fresh_results(ctx, "1.10-fresh-result")
    ctx.floor("1.1-seq", 10)
    ctx.floor("1.2-store-value", 4)
    ctx.floor("1.2-return", 4)
    ctx.floor("1.3-memo", 4)
    ctx.floor("1.4-store", 4)
    ctx.floor("1.5-linear-part", 2)
    ctx.floor("1.5-forwarding", 2)


# ---------------------------------------------------------------------------
# seeded faults (applied in memory by the thorough tier) and refactoring twins

_EP = "algos/evaluation_problem.py"
WITNESSES = [
    {"name": "zero-range-replaced-in-both-directions", "file": DS, "old": "        self._norm_factor = self.__upper_bounds_array - self.__lower_bounds_array\n", "new": "        self._norm_factor = self.__upper_bounds_array - self.__lower_bounds_array\n        self._norm_factor = where(self._norm_factor == 0.0, 1.0, self._norm_factor)\n", "expect": "1.6"},
    {"name": "drop-normalize_grad", "file": _EP, "old": "jac_seq = (ds.unnormalize_vect, function.jac, *args, ds.normalize_grad)", "new": "jac_seq = (ds.unnormalize_vect, function.jac, *args)", "expect": "1.1"},
    {"name": "swap-unnormalize-round", "file": _EP, "old": "func_seq = (ds.unnormalize_vect, ds.round_vect, function.func)", "new": "func_seq = (ds.round_vect, ds.unnormalize_vect, function.func)", "expect": "1.1"},
    {"name": "expects-false-in-normalising-branch", "file": _EP, "old": "        elif is_function_input_normalized:\n            expects_normalized_inputs = True", "new": "        elif is_function_input_normalized:\n            expects_normalized_inputs = False", "expect": "1.1"},
    {"name": "no-round-in-round-branch", "file": _EP, "old": "func_seq = (ds.round_vect, function.func)", "new": "func_seq = (function.func,)", "expect": "1.1"},
    {"name": "swap-seq-wiring", "file": _EP, "old": "            function,\n            func_seq,\n            jac_seq,\n", "new": "            function,\n            jac_seq,\n            func_seq,\n", "expect": "1.1"},
    {"name": "hash-normalised-point", "file": PF, "old": "        hashed_xu = database.get_hashable_ndarray(xu_vect)\n        output_value =", "new": "        hashed_xu = database.get_hashable_ndarray(xn_vect)\n        output_value =", "expect": "1.2"},
    {"name": "store-normalised-jacobian", "file": PF, "old": "database.store(hashed_xu, {self._gradient_name: jac_u})", "new": "database.store(hashed_xu, {self._gradient_name: jac_n})", "expect": "1.2"},
    {"name": "return-physical-jacobian", "file": PF, "old": "        return jac_n.real", "new": "        return jac_u.real", "expect": "1.2"},
    {"name": "no-normalize-on-hit", "file": PF, "old": "            jac_n = self._normalize_grad(jac_u)", "new": "            jac_n = jac_u", "expect": "1.2"},
    {"name": "jacobian-under-output-name", "file": PF, "old": "        name = self._gradient_name\n        self.check_function_output_includes_nan(input_value)", "new": "        name = self.name\n        self.check_function_output_includes_nan(input_value)", "expect": "1.2"},
    {"name": "compute-with-physical-point-in-norm-variant", "file": PF, "old": "output_value = self._compute_output(xn_vect)", "new": "output_value = self._compute_output(xu_vect)", "expect": "1.2"},
    {"name": "delete-is-none-test", "file": PF, "old": "        output_value = database.get_function_value(name, hashed_xu)\n        if output_value is None:", "new": "        output_value = database.get_function_value(name, hashed_xu)\n        if True:", "expect": "1.3"},
    {"name": "delete-store", "file": PF, "old": "            database.store(hashed_xu, {name: output_value})\n", "new": "            pass\n", "expect": "1."},
    {"name": "store-jacobian-unconditionally-skipped", "file": PF, "old": "            if self.__store_jacobian:\n                database.store(hashed_xu, {name: jacobian})", "new": "            if self.__store_jacobian and self.stop_if_nan:\n                database.store(hashed_xu, {name: jacobian})", "expect": "1.4"},
    {"name": "key-not-copied", "file": DB, "old": "self.get_hashable_ndarray(x_vect, True)", "new": "self.get_hashable_ndarray(x_vect, False)", "expect": "1.6"},
    {"name": "wrapper-never-copies", "file": HN, "old": "self.__array = np_array(array) if copy else array", "new": "self.__array = array", "expect": "1.6"},
    {"name": "hash-only-equality", "file": HN, "old": "        return array_equal(self.__array, other.__array)", "new": "        return True", "expect": "1.6"},
    {"name": "minus_lb-default-in-normalize_grad", "file": DS, "old": "return self.unnormalize_vect(g_vect, minus_lb=False, no_check=True)", "new": "return self.unnormalize_vect(g_vect, no_check=True)", "expect": "1.5"},
    {"name": "unnormalize_grad-uses-unnormalize", "file": DS, "old": "        return self.normalize_vect(g_vect, minus_lb=False)", "new": "        return self.unnormalize_vect(g_vect, minus_lb=False)", "expect": "1.5"},
    {"name": "parameter-space-drops-minus_lb", "file": "algos/parameter_space.py", "old": "return super().normalize_vect(x_vect, minus_lb=minus_lb, out=out)", "new": "return super().normalize_vect(x_vect, out=out)", "expect": "1.5"},
    {"name": "foreign-writer-of-data", "file": DB, "old": "    def add_store_listener(self, function: ListenerType) -> bool:", "new": "    def forget(self, x) -> None:\n        self.__data.pop(x, None)\n\n    def add_store_listener(self, function: ListenerType) -> bool:", "expect": "1.7"},
    {"name": "linear-factor-reversed", "file": LF, "old": "input_space.get_upper_bounds() - input_space.get_lower_bounds(),", "new": "input_space.get_lower_bounds() - input_space.get_upper_bounds(),", "expect": "1.8"},
    {"name": "linear-shift-upper", "file": LF, "old": "shift = where(norm_policies, input_space.get_lower_bounds(), 0.0)", "new": "shift = where(norm_policies, input_space.get_upper_bounds(), 0.0)", "expect": "1.8"},
    {"name": "linear-coefficients-divided", "file": LF, "old": "coefficients = multiply(self.coefficients, norm_factors)", "new": "coefficients = self.coefficients / norm_factors", "expect": "1.8"},
    {"name": "linear-constant-at-zero", "file": LF, "old": "value_at_zero = self.evaluate(shift)", "new": "value_at_zero = self.evaluate(0 * shift)", "expect": "1.8"},
]
TWINS = [
    {"name": "rename-local-hashed_xu", "file": PF, "old": "hashed_xu", "new": "key_u", "count": 0},
    {"name": "mirror-is-none", "file": PF, "old": "        if jac_u is None:", "new": "        if None is jac_u:"},
    {"name": "alias-name-local", "file": PF, "old": "        output_value = database.get_function_value(self.name, hashed_xu)", "new": "        fname = self.name\n        output_value = database.get_function_value(fname, hashed_xu)"},
    {"name": "ds-alias-removed", "file": _EP, "old": "func_seq = (ds.unnormalize_vect, function.func)", "new": "func_seq = (self.design_space.unnormalize_vect, function.func)"},
    {"name": "copy-kwarg", "file": DB, "old": "self.get_hashable_ndarray(x_vect, True)", "new": "self.get_hashable_ndarray(x_vect, copy=True)"},
]
