"""C01 -- evaluations are faithful, memoised and recorded in physical space."""

from __future__ import annotations

import ast

from gv import rules
from gv.astutil import AnalysisError
from gv.astutil import arg_or_kw
from gv.astutil import call_name
from gv.astutil import compare_parts
from gv.astutil import const_value
from gv.astutil import dotted
from gv.astutil import kwarg
from gv.astutil import last_attr
from gv.astutil import names_in
from gv.astutil import norm_stmt
from gv.astutil import same
from gv.astutil import stmts_of
from gv.astutil import walk_body
from gv.cfg import cfg_of
from gv.dataflow import UNKNOWN
from gv.dataflow import Forward
from gv.props.shared import conj_literals
from gv.props.shared import unfolded
from gv.props import describe
from gv.dataflow import SymValues
from gv.report import Ctx
from gv.report import cname

PF = "algos/problem_function.py"
EP = "algos/evaluation_problem.py"
DB = "algos/database.py"
DS = "algos/design_space.py"
HN = "algos/hashable_ndarray.py"
LF = "core/mdo_functions/mdo_linear_function.py"

describe(
    "C01",
    explanation=(
        "Static decision of the structural clauses of C01: the five evaluation sequences of "
        "EvaluationProblem._preprocess_function compose to maps of the declared coordinate space "
        "(coordinate-space typing N/U/V/J[N]/J[U]); the four memoising methods of ProblemFunction key the "
        "database by the physical point, look up before computing (dominance), store after computing "
        "(must-pass-through), store the physical Jacobian and return the caller-space Jacobian; gradient "
        "(un)normalisation is the linear part of the point map and every DesignSpace subclass forwards "
        "minus_lb; keys are copied, compared by content; only Database methods write the mapping; "
        "MDOLinearFunction.normalize uses one mask, ub-lb, lb."
    ),
    decided=["1.1 sequence composition", "1.2 database key/value spaces", "1.3 lookup dominates compute", "1.4 store post-dominates compute", "1.5 gradient scaling delegation and forwarding", "1.6 key copy/equality", "1.7 who writes Database.__data", "1.8 linear-function normalisation slots", "1.1 rounding per configuration of the options", "1.8 the original linear function is not modified", "1.9 bounds edits invalidate the cached normalisation (rule groups of C02)", "1.10 results are not a reusable buffer", "1.8 also through objects built from the original coefficients"],
    not_decided=["equality of the returned value with the user's callable", "dtype promotion, NaN values, sparse/dense numerics"],
)

# ---------------------------------------------------------------------------
# roles of the compute methods, read from ProblemFunction.__init__


def compute_roles(ctx: Ctx) -> dict[str, dict]:
    """Map method name -> {role: output|jacobian, db: bool, norm: bool} from ``__init__``."""
    init = ctx.index.method(PF, "ProblemFunction", "__init__")
    roles: dict[str, dict] = {}
    # which local is the output callable / the jacobian callable
    sup = [c for c in rules.super_calls(init, "__init__")]
    ctx.need(sup, "ProblemFunction.__init__ no longer calls super().__init__")
    out_var = sup[0].args[0].id if sup[0].args and isinstance(sup[0].args[0], ast.Name) else None
    jac_e = kwarg(sup[0], "jac")
    jac_var = jac_e.id if isinstance(jac_e, ast.Name) else None
    ctx.need(out_var and jac_var, "cannot identify the output/jacobian callables passed to MDOFunction.__init__")

    def visit(stmts, db, norm):
        for s in stmts:
            if isinstance(s, ast.If):
                names = names_in(s.test)
                b_db = db or "use_database" in names
                b_norm = "with_normalized_inputs" in names
                visit(s.body, b_db, b_norm)
                visit(s.orelse, "use_database" in names and False or db, False) if not (len(s.orelse) == 1 and isinstance(s.orelse[0], ast.If)) else visit(s.orelse, db, False)
            elif isinstance(s, ast.Assign) and len(s.targets) == 1 and isinstance(s.targets[0], ast.Name):
                v = s.value
                if isinstance(v, ast.Attribute) and isinstance(v.value, ast.Name) and v.value.id == "self":
                    if s.targets[0].id == out_var:
                        roles[v.attr] = {"role": "output", "db": db, "norm": norm}
                    elif s.targets[0].id == jac_var:
                        roles[v.attr] = {"role": "jacobian", "db": db, "norm": norm}

    visit(init.body, False, False)
    return roles


# ---------------------------------------------------------------------------
# 1.2 coordinate-space typing of the four memoising methods


_BOUND = {"_unnormalize_vect": "unnormalize_vect", "_normalize_grad": "normalize_grad", "_unnormalize_grad": "unnormalize_grad"}


def _signatures(ctx: Ctx) -> dict[str, list[str]]:
    """Parameter names (without self/cls) of the callables a memoising method goes through, by the attribute they are
    called by: the converters are the DesignSpace methods bound in ``__init__`` (rule 1.2-binding)."""
    out = {}

    def params(f):
        ps = [a.arg for a in [*f.args.posonlyargs, *f.args.args]]
        static = any(dotted(d) == "staticmethod" for d in f.decorator_list)
        return ps if static else ps[1:]

    for attr, meth in _BOUND.items():
        out[attr] = params(ctx.index.method(DS, "DesignSpace", meth))
    for m in ("_compute_output", "_compute_jacobian"):
        out[m] = params(ctx.index.method(PF, "ProblemFunction", m))
    for m in ("get_hashable_ndarray", "get_function_value", "store", "get"):
        try:
            out[m] = params(ctx.index.method(DB, "Database", m))
        except AnalysisError:
            pass
    return out


def _argument(sig: dict[str, list[str]], call: ast.Call, pos: int) -> ast.AST | None:
    """Argument ``pos`` of a call, given by position or by the name of the callee's parameter."""
    if pos < len(call.args):
        return None if any(isinstance(a, ast.Starred) for a in call.args[: pos + 1]) else call.args[pos]
    ps = sig.get(last_attr(call) or "", [])
    return kwarg(call, ps[pos]) if pos < len(ps) else None


def _one_entry(d: ast.AST | None) -> tuple[ast.AST, ast.AST] | None:
    """(key, value) of a mapping with exactly one entry: ``{k: v}``, ``dict([(k, v)])``, ``dict(((k, v),))``, ``dict({k: v})``."""
    if isinstance(d, ast.Dict):
        return (d.keys[0], d.values[0]) if len(d.keys) == 1 and d.keys[0] is not None else None
    if isinstance(d, ast.Call) and call_name(d) == "dict" and len(d.args) == 1 and not d.keywords:
        a = d.args[0]
        if isinstance(a, ast.Dict):
            return _one_entry(a)
        if isinstance(a, (ast.List, ast.Tuple)) and len(a.elts) == 1 and isinstance(a.elts[0], (ast.Tuple, ast.List)) and len(a.elts[0].elts) == 2:
            k, v = a.elts[0].elts
            return None if isinstance(k, ast.Starred) or isinstance(v, ast.Starred) else (k, v)
    return None


def _space_eval(self_tag: str, sig: dict[str, list[str]]):
    """Expression evaluator for K3 inside a ``_compute_*_db*`` method.

    Tags: N, U (points), V (value), JN, JU (Jacobians), K:U / K:N (hashed key of a point in that
    space), name:out / name:grad (function names).
    """

    def ev(e: ast.AST, env) -> frozenset:
        if isinstance(e, ast.Name):
            return env.get(e.id, UNKNOWN)
        if isinstance(e, ast.Attribute):
            d = dotted(e)
            if d == "self.name":
                return frozenset({"name:out"})
            if d == "self._gradient_name":
                return frozenset({"name:grad"})
            if d == "self._database":
                return frozenset({"db"})
            if e.attr in ("real", "data", "T") or e.attr == "imag":
                return ev(e.value, env)
            return UNKNOWN
        if isinstance(e, ast.Call):
            f = e.func
            la = last_attr(e)
            first = _argument(sig, e, 0)
            a0 = ev(first, env) if first is not None else UNKNOWN
            if la == "_unnormalize_vect":
                return frozenset({"U"}) if a0 == {"N"} else frozenset({"bad:unnormalize_vect(" + "/".join(sorted(a0)) + ")"})
            if la == "_unnormalize_grad":
                return frozenset({"JU"}) if a0 == {"JN"} else frozenset({"bad:unnormalize_grad(" + "/".join(sorted(a0)) + ")"})
            if la == "_normalize_grad":
                return frozenset({"JN"}) if a0 == {"JU"} else frozenset({"bad:normalize_grad(" + "/".join(sorted(a0)) + ")"})
            if la == "_compute_output":
                return frozenset({"V"}) if a0 == {self_tag} else frozenset({"bad:_compute_output(" + "/".join(sorted(a0)) + ")"})
            if la == "_compute_jacobian":
                return frozenset({"J" + self_tag}) if a0 == {self_tag} else frozenset({"bad:_compute_jacobian(" + "/".join(sorted(a0)) + ")"})
            if la == "get_hashable_ndarray":
                return frozenset({"K:" + t for t in a0})
            if la == "get_function_value":
                nm = a0
                if nm == {"name:out"}:
                    return frozenset({"V"})
                if nm == {"name:grad"}:
                    return frozenset({"JU"})
                return UNKNOWN
            if la in ("copy", "astype", "todense", "toarray"):
                if isinstance(f, ast.Attribute):
                    return ev(f.value, env)
            return UNKNOWN
        if isinstance(e, ast.IfExp):
            return ev(e.body, env) | ev(e.orelse, env)
        return UNKNOWN

    return ev


def check_memo_method(ctx: Ctx, mname: str, info: dict) -> None:
    cls = ctx.index.cls(PF, "ProblemFunction")
    func = ctx.index.method(PF, "ProblemFunction", mname)
    con = cname(PF, "ProblemFunction", mname)
    cfg = cfg_of(func)
    in_tag = "N" if info["norm"] else "U"
    params = [a.arg for a in func.args.args if a.arg != "self"]
    ctx.need(len(params) == 1, f"{mname}: expected exactly one data parameter")
    sig = _signatures(ctx)
    ev = _space_eval(in_tag, sig)

    def arg(c, i):
        return _argument(sig, c, i)

    def atags(c, i):
        a = arg(c, i)
        return fw.tags(a) if a is not None else UNKNOWN

    fw = Forward(cfg, ev, init={params[0]: frozenset({in_tag})})
    role = info["role"]
    want_name = "name:out" if role == "output" else "name:grad"
    want_val = "V" if role == "output" else "JU"
    want_ret = "V" if role == "output" else "J" + in_tag

    def tags(e):
        return fw.tags(e)

    def fmt(t):
        return "/".join(sorted(t))

    # -- sinks: keys ------------------------------------------------------
    hashed = rules.calls_named(func, "get_hashable_ndarray")
    ctx.need(hashed, f"{mname}: no get_hashable_ndarray call (key construction not recognised)")
    for c in hashed:
        t = atags(c, 0)
        ctx.ob("1.2-key", con, t == {"U"}, f"the database key is built from a point tagged {fmt(t)}; it must be the physical (unnormalised) point", node=c, slots={"arg": fmt(t)})
    lookups = rules.calls_named(func, "get_function_value")
    ctx.need(lookups, f"{mname}: no get_function_value lookup")
    for c in lookups:
        nm = atags(c, 0)
        key = atags(c, 1)
        ctx.ob("1.2-lookup-name", con, nm == {want_name}, f"the {role} method looks up {fmt(nm)} instead of {want_name}", node=c)
        ctx.ob("1.2-lookup-key", con, key <= {"K:U", "U"} and bool(key), f"the lookup key is {fmt(key)}; it must be the (hashed) physical point", node=c)
    stores = rules.calls_named(func, "store")
    stores = [c for c in stores if fw.tags(c.func.value) == {"db"}] if stores else stores
    if not stores:
        ctx.ob("1.2-store-value", con, False, f"{mname} never records what it computed in the database: the value is recomputed at each request and the history lacks the point", node=func, stmt="computed value stored")
    for c in stores:
        key = atags(c, 0)
        ctx.ob("1.2-store-key", con, key <= {"K:U", "U"} and bool(key), f"the value is stored under a key tagged {fmt(key)}; it must be the (hashed) physical point", node=c)
        d = arg(c, 1)
        entry = _one_entry(d)
        ctx.need(entry is not None, f"{mname}: stored mapping is not a one-entry dict literal")
        nm, val = tags(entry[0]), tags(entry[1])
        ctx.ob("1.2-store-name", con, nm == {want_name}, f"the {role} method stores under {fmt(nm)} instead of {want_name}", node=c)
        ctx.ob("1.2-store-value", con, val == {want_val}, f"the stored value is tagged {fmt(val)}; the database must hold {want_val} ({'the function value' if role == 'output' else 'the physical-space Jacobian'})", node=c, slots={"value": fmt(val)})
    gets = [c for c in rules.calls_named(func, "get") if fw.tags(c.func.value) == {"db"}]
    for c in gets:
        key = atags(c, 0)
        ctx.ob("1.2-get-key", con, key <= {"K:U", "U"} and bool(key), f"database.get is asked with a key tagged {fmt(key)}", node=c)
    # -- sinks: compute calls and returns ----------------------------------
    comp_name = "_compute_output" if role == "output" else "_compute_jacobian"
    computes = rules.self_calls(func, comp_name)
    other = rules.self_calls(func, "_compute_jacobian" if role == "output" else "_compute_output")
    ctx.ob("1.2-compute-kind", con, bool(computes) and not other, f"the {role} method must evaluate through self.{comp_name} only", node=(other or computes or [func])[0])
    for c in computes:
        t = tags(c)
        ctx.ob("1.2-compute-arg", con, not any(x.startswith("bad:") for x in t), f"self.{comp_name} receives a point in the wrong space ({fmt(t)}); the wrapped sequence expects the caller's coordinates ({in_tag})", node=c)
    rets = [s for s in stmts_of(func) if isinstance(s, ast.Return)]
    ctx.need(rets, f"{mname}: no return")
    for r in rets:
        t = tags(r.value) if r.value is not None else frozenset({"None"})
        ctx.ob("1.2-return", con, t == {want_ret}, f"the method returns a value tagged {fmt(t)}; the caller expects {want_ret}", node=r, slots={"returned": fmt(t)})
    # all conversions well-typed
    for c in rules.method_calls(func, lambda c: last_attr(c) in ("_unnormalize_vect", "_unnormalize_grad", "_normalize_grad")):
        t = tags(c)
        ctx.ob("1.2-conversion", con, not any(x.startswith("bad:") for x in t), f"conversion applied to a value of the wrong space: {fmt(t)}", node=c)

    # -- 1.3 lookup dominates compute ---------------------------------------
    # the lookup variable(s)
    look_vars = set()
    for s in stmts_of(func):
        if isinstance(s, ast.Assign) and isinstance(s.value, ast.Call) and last_attr(s.value) == "get_function_value":
            for t in s.targets:
                if isinstance(t, ast.Name):
                    look_vars.add(t.id)
    none_tests = []
    for n in cfg.nodes(lambda n: cfg.kind[n] == "test"):
        test = cfg.ast[n].test
        cp = compare_parts(test)
        if cp and isinstance(cp[0], ast.Constant) and isinstance(cp[2], ast.Name):
            cp = (cp[2], cp[1], cp[0])  # ``None is x``
        if cp and isinstance(cp[0], ast.Name) and cp[0].id in look_vars and const_value(cp[2], 0) is None and isinstance(cp[2], ast.Constant):
            if cp[1] is ast.Is:
                none_tests.append((n, True))
            elif cp[1] is ast.IsNot:
                none_tests.append((n, False))
    for c in computes:
        cn = cfg.node_of(c)
        ok = any(cfg.under_branch(cn, t, v) for t, v in none_tests)
        ctx.ob("1.3-memo", con, ok, "the original function is evaluated without first finding the database entry missing: a recorded point would be recomputed (and recounted)", node=c)
    # the hit path must not reach a compute call: implied by dominance above, but the test must
    # compare the value looked up with the same key that is stored
    for c in lookups:
        for st in stores:
            ctx.ob("1.3-same-key", con, same(arg(c, 1), arg(st, 0)), "lookup and store use different key expressions", node=st)

    # -- 1.4 store after compute ---------------------------------------------
    store_nodes = {cfg.node_of(c) for c in stores}
    for c in computes:
        cn = cfg.node_of(c)
        if role == "output":
            esc = cfg.escape_path(cn, store_nodes)
            ctx.ob("1.4-store", con, esc is None, "a computed value can reach the return without being stored in the database: " + cfg.describe_path(esc), node=c)
        else:
            # allowed escape: the False branch of ``if self.__store_jacobian``
            flag_false = set()
            for n in cfg.nodes(lambda n: cfg.kind[n] == "test"):
                t = cfg.ast[n].test
                if isinstance(t, ast.Attribute) and t.attr in ("__store_jacobian", "_ProblemFunction__store_jacobian") and dotted(t.value) == "self":
                    b = cfg.branch.get((n, False))
                    if b is not None:
                        flag_false.add(b)
            esc = cfg.escape_path(cn, store_nodes | flag_false)
            ctx.ob("1.4-store", con, esc is None, "a computed Jacobian can reach the return without being stored although Jacobian storage is enabled: " + cfg.describe_path(esc), node=c)
            # and the store must not sit under any other condition than the flag
            for st in stores:
                sn = cfg.node_of(st)
                conds = [t for (t, v), b in cfg.branch.items() if cfg.dominates(b, sn) and not cfg.dominates(b, cn)]
                bad = [t for t in conds if not (isinstance(cfg.ast[t].test, ast.Attribute) and cfg.ast[t].test.attr.endswith("__store_jacobian"))]
                ctx.ob("1.4-store-cond", con, not bad, "the Jacobian store is guarded by a condition other than the store_jacobian flag", node=st)


# ---------------------------------------------------------------------------
# 1.1 evaluation sequences


def check_sequences(ctx: Ctx) -> None:
    func = ctx.index.method(EP, "EvaluationProblem", "_preprocess_function")
    con = cname(EP, "EvaluationProblem", "_preprocess_function")
    # design-space aliases
    ds_names = {"self.design_space"}
    for s in func.body:
        if isinstance(s, ast.Assign) and dotted(s.value) == "self.design_space":
            ds_names |= {t.id for t in s.targets if isinstance(t, ast.Name)}
    # the decision tree: an if/elif chain, possibly with a test split over nested ifs; every leaf is the list of the
    # (polarity, test) pairs on its path and the statements executed on it
    def assigns_seq(node):
        return any(isinstance(x, ast.Assign) and any(isinstance(t, ast.Name) and t.id in ("func_seq", "jac_seq") for t in x.targets) for x in ast.walk(node))

    chain = [s for s in func.body if isinstance(s, ast.If) and assigns_seq(s)]
    ctx.need(len(chain) == 1, "_preprocess_function: the if/elif chain building func_seq/jac_seq was not found")
    top_level = [s for s in func.body if s is not chain[0]]

    def leaves(node, conds, around):
        out = []
        # a test held in a local (``flag = a and b`` ... ``elif flag:``) is the formula the local stands for
        alts = unfolded(func, node.test)
        test = alts[0] if alts and len(alts) == 1 else node.test
        for pol, body in ((True, node.body), (False, node.orelse)):
            c = [*conds, (pol, test)]
            inner = [s for s in body if isinstance(s, ast.If) and assigns_seq(s)]
            if len(inner) == 1:
                k = body.index(inner[0])
                out += leaves(inner[0], c, (around[0] + body[:k], body[k + 1:] + around[1]))
            else:
                out.append((c, around[0] + body + around[1]))
        return out

    branches = leaves(chain[0], [], ([], []))
    ctx.need(all(b for _, b in branches), "a branch of the sequence chain is empty")

    def literals(conds):
        """The literals known on a path: those of a conjunction that held, the negation of a single literal that did not."""
        out = []
        for pol, t in conds:
            lits = conj_literals(t)
            if pol:
                out += lits
            elif len(lits) == 1:
                out.append((not lits[0][0], lits[0][1]))
        return out

    def label_of(conds):
        first = next((i for i, (pol, _) in enumerate(conds) if pol), None)
        if first is None:
            return "else"
        return "if " + " and ".join(("" if pol else "not ") + norm_stmt(t, 70) for pol, t in conds[first:])

    def local_def(name, body):
        """The single definition of a local among the statements of the leaf and the top level of the function."""
        ds_ = [s for s in [*top_level, *body] if isinstance(s, ast.Assign) and any(isinstance(t, ast.Name) and t.id == name for t in s.targets)]
        return ds_[0].value if len(ds_) == 1 and len(ds_[0].targets) == 1 else None

    def elements(e, body, depth=0):
        """The callables of a sequence, in order: [(starred, expression)], or None when the expression is not understood
        as a tuple; ``(a, b) + t``, ``(a, *(b, c))``, ``(*t, a)`` and a local holding a tuple are flattened."""
        if depth > 6:
            return None
        if isinstance(e, ast.Tuple):
            out = []
            for el in e.elts:
                if isinstance(el, ast.Starred):
                    sub = elements(el.value, body, depth + 1) if not isinstance(el.value, ast.Name) or isinstance(local_def(el.value.id, body), (ast.Tuple, ast.BinOp)) else None
                    out += sub if sub is not None else [(True, el.value)]
                else:
                    if isinstance(el, ast.Name) and isinstance(local_def(el.id, body), ast.Attribute):
                        el = local_def(el.id, body)
                    out.append((False, el))
            return out
        if isinstance(e, ast.BinOp) and isinstance(e.op, ast.Add):
            parts = []
            for side in (e.left, e.right):
                sub = elements(side, body, depth + 1)
                if sub is None:
                    if not isinstance(side, ast.Name):
                        return None
                    sub = [(True, side)]  # an opaque tuple concatenated: the same as unpacking it in place
                parts += sub
            return parts
        if isinstance(e, ast.Name):
            d = local_def(e.id, body)
            if isinstance(d, (ast.Tuple, ast.BinOp)):
                return elements(d, body, depth + 1)
        return None

    leaf_seqs = []  # per leaf: {func_seq/jac_seq: (elements, statement)}
    for bi, (conds, body) in enumerate(branches):
        label = label_of(conds)
        seqs = {}
        expects = None
        normalized_function = False
        for s in body:
            if isinstance(s, ast.Assign) and len(s.targets) == 1 and isinstance(s.targets[0], ast.Name):
                tn = s.targets[0].id
                if tn in ("func_seq", "jac_seq"):
                    els = elements(s.value, body)
                    ctx.need(els is not None, f"{tn} is not a tuple literal in branch {label}")
                    seqs[tn] = (els, s)
                elif tn == "expects_normalized_inputs":
                    expects = s.value
                elif tn == "function" and isinstance(s.value, ast.Call) and last_attr(s.value) == "normalize":
                    arg = s.value.args[0] if s.value.args else None
                    ctx.need(arg is not None and dotted(arg) in ds_names, "function.normalize is not given the problem's design space")
                    normalized_function = True
        ctx.need(set(seqs) == {"func_seq", "jac_seq"} and expects is not None, f"branch {label}: func_seq/jac_seq/expects_normalized_inputs not all assigned")
        leaf_seqs.append(seqs)
        if isinstance(expects, ast.Constant):
            start = "N" if expects.value is True else "X"
        elif dotted(expects) == "function.expects_normalized_inputs":
            start = "X"  # whatever coordinates the function itself expects
        else:
            raise AnalysisError(f"branch {label}: unrecognised expects_normalized_inputs value {norm_stmt(expects)}")
        f_in = "N" if normalized_function else ("U" if start == "N" else "X")  # what function.func expects
        # polarity demanded by the branch test
        lits = literals(conds)
        positives = {dotted(e_) for pol_, e_ in lits if pol_}
        negatives = {dotted(e_) for pol_, e_ in lits if not pol_}
        if "is_function_input_normalized" in positives:
            ctx.ob("1.1-expects", con, start == "N", f"branch {label} handles normalised inputs but declares expects_normalized_inputs={norm_stmt(expects)}", node=seqs["func_seq"][1], stmt=f"{label}: expects_normalized_inputs")
        for tn, (els, s) in seqs.items():
            cur_tag = start
            problems = []
            names = []
            for starred, el in els:
                if starred or dotted(el) == "self._convert_array_to_dense":
                    names.append(("*" if starred else "") + norm_stmt(el))
                    if not cur_tag.startswith("J"):
                        problems.append(f"{names[-1]} (Jacobian densification) applied to a non-Jacobian {cur_tag}")
                    continue
                d = dotted(el) or norm_stmt(el)
                names.append(d)
                base, _, meth = d.rpartition(".")
                if base in ds_names and meth == "unnormalize_vect":
                    if cur_tag != "N":
                        problems.append(f"unnormalize_vect applied to {cur_tag}")
                    cur_tag = "U"
                elif base in ds_names and meth == "normalize_vect":
                    if cur_tag != "U":
                        problems.append(f"normalize_vect applied to {cur_tag}")
                    cur_tag = "N"
                elif base in ds_names and meth == "round_vect":
                    if cur_tag not in ("U", "X"):
                        problems.append(f"round_vect applied to {cur_tag} (integers are rounded in physical space)")
                elif base in ds_names and meth == "normalize_grad":
                    if cur_tag != "J[U]":
                        problems.append(f"normalize_grad applied to {cur_tag}")
                    cur_tag = "J[N]"
                elif base in ds_names and meth == "unnormalize_grad":
                    if cur_tag != "J[N]":
                        problems.append(f"unnormalize_grad applied to {cur_tag}")
                    cur_tag = "J[U]"
                elif d == "function.func":
                    if cur_tag != f_in:
                        problems.append(f"function.func receives {cur_tag}, expects {f_in}")
                    cur_tag = "V"
                elif d == "function.jac":
                    if cur_tag != f_in:
                        problems.append(f"function.jac receives {cur_tag}, expects {f_in}")
                    cur_tag = f"J[{f_in}]"
                else:
                    raise AnalysisError(f"branch {label}: unknown element {d} in {tn} (no signature in the K3 table)")
            want = "V" if tn == "func_seq" else f"J[{start}]"
            if cur_tag != want:
                problems.append(f"the sequence yields {cur_tag}, the caller expects {want}")
            ctx.ob("1.1-seq", con, not problems, f"{tn} of branch {label} does not compose to {start}->{want}: " + "; ".join(problems), node=s, stmt=f"{label}: {tn} = ({', '.join(names)})", slots={"start": start, "result": cur_tag})
            if "round_ints" in positives:
                has_round = any(n.endswith(".round_vect") for n in names)
                ctx.ob("1.1-round", con, has_round, f"branch {label} must round integer components but {tn} has no round_vect", node=s, stmt=f"{label}: {tn} rounds")
            if "round_ints" in negatives:
                has_round = any(n.endswith(".round_vect") for n in names)
                ctx.ob("1.1-round", con, not has_round, f"branch {label} must not round but {tn} has round_vect", node=s, stmt=f"{label}: {tn} does not round")
    # every configuration selects a branch: the selected sequences round iff rounding is requested and take normalised
    # inputs iff the caller's inputs are normalised (the tests are boolean formulas over a few options: all their
    # truth assignments are enumerated)
    import itertools

    def atoms_of(t, acc):
        if t is None:
            return
        if isinstance(t, ast.BoolOp):
            for v in t.values:
                atoms_of(v, acc)
        elif isinstance(t, ast.UnaryOp) and isinstance(t.op, ast.Not):
            atoms_of(t.operand, acc)
        else:
            acc.add(norm_stmt(t))

    def holds(t, env):
        if t is None:
            return True
        if isinstance(t, ast.BoolOp):
            vals = [holds(v, env) for v in t.values]
            return all(vals) if isinstance(t.op, ast.And) else any(vals)
        if isinstance(t, ast.UnaryOp) and isinstance(t.op, ast.Not):
            return not holds(t.operand, env)
        return env[norm_stmt(t)]

    atoms = set()
    for conds, _ in branches:
        for _pol, test in conds:
            atoms_of(test, atoms)
    atoms = sorted(atoms)
    ctx.need({"round_ints", "is_function_input_normalized"} <= set(atoms) and len(atoms) <= 5, f"the options tested by the sequence chain are not the expected ones: {atoms}")
    summaries = [{tn: ([dotted(e_) or "" for _st, e_ in els], s_) for tn, (els, s_) in seqs.items()} for seqs in leaf_seqs]
    for combo in itertools.product((True, False), repeat=len(atoms)):
        env = dict(zip(atoms, combo))
        k = next(i for i, (conds, _) in enumerate(branches) if all(holds(test, env) == pol for pol, test in conds))
        cfg_label = ", ".join(f"{a if len(a) < 40 else 'linear function'}={v}" for a, v in env.items())
        for tn, (names_, s_) in summaries[k].items():
            has_round = any(n_.endswith(".round_vect") for n_ in names_)
            ctx.ob("1.1-round", con, has_round == env["round_ints"], f"with {cfg_label} the selected {tn} {'does not round' if not has_round else 'rounds'} the integer components: the function is then evaluated at a point that is not the (rounded) point under which the value is recorded", node=s_, stmt=f"[{cfg_label}] {tn} rounds iff round_ints")
    # constructor wiring
    ctor = [c for c in rules.method_calls(func, lambda c: call_name(c) == "ProblemFunction")]
    ctx.need(len(ctor) == 1, "_preprocess_function: ProblemFunction(...) call not found")
    c = ctor[0]
    got = [norm_stmt(a) for a in c.args[:4]]
    ctx.ob("1.1-wiring", con, got[1:4] == ["func_seq", "jac_seq", "expects_normalized_inputs"], f"ProblemFunction receives {got[1:4]} as (output sequence, jacobian sequence, with_normalized_inputs)", node=c, stmt="ProblemFunction(function, func_seq, jac_seq, expects_normalized_inputs, ...)")
    db_arg = c.args[4] if len(c.args) > 4 else kwarg(c, "database")
    ok = isinstance(db_arg, ast.IfExp) and dotted(db_arg.test) == "use_database" and dotted(db_arg.body) == "self.database" and const_value(db_arg.orelse, 0) is None
    ctx.ob("1.1-wiring", con, ok, "the database handed to ProblemFunction is not `self.database if use_database else None`", node=c, stmt="ProblemFunction(..., database)")
    ds_arg = c.args[7] if len(c.args) > 7 else kwarg(c, "design_space")
    ctx.ob("1.1-wiring", con, ds_arg is not None and dotted(ds_arg) in ds_names, "ProblemFunction is not given the problem's design space", node=c, stmt="ProblemFunction(..., design_space)")


# ---------------------------------------------------------------------------


def check_init_bindings(ctx: Ctx) -> None:
    """The converters bound in ``__init__`` are the design-space methods of matching name."""
    init = ctx.index.method(PF, "ProblemFunction", "__init__")
    con = cname(PF, "ProblemFunction", "__init__")
    for attr, meth in _BOUND.items():
        ss = rules.assigns_to_self(init, attr)
        ctx.need(ss, f"ProblemFunction.__init__ does not bind {attr}")
        for s in ss:
            v = s.value
            ok = isinstance(v, ast.Attribute) and v.attr == meth and dotted(v.value) == "design_space"
            ctx.ob("1.2-binding", con, ok, f"self.{attr} is bound to {norm_stmt(v)} instead of design_space.{meth}", node=s)
    ss = rules.assigns_to_self(init, "_gradient_name")
    ctx.need(ss, "ProblemFunction.__init__ does not bind _gradient_name")
    for s in ss:
        v = s.value
        ok = isinstance(v, ast.Call) and last_attr(v) == "get_gradient_name" and v.args and dotted(v.args[0]) == "function.name"
        ctx.ob("1.2-binding", con, ok, "the gradient name is not Database.get_gradient_name(function.name)", node=s)
    ss = rules.assigns_to_self(init, "_database")
    for s in ss:
        ctx.ob("1.2-binding", con, dotted(s.value) == "database", "self._database is not the database argument", node=s)


def check_grad_scaling(ctx: Ctx) -> None:
    ds = ctx.index.cls(DS, "DesignSpace")
    for m, callee in (("normalize_grad", "unnormalize_vect"), ("unnormalize_grad", "normalize_vect")):
        f = ctx.index.method(DS, "DesignSpace", m)
        con = cname(DS, "DesignSpace", m)
        rets = [s for s in stmts_of(f) if isinstance(s, ast.Return)]
        ok = False
        node = rets[0] if rets else f
        for r in rets:
            v = r.value
            if isinstance(v, ast.Name):
                ds_ = [s_.value for s_ in stmts_of(f) if isinstance(s_, ast.Assign) and any(dotted(t_) == v.id for t_ in s_.targets)]
                v = ds_[0] if len(ds_) == 1 else v
            if isinstance(v, ast.Call) and isinstance(v.func, ast.Attribute) and v.func.attr == callee and dotted(v.func.value) == "self":
                mlb = arg_or_kw(v, 1, "minus_lb")
                first = v.args[0] if v.args else None
                p0 = f.args.args[1].arg
                ok = isinstance(mlb, ast.Constant) and mlb.value is False and isinstance(first, ast.Name) and first.id == p0
                node = r
        ctx.ob("1.5-linear-part", con, ok and len(rets) == 1, f"{m} must return self.{callee}(<gradient>, minus_lb=False): the gradient map is the linear part of the inverse point map", node=node)
    rules.rule_forwarding(ctx, "1.5-forwarding", ds, ["normalize_vect", "unnormalize_vect"], "gradient scaling goes through (un)normalize_vect(minus_lb=False)")


def _final_values(func: ast.AST, stmts: list[ast.stmt], facts: dict[str, bool]) -> dict[int, list[ast.AST] | None]:
    """For each assignment of ``stmts`` (by id): the alternatives of the value it assigns (locals unfolded) when, in the
    function specialised on ``facts``, it can be the last of ``stmts`` executed before the function returns; else None."""
    from gv.shapes import specialise

    vals = {id(s): unfolded(func, s, facts, get=lambda st: getattr(st, "value", None)) for s in stmts}  # also numbers the nodes
    g = specialise(func, facts)
    cfg = cfg_of(g)
    by_uid = {n._gv_uid: n for n in ast.walk(g) if hasattr(n, "_gv_uid")}
    nodes = {}
    for s in stmts:
        t = by_uid.get(getattr(s, "_gv_uid", None))
        if t is not None and cfg.has(t):
            nodes[id(s)] = cfg.node_of(t)
    out = {}
    for s in stmts:
        n = nodes.get(id(s))
        live = n is not None and vals[id(s)] is not None and cfg.path(n, cfg.exit, avoid=set(nodes.values()) - {n}) is not None
        out[id(s)] = vals[id(s)] if live else None
    return out


def check_keys(ctx: Ctx) -> None:
    store = ctx.index.method(DB, "Database", "store")
    con = cname(DB, "Database", "store")
    hs = rules.calls_named(store, "get_hashable_ndarray")
    ctx.need(hs, "Database.store: key conversion not found")
    for c in hs:
        cp = arg_or_kw(c, 1, "copy")
        ctx.ob("1.6-key-copy", con, isinstance(cp, ast.Constant) and cp.value is True, "Database.store must copy the key array (copy=True): otherwise a later in-place edit of the caller's point changes a recorded key", node=c)
    # the data mapping is written with the converted key
    ghn = ctx.index.method(DB, "Database", "get_hashable_ndarray")
    con2 = cname(DB, "Database", "get_hashable_ndarray")
    ctor = [c for c in rules.method_calls(ghn, lambda c: call_name(c) == "HashableNdarray")]
    ctx.need(ctor, "get_hashable_ndarray does not construct HashableNdarray")
    pnames = [a.arg for a in ghn.args.args]
    for c in ctor:
        cp = arg_or_kw(c, 1, "copy")
        ctx.ob("1.6-key-copy", con2, isinstance(cp, ast.Name) and cp.id in pnames, "get_hashable_ndarray must forward its copy argument to HashableNdarray", node=c)
    copies = rules.calls_named(ghn, "copy_wrapped_array")
    ctx.ob("1.6-key-copy", con2, bool(copies), "an existing HashableNdarray must be made a copy when copy is requested (copy_wrapped_array)", node=ghn, stmt="copy_wrapped_array on existing wrapper")
    # HashableNdarray
    init = ctx.index.method(HN, "HashableNdarray", "__init__")
    con3 = cname(HN, "HashableNdarray", "__init__")
    arr = rules.assigns_to_self(init, "__array", "HashableNdarray")
    ctx.need(arr, "HashableNdarray.__init__ does not bind __array")
    # what the attribute holds when the constructor returns, for each outcome of the copy flag: whichever way the choice
    # is written (conditional expression, if/else, default then override), the LAST binding executed decides
    array_p, copy_p = ([a.arg for a in init.args.args] + ["array", "copy"])[1:3]
    imports = ctx.index.module(HN).imports

    def fresh_copy(e):
        if not (isinstance(e, ast.Call) and array_p in names_in(e)):
            return False
        if any(k.arg == "copy" and not (isinstance(k.value, ast.Constant) and k.value.value is True) for k in e.keywords):
            return False
        if isinstance(e.func, ast.Name):
            return e.func.id in ("np_array", "array", "copy") or imports.get(e.func.id) in ("numpy.array", "numpy.copy", "copy.copy", "copy.deepcopy")
        return last_attr(e) in ("array", "copy", "deepcopy")

    on = _final_values(init, arr, {copy_p: True})
    off = _final_values(init, arr, {copy_p: False})
    for s in arr:
        v_on, v_off = on[id(s)], off[id(s)]
        ok = (v_on is None or all(fresh_copy(a_) for a_ in v_on)) and (v_off is None or all(array_p in names_in(a_) for a_ in v_off))
        ctx.ob("1.6-wrap-copy", con3, ok, "the wrapped array must be a fresh copy when copy=True", node=s)
    ctx.ob("1.6-wrap-copy", con3, any(on[id(s)] is not None for s in arr) and any(off[id(s)] is not None for s in arr), "the wrapped array is not bound for some value of the copy flag", node=init, stmt="wrapped array bound whatever the copy flag")
    hs = rules.assigns_to_self(init, "__hash", "HashableNdarray")
    ctx.need(hs, "HashableNdarray.__init__ does not bind __hash")
    for s in hs:
        ok = "array" in names_in(s.value) and any(last_attr(c) and "xxh" in last_attr(c) or last_attr(c) == "hash" for c in ast.walk(s.value) if isinstance(c, ast.Call))
        ctx.ob("1.6-hash-content", con3, ok, "the hash must be computed from the array content", node=s)
    eq = ctx.index.method(HN, "HashableNdarray", "__eq__")
    con4 = cname(HN, "HashableNdarray", "__eq__")
    rets = [s for s in stmts_of(eq) if isinstance(s, ast.Return)]
    content = [r for r in rets if r.value is not None and any(isinstance(c, ast.Call) and last_attr(c) in ("array_equal", "array_equiv") for c in ast.walk(r.value))]
    true_rets = [r for r in rets if isinstance(r.value, ast.Constant) and r.value.value is True]
    ctx.ob("1.6-eq-content", con4, bool(content) and not true_rets, "equality of keys must be decided by array content (array_equal), never by the hash alone", node=(true_rets or rets or [eq])[0])
    hsh = ctx.index.method(HN, "HashableNdarray", "__hash__")
    rets = [s for s in stmts_of(hsh) if isinstance(s, ast.Return)]
    ok = len(rets) == 1 and isinstance(rets[0].value, ast.Attribute) and rets[0].value.attr in ("__hash", "_HashableNdarray__hash")
    ctx.ob("1.6-hash-content", cname(HN, "HashableNdarray", "__hash__"), ok, "__hash__ must return the content digest computed at construction", node=rets[0] if rets else hsh)


def check_linear_normalize(ctx: Ctx) -> None:
    f = ctx.index.method(LF, "MDOLinearFunction", "normalize")
    con = cname(LF, "MDOLinearFunction", "normalize")
    # the normalised twin is built from a copy: scaling the user's own coefficients in place changes the original function
    from gv.purity import impure_writes

    res, sites = impure_writes(f, params={"self"}, track_state=True)
    for node_, p_, what in res:
        ctx.ob("1.8-original-untouched", con, False, f"normalize: {what}: building the normalised function changes the coefficients of the user's function, whose value at the physical point is what must be returned and recorded", node=node_, stmt=f"{norm_stmt(node_, 70)} [{p_}]")
    if not res:
        ctx.ob("1.8-original-untouched", con, sites > 0, "no in-place write reaches the original coefficients", node=f, stmt=f"{sites} in-place site(s) examined")
    # ... nor through an object built FROM the original coefficients: a constructor may keep the matrix it is given (a CSR
    # matrix goes through `tocsr()` unchanged), so an attribute of that object is the user's matrix again
    svn = SymValues(f)
    holders = set()
    for st in stmts_of(f):
        if isinstance(st, ast.Assign) and isinstance(st.targets[0], ast.Name) and isinstance(st.value, ast.Call) and isinstance(st.value.func, ast.Name) and st.value.func.id[:1].isupper():
            args = [*st.value.args, *[k.value for k in st.value.keywords]]
            if any(t in ("self.coefficients", "self._coefficients") for a in args for t in svn.texts(a)):
                holders.add(st.targets[0].id)
    aliases = {st.targets[0].id for st in stmts_of(f) if isinstance(st, ast.Assign) and isinstance(st.targets[0], ast.Name) and isinstance(st.value, ast.Attribute) and isinstance(st.value.value, ast.Name) and st.value.value.id in holders}

    def base(e):
        while isinstance(e, (ast.Attribute, ast.Subscript)):
            if isinstance(e, ast.Attribute) and isinstance(e.value, ast.Name) and e.value.id in holders:
                return e.value.id
            e = e.value
        return e.id if isinstance(e, ast.Name) else None

    for st in stmts_of(f):
        tgt = st.target if isinstance(st, ast.AugAssign) else st.targets[0] if isinstance(st, ast.Assign) and isinstance(st.targets[0], ast.Subscript) else None
        if tgt is None:
            continue
        b = base(tgt)
        # `holder.attr = value` re-binds; `holder.attr.data *= s`, `alias.data *= s`, `alias[...] = v` write in place
        inplace = isinstance(st, ast.AugAssign) or isinstance(tgt, ast.Subscript)
        direct_rebind = isinstance(tgt, ast.Attribute) and isinstance(tgt.value, ast.Name) and tgt.value.id in holders and isinstance(st, ast.Assign)
        if inplace and not direct_rebind and (b in aliases or b in holders):
            ctx.ob("1.8-original-untouched", con, False, f"normalize: `{norm_stmt(st, 60)}` writes in place into the coefficients of an object built from self.coefficients without a copy: the constructor keeps a sparse matrix as it is, so this scales the user's own matrix; the first run is right, the original function is wrong ever after", node=st)
    space = f.args.args[1].arg
    wheres = {}
    for s in stmts_of(f):
        if isinstance(s, ast.Assign) and isinstance(s.value, ast.Call) and last_attr(s.value) == "where" and len(s.value.args) == 3:
            for t in s.targets:
                if isinstance(t, ast.Name):
                    wheres[t.id] = s
    ctx.need(len(wheres) == 2, "MDOLinearFunction.normalize: the two where(...) selections (factor, shift) were not found")

    def is_bound(e, which):
        return isinstance(e, ast.Call) and last_attr(e) == which and dotted(e.func.value) == space

    def uf(e):
        """The expression with the locals it reads replaced by their (single) definition."""
        alts = unfolded(f, e)
        return alts[0] if alts and len(alts) == 1 else e

    factor_var = shift_var = None
    for name, s in wheres.items():
        a = [uf(x) for x in s.value.args]
        if isinstance(a[1], ast.BinOp):
            factor_var = name
            ok = isinstance(a[1].op, ast.Sub) and is_bound(a[1].left, "get_upper_bounds") and is_bound(a[1].right, "get_lower_bounds") and const_value(a[2]) in (1, 1.0)
            ctx.ob("1.8-factor", con, ok, "the scaling factor of a normalised component must be ub - lb (1 elsewhere)", node=s)
        else:
            shift_var = name
            ok = is_bound(a[1], "get_lower_bounds") and const_value(a[2], 1) in (0, 0.0)
            ctx.ob("1.8-shift", con, ok, "the shift of a normalised component must be the lower bound (0 elsewhere)", node=s)
    ctx.need(factor_var and shift_var, "MDOLinearFunction.normalize: factor/shift not identified")
    mask_exprs = [uf(s.value.args[0]) for s in wheres.values()]
    masks = [norm_stmt(m) for m in mask_exprs]
    ctx.ob("1.8-mask", con, masks[0] == masks[1], "factor and shift must be selected with the same normalisation-policy mask", node=wheres[shift_var], stmt="same mask in both where()")
    # the mask is the design space's policy (whether held in a local or computed in place)
    mask_defs = [s for s in stmts_of(f) if isinstance(s, ast.Assign) and any(isinstance(t, ast.Name) and any(isinstance(w.value.args[0], ast.Name) and w.value.args[0].id == t.id for w in wheres.values()) for t in s.targets)]
    ok = all(isinstance(m, ast.Call) and last_attr(m) == "convert_dict_to_array" and isinstance(m.func, ast.Attribute) and dotted(m.func.value) == space and len(m.args) == 1 and dotted(m.args[0]) == f"{space}.normalize" for m in mask_exprs)
    ctx.ob("1.8-mask", con, ok, "the mask must be input_space.convert_dict_to_array(input_space.normalize)", node=mask_defs[0] if mask_defs else f, stmt="mask = policy array")
    # coefficients multiplied by the factor
    mults = []
    for n in walk_body(f):
        if isinstance(n, ast.Call) and last_attr(n) == "multiply" and factor_var in names_in(n):
            mults.append(("mul", n))
        elif isinstance(n, ast.AugAssign) and factor_var in names_in(n.value):
            mults.append(("mul" if isinstance(n.op, ast.Mult) else "other", n))
        elif isinstance(n, ast.BinOp) and factor_var in names_in(n) and not isinstance(n.op, ast.Sub):
            if isinstance(n.left, ast.Name) and n.left.id == factor_var or isinstance(n.right, ast.Name) and n.right.id == factor_var:
                mults.append(("mul" if isinstance(n.op, ast.Mult) else "other", n))
    ctx.need(mults, "MDOLinearFunction.normalize: the coefficient scaling was not found")
    for kind, n in mults:
        ctx.ob("1.8-coeff", con, kind == "mul", "the coefficients must be multiplied by the factor", node=n)
    # value at zero = self.evaluate(shift)
    v0 = [s for s in stmts_of(f) if isinstance(s, ast.Assign) and isinstance(s.value, ast.Call) and last_attr(s.value) in ("evaluate", "func") and dotted(s.value.func.value) == "self"]
    ok = bool(v0) and all(s.value.args and isinstance(s.value.args[0], ast.Name) and s.value.args[0].id == shift_var for s in v0)
    ctx.ob("1.8-constant", con, ok, "the constant term of the normalised function must be the original function evaluated at the shift", node=v0[0] if v0 else f, stmt="value_at_zero = self.evaluate(shift)")
    flag = [s for s in stmts_of(f) if isinstance(s, ast.Assign) and any(isinstance(t, ast.Attribute) and t.attr == "expects_normalized_inputs" for t in s.targets)]
    ok = bool(flag) and all(isinstance(s.value, ast.Constant) and s.value.value is True for s in flag)
    ctx.ob("1.8-flag", con, ok, "the normalised linear function must declare expects_normalized_inputs = True", node=flag[0] if flag else f, stmt="expects_normalized_inputs = True")


def check_equal_bounds(ctx: Ctx) -> None:
    """1.6: a component with equal bounds is inert: the affine maps of DesignSpace (C02 rule 2.7) are part of this property."""
    from gv.props import c02
    from gv.props.c12 import _Prefixed

    ds = ctx.index.cls(DS, "DesignSpace")
    view = c02.View(ctx, ds)
    c02.check_affine_ops(_Prefixed(ctx, "1.6-inert/"), view)
    # the (un)normalisation the evaluation sequences go through uses cached bounds/factors: an edit of the bounds that
    # does not invalidate them makes every later evaluation happen at the physical point of the OLD bounds (C02 2.2/2.3)
    c02.check_protocols(_Prefixed(ctx, "1.9-current-bounds/"), view)
    c02.check_norm_cache(_Prefixed(ctx, "1.9-current-bounds/"), view)


def check_approximated_gradients(ctx: Ctx) -> None:
    """1.11: when the derivatives are approximated (`differentiation_method`), the Jacobian returned and recorded is the
    finite-difference quotient of the function's own values, serial or parallel alike (rule group 16.2 of C16: the
    approximators are reached from ProblemFunction through the gradient approximator factory)."""
    from gv.props import c16
    from gv.props.c12 import _Prefixed

    c16.check_twins(_Prefixed(ctx, "1.11-approximated/"))


def check_preprocessed_convention(ctx: Ctx) -> None:
    """1.12: the functions are wrapped once for a convention of their input (normalised or physical); a driver using the
    other convention must not be handed these wrappers: ``preprocess_functions`` may return without wrapping only when
    the functions are already wrapped FOR THE CONVENTION ASKED FOR (F51: it returned whenever they were wrapped; a DOE
    after a normalised optimisation evaluated 20 and 40 for the samples 2 and 4 of a variable bounded by 0 and 10)."""
    f = ctx.index.method(EP, "EvaluationProblem", "preprocess_functions")
    con = cname(EP, "EvaluationProblem", "preprocess_functions")
    cfg = cfg_of(f)
    conv = "is_function_input_normalized"
    wraps = [c for c in walk_body(f) if isinstance(c, ast.Call) and last_attr(c) == "_preprocess_function"]
    ctx.need(wraps, "preprocess_functions: the wrapping of the functions was not found")
    first = min(cfg.node_of(rules.enclosing_stmt(f, c)) for c in wraps)
    early = [r for r in stmts_of(f) if isinstance(r, ast.Return) and not cfg.reachable(first, cfg.node_of(r))]
    n = 0
    from gv.props.shared import branch_conditions as _bc

    for r in early:
        n += 1
        tests = [cfg.ast[t].test for t, v in _bc(cfg, cfg.node_of(r)) if cfg.kind[t] == "test"]
        ok = any(conv in names_in(t_) for t_ in tests)
        ctx.ob("1.12-convention", con, ok, "preprocess_functions returns without wrapping under a condition that does not involve the convention asked for (is_function_input_normalized): functions wrapped for normalised inputs are then handed physical points by the next driver (or the converse), and are evaluated and recorded at points normalised or unnormalised twice", node=r, stmt="early return only for the same input convention")
    # the convention the wrappers were made for is recorded where the flag is raised
    raised = [s_ for s_ in stmts_of(f) if isinstance(s_, ast.Assign) and dotted(s_.targets[0]) == "self._functions_are_preprocessed" and const_value(s_.value, None) is True]
    kept = [s_ for s_ in stmts_of(f) if isinstance(s_, ast.Assign) and isinstance(s_.targets[0], ast.Attribute) and dotted(s_.targets[0].value) == "self" and dotted(s_.value) == conv]
    if early:
        ctx.ob("1.12-convention", con, bool(raised) and bool(kept), "the convention the functions are wrapped for must be recorded with the 'pre-processed' flag, to be compared with the one the next driver asks for", node=(raised or [f])[0], stmt="convention recorded")


def run(ctx: Ctx) -> None:
    check_preprocessed_convention(ctx)
    check_equal_bounds(ctx)
    check_approximated_gradients(ctx)
    roles = compute_roles(ctx)
    memo = {m: r for m, r in roles.items() if r["db"]}
    ctx.need(len(memo) == 4, f"expected four memoising compute methods, found {sorted(memo)}")
    kinds = {(r["role"], r["norm"]) for r in memo.values()}
    ctx.need(len(kinds) == 4, "the four memoising methods do not cover output/jacobian x normalised/physical")
    check_sequences(ctx)
    check_init_bindings(ctx)
    for m, r in sorted(memo.items()):
        check_memo_method(ctx, m, r)
    check_grad_scaling(ctx)
    check_keys(ctx)
    db = ctx.index.cls(DB, "Database")
    rules.rule_private_attr_writers(
        ctx, "1.7-owner", db, "__data",
        {"__init__", "store", "clear", "__delitem__", "clear_from_iteration", "remove_empty_entries"},
        "only Database's own editing methods may modify the point -> values mapping",
    )
    check_linear_normalize(ctx)
    # what is recorded under a point is that point's own array: the wrapped functions must not hand out a reusable buffer
    from gv.props.shared import check_fresh_results

    check_fresh_results(ctx, "1.10-fresh-result")
    ctx.floor("1.1-seq", 10)
    ctx.floor("1.2-store-value", 4)
    ctx.floor("1.2-return", 4)
    ctx.floor("1.3-memo", 4)
    ctx.floor("1.4-store", 4)
    ctx.floor("1.5-linear-part", 2)
    ctx.floor("1.5-forwarding", 2)


# ---------------------------------------------------------------------------
# seeded faults (applied in memory by the thorough tier) and refactoring twins

_EP = "algos/evaluation_problem.py"
WITNESSES = [
    {"name": "seeded-C01-12", "file": "core/mdo_functions/mdo_linear_function.py", "old": "\nfrom copy import deepcopy\nfrom numbers import Number\nfrom typing import TYPE_CHECKING\nfrom typing import Any\n\nfrom numpy import array\nfrom numpy import multiply\nfrom numpy import ndarray\nfrom numpy import where\n\nfrom gemseo.core.mdo_functions.mdo_function import MDOFunction\nfrom gemseo.core.mdo_functions.mdo_function import OutputType\nfrom gemseo.utils.compatibility.scipy import array_classes\nfrom gemseo.utils.compatibility.scipy import get_row\nfrom gemseo.utils.compatibility.scipy import sparse_classes\n\nif TYPE_CHECKING:\n    from collections.abc import Sequence\n\n    from scipy.sparse import csr_matrix\n\n    from gemseo.algos.design_space import DesignSpace\n    from gemseo.typing import NumberArray\n    from gemseo.typing import SparseOrDenseRealArray\n\n\nclass MDOLinearFunction(MDOFunction):\n    r\"\"\"Linear multivariate function defined by.\n\n    * a matrix :math:`A` of first-order coefficients\n      :math:`(a_{ij})_{\\substack{i = 1, \\dots m \\\\ j = 1, \\dots n}}`\n    * and a vector :math:`b` of zero-order coefficients :math:`(b_i)_{i = 1, \\dots m}`\n\n    .. math::\n\n        F(x)\n        =\n        Ax + b\n        =\n        \\begin{bmatrix}\n            a_{11} & \\cdots & a_{1n} \\\\\n            \\vdots & \\ddots & \\vdots \\\\\n            a_{m1} & \\cdots & a_{mn}\n        \\end{bmatrix}\n        \\begin{bmatrix} x_1 \\\\ \\vdots \\\\ x_n \\end{bmatrix}\n        +\n        \\begin{bmatrix} b_1 \\\\ \\vdots \\\\ b_m \\end{bmatrix}.\n    \"\"\"\n\n    __initial_expression: str | None\n    \"\"\"The initially provided expression.\n\n    If ``None`` the expression is computed.\n    \"\"\"\n\n    def __init__(\n        self,\n        coefficients: SparseOrDenseRealArray,\n        name: str,\n        f_type: MDOFunction.FunctionType = MDOFunction.FunctionType.NONE,\n        input_names: Sequence[str] = (),\n        value_at_zero: OutputType = 0.0,\n        output_names: Sequence[str] = (),\n        expr: str | None = None,\n    ) -> None:\n        \"\"\"\n        Args:\n            coefficients: The coefficient matrix :math:`A` of the linear function.\n            value_at_zero: The value :math:`b` of the linear function output at zero.\n            expr: The expression of the function, if any.\n                If ``None``,\n                create an expression\n                from the coefficients and the value at zero.\n        \"\"\"  # noqa: D205, D212, D415\n        # Format the passed coefficients and value at zero\n        if isinstance(coefficients, sparse_classes):\n            coefficients = coefficients.tocsr()\n        self.coefficients = coefficients\n        output_dim, input_dim = self._coefficients.shape\n        self.value_at_zero = value_at_zero\n        self.__initial_expression = expr\n        if expr is None:\n            # Generate the arguments strings\n            new_input_names = self.__class__.generate_input_names(\n                input_dim, input_names\n            )\n            # Generate the expression string\n            if output_dim == 1:\n                expr = self._generate_1d_expr(new_input_names)\n            else:\n                expr = self._generate_nd_expr(new_input_names)\n        else:\n            new_input_names = input_names\n\n        super().__init__(\n            self._func_to_wrap,\n            name,\n            f_type=f_type,\n            jac=self._jac_to_wrap,\n            expr=expr,\n            input_names=new_input_names,\n            dim=output_dim,\n            output_names=output_names,\n        )\n\n    def _func_to_wrap(self, x_vect: NumberArray) -> OutputType:\n        \"\"\"Return the linear combination with an offset.\n\n        :math:`sum_{i=1}^n a_i * x_i + b`\n\n        Args:\n            x_vect: The design variables values.\n        \"\"\"\n        value = self._coefficients @ x_vect + self._value_at_zero\n        if value.size == 1:\n            value = value[0]\n        return value\n\n    def _jac_to_wrap(self, _: Any) -> NumberArray:\n        \"\"\"Set and return the coefficients.\n\n        If the function is scalar, the gradient of the function is returned as a\n        1d-array. If the function is vectorial, the Jacobian of the function is\n        returned as a 2d-array.\n\n        Args:\n            _: This argument is not used.\n        \"\"\"\n        if self._coefficients.shape[0] == 1 and isinstance(self._coefficients, ndarray):\n            return self._coefficients[0, :]\n        return self._coefficients\n\n    @property\n    def coefficients(self) -> NumberArray:\n        \"\"\"The coefficient matrix of the linear function.\n\n        This is the matrix :math:`A` in the expression :math:`y=Ax+b`.\n        \"\"\"\n        return self._coefficients\n\n    @coefficients.setter\n    def coefficients(self, coefficients: SparseOrDenseRealArray) -> None:\n        if isinstance(coefficients, array_classes) and coefficients.ndim == 2:\n            self._coefficients = coefficients\n        elif isinstance(coefficients, array_classes) and coefficients.ndim == 1:\n            self._coefficients = coefficients.reshape((1, -1))\n        else:\n            msg = (\n                \"Coefficients must be passed as a 2-dimensional \"\n                \"or a 1-dimensional ndarray.\"\n            )\n            raise ValueError(msg)\n\n    @property\n    def value_at_zero(self) -> NumberArray:\n        \"\"\"The value of the function at zero.\n\n        This is the vector :math:`b` in the expression :math:`y=Ax+b`.\n\n        Raises:\n            ValueError: If the value at zero is neither a ndarray nor a number.\n        \"\"\"\n        return self._value_at_zero\n\n    @value_at_zero.setter\n    def value_at_zero(self, value_at_zero: OutputType) -> None:\n        output_dim = self.coefficients.shape[0]  # N.B. the coefficients must be set\n        if isinstance(value_at_zero, ndarray) and value_at_zero.size == output_dim:\n            self._value_at_zero = value_at_zero.reshape(output_dim)\n        elif isinstance(value_at_zero, Number):\n            self._value_at_zero = array([value_at_zero] * output_dim)\n        else:\n            msg = \"Value at zero must be an ndarray or a number.\"\n            raise ValueError(msg)\n\n    def _generate_1d_expr(self, input_names: Sequence[str]) -> str:\n        \"\"\"Generate the literal expression of the linear function in scalar form.\n\n        Args:\n            input_names: The names of the inputs of the function.\n\n        Returns:\n            The literal expression of the linear function in scalar form.\n        \"\"\"\n        pattern = self.COEFF_FORMAT_1D\n        strings = []\n        # Build the expression of the linear combination\n        first_non_zero_index = -1\n        if isinstance(self._coefficients, ndarray):\n            iterable = enumerate(self._coefficients[0, :])\n        else:\n            self._coefficients: csr_matrix\n            iterable = zip(self._coefficients.indices, self._coefficients.data)\n\n        for index, coefficient in iterable:\n            if coefficient != 0.0:\n                if first_non_zero_index == -1:\n                    first_non_zero_index = index\n                # Add the monomial sign\n                if index == first_non_zero_index and coefficient < 0.0:\n                    # The first nonzero coefficient is negative.\n                    strings.append(\"-\")  # unary minus\n                elif index != first_non_zero_index and coefficient < 0.0:\n                    strings.append(\" - \")\n                elif index != first_non_zero_index and coefficient > 0.0:\n                    strings.append(\" + \")\n                # Add the coefficient value\n                if abs(coefficient) != 1.0:\n                    strings.append(f\"{pattern.format(abs(coefficient))}*\")\n                # Add argument string\n                strings.append(input_names[index])\n\n        # Add the offset expression\n        value_at_zero = pattern.format(self._value_at_zero[0])\n        if first_non_zero_index == -1:\n            # Constant function\n            strings.append(value_at_zero)\n        elif self._value_at_zero > 0.0:\n            strings.append(f\" + {value_at_zero}\")\n        elif self._value_at_zero < 0.0:\n            strings.append(f\" - {value_at_zero}\")\n\n        return \"\".join(strings)\n\n    def _generate_nd_expr(self, input_names: Sequence[str]) -> str:\n        \"\"\"Generate the literal expression of the linear function in matrix form.\n\n        Args:\n            input_names: The names of the inputs of the function.\n\n        Returns:\n            The literal expression of the linear function in matrix form.\n        \"\"\"\n        max_input_name_len = max(len(input_name) for input_name in input_names)\n        out_dim, in_dim = self._coefficients.shape\n        strings = []\n        for i in range(max(out_dim, in_dim)):\n            if i > 0:\n                strings.append(\"\\n\")\n            # matrix line\n            if i < out_dim:\n                if isinstance(self._coefficients, ndarray):\n                    ith_row = self._coefficients[i, :]\n                else:\n                    self._coefficients: csr_matrix\n                    ith_row = get_row(self._coefficients, i).toarray().flatten()\n\n                coefficients = (\n                    self.COEFF_FORMAT_ND.format(coefficient) for coefficient in ith_row\n                )\n                strings.append(f\"[{' '.join(coefficients)}]\")\n            else:\n                strings.append(\" \" + \" \".join([\" \" * 3] * in_dim) + \" \")\n            # vector line\n            strings.extend((\n                f\"[{input_names[i]}]\" if i < in_dim else \" \" * (max_input_name_len + 2),\n                \" + \" if i == 0 else \"   \",\n            ))\n            # value at zero\n            if i < out_dim:\n                strings.append(\n                    f\"[{self.COEFF_FORMAT_ND.format(self._value_at_zero[i])}]\"\n                )\n        return \"\".join(strings)\n\n    def __neg__(self) -> MDOLinearFunction:  # noqa:D102\n        return self.__class__(\n            -self._coefficients,\n            f\"-{self.name}\",\n            self.f_type,\n            self.input_names,\n            -self._value_at_zero,\n            expr=self.__initial_expression,\n        )\n\n    def offset(self, value: OutputType) -> MDOLinearFunction:  # noqa:D102\n        return self.__class__(\n            self._coefficients,\n            self.name,\n            self.f_type,\n            self.input_names,\n            self._value_at_zero + value,\n            expr=self.__initial_expression,\n        )\n\n    def restrict(\n        self, frozen_indexes: ndarray[int], frozen_values: NumberArray\n    ) -> MDOLinearFunction:\n        \"\"\"Build a restriction of the linear function.\n\n        Args:\n            frozen_indexes: The indexes of the inputs that will be frozen.\n            frozen_values: The values of the inputs that will be frozen.\n\n        Returns:\n            The restriction of the linear function.\n\n        Raises:\n            ValueError: If the frozen indexes and values have different shapes.\n        \"\"\"\n        if frozen_indexes.shape != frozen_values.shape:\n            msg = \"Arrays of frozen indexes and values must have same shape.\"\n            raise ValueError(msg)\n        active_indexes = array([\n            index\n            for index in range(self.coefficients.shape[1])\n            if index not in frozen_indexes\n        ])\n        frozen_coefficients = self.coefficients[:, frozen_indexes]\n        new_value_at_zero = frozen_coefficients @ frozen_values + self._value_at_zero\n        new_coefficients = self.coefficients[:, active_indexes]\n        return self.__class__(\n            new_coefficients,\n            f\"{self.name}_restriction\",\n            input_names=[self.input_names[i] for i in active_indexes],\n            value_at_zero=new_value_at_zero,\n            expr=self.__initial_expression,\n        )\n\n    def normalize(self, input_space: DesignSpace) -> MDOLinearFunction:\n        \"\"\"Create a linear function using a scaled input vector.\n\n        Args:\n            input_space: The input space.\n\n        Returns:\n            The scaled linear function.\n        \"\"\"\n        # Get normalization factors and shift\n        norm_policies = input_space.convert_dict_to_array(input_space.normalize)\n        norm_factors = where(\n            norm_policies,\n            input_space.get_upper_bounds() - input_space.get_lower_bounds(),\n            1.0,\n        )\n        shift = where(norm_policies, input_space.get_lower_bounds(), 0.0)\n\n        if isinstance(self.coefficients, sparse_classes):\n            coefficients = deepcopy(self.coefficients)\n            coefficients.data *= norm_factors[coefficients.indices]\n        else:\n            coefficients = multiply(self.coefficients, norm_factors)\n\n        value_at_zero = self.evaluate(shift)\n        function = MDOLinearFunction(\n            coefficients,\n            self.name,\n            self.f_type,\n            self.input_names,\n            value_at_zero,\n        )\n        function.expects_normalized_inputs = True\n", "new": "\nfrom numbers import Number\nfrom typing import TYPE_CHECKING\nfrom typing import Any\n\nfrom numpy import array\nfrom numpy import multiply\nfrom numpy import ndarray\nfrom numpy import where\n\nfrom gemseo.core.mdo_functions.mdo_function import MDOFunction\nfrom gemseo.core.mdo_functions.mdo_function import OutputType\nfrom gemseo.utils.compatibility.scipy import array_classes\nfrom gemseo.utils.compatibility.scipy import get_row\nfrom gemseo.utils.compatibility.scipy import sparse_classes\n\nif TYPE_CHECKING:\n    from collections.abc import Sequence\n\n    from scipy.sparse import csr_matrix\n\n    from gemseo.algos.design_space import DesignSpace\n    from gemseo.typing import NumberArray\n    from gemseo.typing import SparseOrDenseRealArray\n\n\nclass MDOLinearFunction(MDOFunction):\n    r\"\"\"Linear multivariate function defined by.\n\n    * a matrix :math:`A` of first-order coefficients\n      :math:`(a_{ij})_{\\substack{i = 1, \\dots m \\\\ j = 1, \\dots n}}`\n    * and a vector :math:`b` of zero-order coefficients :math:`(b_i)_{i = 1, \\dots m}`\n\n    .. math::\n\n        F(x)\n        =\n        Ax + b\n        =\n        \\begin{bmatrix}\n            a_{11} & \\cdots & a_{1n} \\\\\n            \\vdots & \\ddots & \\vdots \\\\\n            a_{m1} & \\cdots & a_{mn}\n        \\end{bmatrix}\n        \\begin{bmatrix} x_1 \\\\ \\vdots \\\\ x_n \\end{bmatrix}\n        +\n        \\begin{bmatrix} b_1 \\\\ \\vdots \\\\ b_m \\end{bmatrix}.\n    \"\"\"\n\n    __initial_expression: str | None\n    \"\"\"The initially provided expression.\n\n    If ``None`` the expression is computed.\n    \"\"\"\n\n    def __init__(\n        self,\n        coefficients: SparseOrDenseRealArray,\n        name: str,\n        f_type: MDOFunction.FunctionType = MDOFunction.FunctionType.NONE,\n        input_names: Sequence[str] = (),\n        value_at_zero: OutputType = 0.0,\n        output_names: Sequence[str] = (),\n        expr: str | None = None,\n    ) -> None:\n        \"\"\"\n        Args:\n            coefficients: The coefficient matrix :math:`A` of the linear function.\n            value_at_zero: The value :math:`b` of the linear function output at zero.\n            expr: The expression of the function, if any.\n                If ``None``,\n                create an expression\n                from the coefficients and the value at zero.\n        \"\"\"  # noqa: D205, D212, D415\n        # Format the passed coefficients and value at zero\n        if isinstance(coefficients, sparse_classes):\n            coefficients = coefficients.tocsr()\n        self.coefficients = coefficients\n        output_dim, input_dim = self._coefficients.shape\n        self.value_at_zero = value_at_zero\n        self.__initial_expression = expr\n        if expr is None:\n            # Generate the arguments strings\n            new_input_names = self.__class__.generate_input_names(\n                input_dim, input_names\n            )\n            # Generate the expression string\n            if output_dim == 1:\n                expr = self._generate_1d_expr(new_input_names)\n            else:\n                expr = self._generate_nd_expr(new_input_names)\n        else:\n            new_input_names = input_names\n\n        super().__init__(\n            self._func_to_wrap,\n            name,\n            f_type=f_type,\n            jac=self._jac_to_wrap,\n            expr=expr,\n            input_names=new_input_names,\n            dim=output_dim,\n            output_names=output_names,\n        )\n\n    def _func_to_wrap(self, x_vect: NumberArray) -> OutputType:\n        \"\"\"Return the linear combination with an offset.\n\n        :math:`sum_{i=1}^n a_i * x_i + b`\n\n        Args:\n            x_vect: The design variables values.\n        \"\"\"\n        value = self._coefficients @ x_vect + self._value_at_zero\n        if value.size == 1:\n            value = value[0]\n        return value\n\n    def _jac_to_wrap(self, _: Any) -> NumberArray:\n        \"\"\"Set and return the coefficients.\n\n        If the function is scalar, the gradient of the function is returned as a\n        1d-array. If the function is vectorial, the Jacobian of the function is\n        returned as a 2d-array.\n\n        Args:\n            _: This argument is not used.\n        \"\"\"\n        if self._coefficients.shape[0] == 1 and isinstance(self._coefficients, ndarray):\n            return self._coefficients[0, :]\n        return self._coefficients\n\n    @property\n    def coefficients(self) -> NumberArray:\n        \"\"\"The coefficient matrix of the linear function.\n\n        This is the matrix :math:`A` in the expression :math:`y=Ax+b`.\n        \"\"\"\n        return self._coefficients\n\n    @coefficients.setter\n    def coefficients(self, coefficients: SparseOrDenseRealArray) -> None:\n        if isinstance(coefficients, array_classes) and coefficients.ndim == 2:\n            self._coefficients = coefficients\n        elif isinstance(coefficients, array_classes) and coefficients.ndim == 1:\n            self._coefficients = coefficients.reshape((1, -1))\n        else:\n            msg = (\n                \"Coefficients must be passed as a 2-dimensional \"\n                \"or a 1-dimensional ndarray.\"\n            )\n            raise ValueError(msg)\n\n    @property\n    def value_at_zero(self) -> NumberArray:\n        \"\"\"The value of the function at zero.\n\n        This is the vector :math:`b` in the expression :math:`y=Ax+b`.\n\n        Raises:\n            ValueError: If the value at zero is neither a ndarray nor a number.\n        \"\"\"\n        return self._value_at_zero\n\n    @value_at_zero.setter\n    def value_at_zero(self, value_at_zero: OutputType) -> None:\n        output_dim = self.coefficients.shape[0]  # N.B. the coefficients must be set\n        if isinstance(value_at_zero, ndarray) and value_at_zero.size == output_dim:\n            self._value_at_zero = value_at_zero.reshape(output_dim)\n        elif isinstance(value_at_zero, Number):\n            self._value_at_zero = array([value_at_zero] * output_dim)\n        else:\n            msg = \"Value at zero must be an ndarray or a number.\"\n            raise ValueError(msg)\n\n    def _generate_1d_expr(self, input_names: Sequence[str]) -> str:\n        \"\"\"Generate the literal expression of the linear function in scalar form.\n\n        Args:\n            input_names: The names of the inputs of the function.\n\n        Returns:\n            The literal expression of the linear function in scalar form.\n        \"\"\"\n        pattern = self.COEFF_FORMAT_1D\n        strings = []\n        # Build the expression of the linear combination\n        first_non_zero_index = -1\n        if isinstance(self._coefficients, ndarray):\n            iterable = enumerate(self._coefficients[0, :])\n        else:\n            self._coefficients: csr_matrix\n            iterable = zip(self._coefficients.indices, self._coefficients.data)\n\n        for index, coefficient in iterable:\n            if coefficient != 0.0:\n                if first_non_zero_index == -1:\n                    first_non_zero_index = index\n                # Add the monomial sign\n                if index == first_non_zero_index and coefficient < 0.0:\n                    # The first nonzero coefficient is negative.\n                    strings.append(\"-\")  # unary minus\n                elif index != first_non_zero_index and coefficient < 0.0:\n                    strings.append(\" - \")\n                elif index != first_non_zero_index and coefficient > 0.0:\n                    strings.append(\" + \")\n                # Add the coefficient value\n                if abs(coefficient) != 1.0:\n                    strings.append(f\"{pattern.format(abs(coefficient))}*\")\n                # Add argument string\n                strings.append(input_names[index])\n\n        # Add the offset expression\n        value_at_zero = pattern.format(self._value_at_zero[0])\n        if first_non_zero_index == -1:\n            # Constant function\n            strings.append(value_at_zero)\n        elif self._value_at_zero > 0.0:\n            strings.append(f\" + {value_at_zero}\")\n        elif self._value_at_zero < 0.0:\n            strings.append(f\" - {value_at_zero}\")\n\n        return \"\".join(strings)\n\n    def _generate_nd_expr(self, input_names: Sequence[str]) -> str:\n        \"\"\"Generate the literal expression of the linear function in matrix form.\n\n        Args:\n            input_names: The names of the inputs of the function.\n\n        Returns:\n            The literal expression of the linear function in matrix form.\n        \"\"\"\n        max_input_name_len = max(len(input_name) for input_name in input_names)\n        out_dim, in_dim = self._coefficients.shape\n        strings = []\n        for i in range(max(out_dim, in_dim)):\n            if i > 0:\n                strings.append(\"\\n\")\n            # matrix line\n            if i < out_dim:\n                if isinstance(self._coefficients, ndarray):\n                    ith_row = self._coefficients[i, :]\n                else:\n                    self._coefficients: csr_matrix\n                    ith_row = get_row(self._coefficients, i).toarray().flatten()\n\n                coefficients = (\n                    self.COEFF_FORMAT_ND.format(coefficient) for coefficient in ith_row\n                )\n                strings.append(f\"[{' '.join(coefficients)}]\")\n            else:\n                strings.append(\" \" + \" \".join([\" \" * 3] * in_dim) + \" \")\n            # vector line\n            strings.extend((\n                f\"[{input_names[i]}]\" if i < in_dim else \" \" * (max_input_name_len + 2),\n                \" + \" if i == 0 else \"   \",\n            ))\n            # value at zero\n            if i < out_dim:\n                strings.append(\n                    f\"[{self.COEFF_FORMAT_ND.format(self._value_at_zero[i])}]\"\n                )\n        return \"\".join(strings)\n\n    def __neg__(self) -> MDOLinearFunction:  # noqa:D102\n        return self.__class__(\n            -self._coefficients,\n            f\"-{self.name}\",\n            self.f_type,\n            self.input_names,\n            -self._value_at_zero,\n            expr=self.__initial_expression,\n        )\n\n    def offset(self, value: OutputType) -> MDOLinearFunction:  # noqa:D102\n        return self.__class__(\n            self._coefficients,\n            self.name,\n            self.f_type,\n            self.input_names,\n            self._value_at_zero + value,\n            expr=self.__initial_expression,\n        )\n\n    def restrict(\n        self, frozen_indexes: ndarray[int], frozen_values: NumberArray\n    ) -> MDOLinearFunction:\n        \"\"\"Build a restriction of the linear function.\n\n        Args:\n            frozen_indexes: The indexes of the inputs that will be frozen.\n            frozen_values: The values of the inputs that will be frozen.\n\n        Returns:\n            The restriction of the linear function.\n\n        Raises:\n            ValueError: If the frozen indexes and values have different shapes.\n        \"\"\"\n        if frozen_indexes.shape != frozen_values.shape:\n            msg = \"Arrays of frozen indexes and values must have same shape.\"\n            raise ValueError(msg)\n        active_indexes = array([\n            index\n            for index in range(self.coefficients.shape[1])\n            if index not in frozen_indexes\n        ])\n        frozen_coefficients = self.coefficients[:, frozen_indexes]\n        new_value_at_zero = frozen_coefficients @ frozen_values + self._value_at_zero\n        new_coefficients = self.coefficients[:, active_indexes]\n        return self.__class__(\n            new_coefficients,\n            f\"{self.name}_restriction\",\n            input_names=[self.input_names[i] for i in active_indexes],\n            value_at_zero=new_value_at_zero,\n            expr=self.__initial_expression,\n        )\n\n    def normalize(self, input_space: DesignSpace) -> MDOLinearFunction:\n        \"\"\"Create a linear function using a scaled input vector.\n\n        Args:\n            input_space: The input space.\n\n        Returns:\n            The scaled linear function.\n        \"\"\"\n        # Get normalization factors and shift\n        norm_policies = input_space.convert_dict_to_array(input_space.normalize)\n        norm_factors = where(\n            norm_policies,\n            input_space.get_upper_bounds() - input_space.get_lower_bounds(),\n            1.0,\n        )\n        shift = where(norm_policies, input_space.get_lower_bounds(), 0.0)\n\n        # Create the function of the normalized inputs, then scale its coefficients.\n        function = MDOLinearFunction(\n            self.coefficients,\n            self.name,\n            self.f_type,\n            self.input_names,\n            self.evaluate(shift),\n        )\n        coefficients = function.coefficients\n        if isinstance(coefficients, sparse_classes):\n            # N.B. the coefficients are in CSR format: indices are column indices.\n            coefficients.data *= norm_factors[coefficients.indices]\n        else:\n            function.coefficients = multiply(coefficients, norm_factors)\n\n        function.expects_normalized_inputs = True\n", "expect": "1.8", "note": "MDOLinearFunction.normalize builds the normalized function on the original coeff"},
    {"name": "seeded-C01-10", "file": "utils/derivatives/finite_differences.py", "old": "from numpy import zeros\n\nfrom gemseo.core.parallel_execution.callable_parallel_execution import (\n    CallableParallelExecution,\n)\nfrom gemseo.utils.derivatives.approximation_modes import ApproximationMode\nfrom gemseo.utils.derivatives.base_gradient_approximator import BaseGradientApproximator\nfrom gemseo.utils.derivatives.error_estimators import EPSILON\nfrom gemseo.utils.derivatives.error_estimators import compute_best_step\n\n\nclass FirstOrderFD(BaseGradientApproximator):\n    r\"\"\"First-order finite differences approximator.\n\n    .. math::\n\n        \\frac{df(x)}{dx}\\approx\\frac{f(x+\\\\delta x)-f(x)}{\\\\delta x}\n    \"\"\"\n\n    _APPROXIMATION_MODE = ApproximationMode.FINITE_DIFFERENCES\n\n    _DEFAULT_STEP: ClassVar[float] = 1.0e-6\n\n    def _compute_parallel_grad(\n        self,\n        input_values: ndarray,\n        input_perturbations: ndarray,\n        step: float | ndarray,\n        **kwargs: Any,\n    ) -> ndarray:\n        n_perturbations = input_perturbations.shape[1]\n        if step is None:\n            step = self.step\n\n        if not isinstance(step, ndarray):\n            step = full(n_perturbations, step)\n\n        self._function_kwargs = kwargs\n        functions = [self._wrap_function] * (n_perturbations + 1)\n        parallel_execution = CallableParallelExecution(functions, **self._parallel_args)\n\n        perturbated_inputs = [\n            input_perturbations[:, perturbation_index]\n            for perturbation_index in range(n_perturbations)\n        ]\n        initial_and_perturbated_outputs = parallel_execution.execute([\n            input_values,\n            *perturbated_inputs,\n        ])\n\n        gradient = []\n        initial_output = initial_and_perturbated_outputs[0]\n        for perturbation_index in range(n_perturbations):\n            perturbated_output = initial_and_perturbated_outputs[perturbation_index + 1]\n            g_approx = (perturbated_output - initial_output) / step[perturbation_index]\n            gradient.append(g_approx.real)\n", "new": "from numpy import zeros\nfrom numpy.linalg import norm\n\nfrom gemseo.core.parallel_execution.callable_parallel_execution import (\n    CallableParallelExecution,\n)\nfrom gemseo.utils.derivatives.approximation_modes import ApproximationMode\nfrom gemseo.utils.derivatives.base_gradient_approximator import BaseGradientApproximator\nfrom gemseo.utils.derivatives.error_estimators import EPSILON\nfrom gemseo.utils.derivatives.error_estimators import compute_best_step\n\n\nclass FirstOrderFD(BaseGradientApproximator):\n    r\"\"\"First-order finite differences approximator.\n\n    .. math::\n\n        \\frac{df(x)}{dx}\\approx\\frac{f(x+\\\\delta x)-f(x)}{\\\\delta x}\n    \"\"\"\n\n    _APPROXIMATION_MODE = ApproximationMode.FINITE_DIFFERENCES\n\n    _DEFAULT_STEP: ClassVar[float] = 1.0e-6\n\n    def _compute_parallel_grad(\n        self,\n        input_values: ndarray,\n        input_perturbations: ndarray,\n        step: float | ndarray,\n        **kwargs: Any,\n    ) -> ndarray:\n        n_perturbations = input_perturbations.shape[1]\n        self._function_kwargs = kwargs\n        functions = [self._wrap_function] * (n_perturbations + 1)\n        parallel_execution = CallableParallelExecution(functions, **self._parallel_args)\n\n        perturbated_inputs = [\n            input_perturbations[:, perturbation_index]\n            for perturbation_index in range(n_perturbations)\n        ]\n        initial_and_perturbated_outputs = parallel_execution.execute([\n            input_values,\n            *perturbated_inputs,\n        ])\n\n        gradient = []\n        initial_output = initial_and_perturbated_outputs[0]\n        for perturbation_index in range(n_perturbations):\n            perturbated_output = initial_and_perturbated_outputs[perturbation_index + 1]\n            # The effective step is the distance between the two points.\n            g_approx = (perturbated_output - initial_output) / norm(\n                perturbated_inputs[perturbation_index] - input_values\n            )\n            gradient.append(g_approx.real)\n", "expect": "1.11", "note": "Parallel finite differences divide by the distance between the points instead of"},
    {"name": "zero-range-replaced-in-both-directions", "file": DS, "old": "        self._norm_factor = self.__upper_bounds_array - self.__lower_bounds_array\n", "new": "        self._norm_factor = self.__upper_bounds_array - self.__lower_bounds_array\n        self._norm_factor = where(self._norm_factor == 0.0, 1.0, self._norm_factor)\n", "expect": "1.6"},
    {"name": "drop-normalize_grad", "file": _EP, "old": "jac_seq = (ds.unnormalize_vect, function.jac, *args, ds.normalize_grad)", "new": "jac_seq = (ds.unnormalize_vect, function.jac, *args)", "expect": "1.1"},
    {"name": "swap-unnormalize-round", "file": _EP, "old": "func_seq = (ds.unnormalize_vect, ds.round_vect, function.func)", "new": "func_seq = (ds.round_vect, ds.unnormalize_vect, function.func)", "expect": "1.1"},
    {"name": "expects-false-in-normalising-branch", "file": _EP, "old": "        elif is_function_input_normalized:\n            expects_normalized_inputs = True", "new": "        elif is_function_input_normalized:\n            expects_normalized_inputs = False", "expect": "1.1"},
    {"name": "no-round-in-round-branch", "file": _EP, "old": "func_seq = (ds.round_vect, function.func)", "new": "func_seq = (function.func,)", "expect": "1.1"},
    {"name": "swap-seq-wiring", "file": _EP, "old": "            function,\n            func_seq,\n            jac_seq,\n", "new": "            function,\n            jac_seq,\n            func_seq,\n", "expect": "1.1"},
    {"name": "hash-normalised-point", "file": PF, "old": "        hashed_xu = database.get_hashable_ndarray(xu_vect)\n        output_value =", "new": "        hashed_xu = database.get_hashable_ndarray(xn_vect)\n        output_value =", "expect": "1.2"},
    {"name": "store-normalised-jacobian", "file": PF, "old": "database.store(hashed_xu, {self._gradient_name: jac_u})", "new": "database.store(hashed_xu, {self._gradient_name: jac_n})", "expect": "1.2"},
    {"name": "return-physical-jacobian", "file": PF, "old": "        return jac_n.real", "new": "        return jac_u.real", "expect": "1.2"},
    {"name": "no-normalize-on-hit", "file": PF, "old": "            jac_n = self._normalize_grad(jac_u)", "new": "            jac_n = jac_u", "expect": "1.2"},
    {"name": "jacobian-under-output-name", "file": PF, "old": "        name = self._gradient_name\n        self.check_function_output_includes_nan(input_value)", "new": "        name = self.name\n        self.check_function_output_includes_nan(input_value)", "expect": "1.2"},
    {"name": "compute-with-physical-point-in-norm-variant", "file": PF, "old": "output_value = self._compute_output(xn_vect)", "new": "output_value = self._compute_output(xu_vect)", "expect": "1.2"},
    {"name": "delete-is-none-test", "file": PF, "old": "        output_value = database.get_function_value(name, hashed_xu)\n        if output_value is None:", "new": "        output_value = database.get_function_value(name, hashed_xu)\n        if True:", "expect": "1.3"},
    {"name": "delete-store", "file": PF, "old": "            database.store(hashed_xu, {name: output_value})\n", "new": "            pass\n", "expect": "1."},
    {"name": "store-jacobian-unconditionally-skipped", "file": PF, "old": "            if self.__store_jacobian:\n                database.store(hashed_xu, {name: jacobian})", "new": "            if self.__store_jacobian and self.stop_if_nan:\n                database.store(hashed_xu, {name: jacobian})", "expect": "1.4"},
    {"name": "key-not-copied", "file": DB, "old": "self.get_hashable_ndarray(x_vect, True)", "new": "self.get_hashable_ndarray(x_vect, False)", "expect": "1.6"},
    {"name": "wrapper-never-copies", "file": HN, "old": "self.__array = np_array(array) if copy else array", "new": "self.__array = array", "expect": "1.6"},
    {"name": "hash-only-equality", "file": HN, "old": "        return array_equal(self.__array, other.__array)", "new": "        return True", "expect": "1.6"},
    {"name": "minus_lb-default-in-normalize_grad", "file": DS, "old": "return self.unnormalize_vect(g_vect, minus_lb=False, no_check=True)", "new": "return self.unnormalize_vect(g_vect, no_check=True)", "expect": "1.5"},
    {"name": "unnormalize_grad-uses-unnormalize", "file": DS, "old": "        return self.normalize_vect(g_vect, minus_lb=False)", "new": "        return self.unnormalize_vect(g_vect, minus_lb=False)", "expect": "1.5"},
    {"name": "parameter-space-drops-minus_lb", "file": "algos/parameter_space.py", "old": "return super().normalize_vect(x_vect, minus_lb=minus_lb, out=out)", "new": "return super().normalize_vect(x_vect, out=out)", "expect": "1.5"},
    {"name": "foreign-writer-of-data", "file": DB, "old": "    def add_store_listener(self, function: ListenerType) -> bool:", "new": "    def forget(self, x) -> None:\n        self.__data.pop(x, None)\n\n    def add_store_listener(self, function: ListenerType) -> bool:", "expect": "1.7"},
    {"name": "linear-factor-reversed", "file": LF, "old": "input_space.get_upper_bounds() - input_space.get_lower_bounds(),", "new": "input_space.get_lower_bounds() - input_space.get_upper_bounds(),", "expect": "1.8"},
    {"name": "linear-shift-upper", "file": LF, "old": "shift = where(norm_policies, input_space.get_lower_bounds(), 0.0)", "new": "shift = where(norm_policies, input_space.get_upper_bounds(), 0.0)", "expect": "1.8"},
    {"name": "linear-coefficients-divided", "file": LF, "old": "coefficients = multiply(self.coefficients, norm_factors)", "new": "coefficients = self.coefficients / norm_factors", "expect": "1.8"},
    {"name": "linear-constant-at-zero", "file": LF, "old": "value_at_zero = self.evaluate(shift)", "new": "value_at_zero = self.evaluate(0 * shift)", "expect": "1.8"},
]
TWINS = [
    {"name": "rename-local-hashed_xu", "file": PF, "old": "hashed_xu", "new": "key_u", "count": 0},
    {"name": "mirror-is-none", "file": PF, "old": "        if jac_u is None:", "new": "        if None is jac_u:"},
    {"name": "alias-name-local", "file": PF, "old": "        output_value = database.get_function_value(self.name, hashed_xu)", "new": "        fname = self.name\n        output_value = database.get_function_value(fname, hashed_xu)"},
    {"name": "ds-alias-removed", "file": _EP, "old": "func_seq = (ds.unnormalize_vect, function.func)", "new": "func_seq = (self.design_space.unnormalize_vect, function.func)"},
    {"name": "copy-kwarg", "file": DB, "old": "self.get_hashable_ndarray(x_vect, True)", "new": "self.get_hashable_ndarray(x_vect, copy=True)"},
]
