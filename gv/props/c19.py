"""C19 -- distributions and parameter spaces: the structural clauses.

Decided here (on the source, nothing imported or run):

19.1  the deterministic (``use_dist=False``) path of ``ParameterSpace.(un)normalize_vect`` and the
      geometric part of the probabilistic path forward every shared parameter to ``DesignSpace``.
19.2  ``transform_vect``/``untransform_vect`` pair ``evaluate_cdf(inverse=False)`` with
      ``evaluate_cdf(inverse=True)``, split and concatenate with the same name order, fall back to
      the affine map exactly for the names without a marginal; ``evaluate_cdf`` picks the inverse
      cdf iff ``inverse`` and reads/writes the dictionaries under the loop's own name.
19.3  the SciPy/OpenTURNS wrappers and the joint distributions delegate every quantity to the
      library routine of that meaning (frozen table), marginal by marginal in the marginals' order.
19.4  SciPy- and OpenTURNS-based classes of one law have the same signature and describe the same
      law: the OpenTURNS parameter tuple, converted with the documented OpenTURNS->SciPy
      parameter map, equals the SciPy keyword parameters as algebraic terms; the log-normal
      re-parameterisation satisfies the analytical mean/standard-deviation identities.
19.5  ``range`` is built from the numerical bounds, ``support`` from the mathematical ones, the
      joint bounds from the marginals' attribute of the same name; infinite bounds get the right sign.
19.6  the parameter space keeps ``uncertain_variables``, ``distributions`` and the joint
      ``distribution`` in step (every mutation is followed by a rebuild, the rebuild assigns the
      joint on every path), random variables enter the design space with the support as bounds.
19.7  empirical and parametric statistics implement the same functional under one method name.
"""

from __future__ import annotations

import ast

from gv import rules
from gv import symexpr
from gv.astutil import mangle
from gv.astutil import AnalysisError
from gv.astutil import as_update
from gv.astutil import decorator_names
from gv.astutil import dotted
from gv.astutil import kwarg
from gv.astutil import last_attr
from gv.astutil import norm_stmt
from gv.astutil import param_names
from gv.astutil import stmts_of
from gv.astutil import walk_body
from gv.cfg import cfg_of
from gv.props.shared import literal_facts
from gv.props.shared import unfolded
from gv.props import describe
from gv.props.shared import conj_literals
from gv.report import Ctx
from gv.report import cname

PS = "algos/parameter_space.py"
DS = "algos/design_space.py"
UD = "uncertainty/distributions/"
BD = UD + "base_distribution.py"
BJ = UD + "base_joint.py"
SPD = UD + "scipy/distribution.py"
OTD = UD + "openturns/distribution.py"
SPJ = UD + "scipy/joint.py"
OTJ = UD + "openturns/joint.py"
LNU = UD + "_log_normal_utils.py"
ES = "uncertainty/statistics/empirical_statistics.py"
PST = "uncertainty/statistics/parametric_statistics.py"

describe(
    "C19",
    explanation=(
        "cdf/inverse-cdf identities, sample supports, moments of the third-party laws, numerical SciPy/OpenTURNS "
        "agreement and the convergence of estimators are numerical and NOT decided. Decided on the source: the "
        "deterministic path and the affine part of the probabilistic path forward every parameter to DesignSpace; "
        "transform/untransform pair cdf with inverse cdf, use one name order and fall back to the affine map exactly "
        "for variables without a marginal; the wrappers delegate to the library routine of the same meaning; the "
        "SciPy and OpenTURNS classes of one law have one signature and, through the documented parameter "
        "conversion, the same parameters as algebraic terms (the log-normal re-parameterisation is checked against "
        "the analytical mean and standard deviation); range/support/bounds use the attribute of the same meaning; "
        "the parameter space rebuilds its joint distribution after every change of its random variables; empirical "
        "and parametric statistics compute the same functional under one name."
    ),
    decided=[
        "19.1 parameter forwarding to DesignSpace",
        "19.2 transform/untransform pairing, name order, affine fallback, evaluate_cdf polarity and keys",
        "19.3 wrapper delegation table (SciPy, OpenTURNS, joints)",
        "19.4 SciPy/OpenTURNS sibling signatures and parameter agreement (symbolic-constant terms), log-normal identities",
        "19.5 range/support/bounds attribute agreement and infinity signs",
        "19.6 uncertain_variables / distributions / joint distribution kept in step",
        "19.7 empirical vs parametric estimator agreement",
    ],
    not_decided=[
        "cdf(icdf(p)) = p and sample supports for every law and parameter value",
        "numerical agreement of SciPy and OpenTURNS evaluations",
        "moments reported by the third-party libraries",
        "convergence of empirical statistics, tolerance intervals, fitting criteria",
    ],
    trusted=[
        "SciPy's (loc, scale, shape) and OpenTURNS' positional parameterisations of the seven laws as documented (table FAMILIES)",
        "meaning of the library routines in the delegation and estimator tables",
    ],
)

ACCEPTED_NAME_ORDERS = {"self._variables.keys()", "self._variables", "self.variable_names", "self"}


# ---------------------------------------------------------------- helpers
def _defs(func: ast.AST) -> dict[str, list[ast.AST]]:
    out: dict[str, list[ast.AST]] = {}
    for s in stmts_of(func):
        if isinstance(s, ast.Assign):
            for t in s.targets:
                if isinstance(t, ast.Name):
                    out.setdefault(t.id, []).append(s.value)
                elif isinstance(t, ast.Tuple) and isinstance(s.value, ast.Tuple) and len(t.elts) == len(s.value.elts):
                    for a, b in zip(t.elts, s.value.elts):
                        if isinstance(a, ast.Name):
                            out.setdefault(a.id, []).append(b)
                elif isinstance(t, ast.Tuple):
                    for a in t.elts:
                        if isinstance(a, ast.Name):
                            out.setdefault(a.id, []).append(s.value)
        elif isinstance(s, (ast.AugAssign, ast.AnnAssign)) and isinstance(s.target, ast.Name) and s.value is not None:
            out.setdefault(s.target.id, []).append(s.value)
    return out


def _resolve(e: ast.AST | None, defs: dict, depth: int = 0) -> ast.AST | None:
    while isinstance(e, ast.Name) and len(defs.get(e.id, ())) == 1 and depth < 4:
        e = defs[e.id][0]
        depth += 1
    return e


def _facts(cfg, node: int) -> dict[str, bool]:
    """Truth value of plain names on every path reaching ``node``."""
    out: dict[str, bool] = {}
    for (t, v), b in cfg.branch.items():
        if not cfg.dominates(b, node):
            continue
        test = getattr(cfg.ast[t], "test", None)
        if test is None:
            continue
        lits = conj_literals(test)
        if v:
            for pol, e in lits:
                if isinstance(e, ast.Name):
                    out[e.id] = pol
        elif len(lits) == 1 and isinstance(lits[0][1], ast.Name):
            out[lits[0][1].id] = not lits[0][0]
    return out


def _calls(func: ast.AST, name: str) -> list[ast.Call]:
    return [c for c in walk_body(func) if isinstance(c, ast.Call) and last_attr(c) == name]


def _first_param(f: ast.FunctionDef) -> str:
    return [p for p in param_names(f) if p != "self"][0]


def _arg(call: ast.Call, pos: int, name: str | None = None) -> ast.AST | None:
    """Argument of a call by position or, when the parameter can be named, by keyword."""
    if name is not None:
        k = kwarg(call, name)
        if k is not None:
            return k
    if pos < len(call.args) and not any(isinstance(a, ast.Starred) for a in call.args[: pos + 1]):
        return call.args[pos]
    return None


def _property_value(cls, e: ast.AST | None) -> ast.AST | None:
    """``self.p`` -> the expression returned by the read-only property ``p`` of ``cls`` (docstring + one return)."""
    if isinstance(e, ast.Attribute) and dotted(e.value) == "self":
        m = cls.methods.get(e.attr)
        if m is not None and "property" in decorator_names(m):
            body = [b for b in m.body if not (isinstance(b, ast.Expr) and isinstance(b.value, ast.Constant))]
            if len(body) == 1 and isinstance(body[0], ast.Return) and body[0].value is not None:
                return body[0].value
    return e


def _memberships(test: ast.AST, rename: dict[str, str] | None = None) -> list[tuple[bool, ast.AST, ast.AST]] | None:
    """A conjunction of membership tests as [(is member, element, container)]; None for anything else."""
    out = []
    for pol, e in conj_literals(test):
        if not (isinstance(e, ast.Compare) and len(e.ops) == 1 and isinstance(e.ops[0], (ast.In, ast.NotIn))):
            return None
        left = e.left
        if rename and isinstance(left, ast.Name) and left.id in rename:
            left = ast.Name(id=rename[left.id], ctx=ast.Load())
        out.append((pol if isinstance(e.ops[0], ast.In) else not pol, left, e.comparators[0]))
    return out


def _selected_names(cls, loop: ast.For, defs: dict) -> tuple[str, ast.AST, list, list[ast.stmt]] | None:
    """The elements a loop acts on: (loop variable, iterated collection, membership conditions, guarded body).

    ``for n in [m for m in X if c(m)]: B``, ``for n in X: if c(n): B``, ``for n in X: if not c(n): continue; B`` and a
    read-only property returning such a comprehension all give (n, X, [c], B).  None when the selection is made of
    anything else than membership tests on the loop variable.
    """
    if not isinstance(loop.target, ast.Name) or loop.orelse:
        return None
    lv = loop.target.id
    over = _property_value(cls, _resolve(loop.iter, defs))
    conds: list = []
    while isinstance(over, (ast.ListComp, ast.GeneratorExp)):
        if len(over.generators) != 1 or over.generators[0].is_async:
            return None
        g = over.generators[0]
        if not (isinstance(g.target, ast.Name) and isinstance(over.elt, ast.Name) and over.elt.id == g.target.id):
            return None
        for t in g.ifs:
            ms = _memberships(t, {g.target.id: lv})
            if ms is None:
                return None
            conds += ms
        over = _property_value(cls, _resolve(g.iter, defs) if isinstance(g.iter, ast.Name) and g.iter.id != g.target.id else g.iter)
    body = list(loop.body)
    while body and isinstance(body[0], ast.If):
        first = body[0]
        if len(body) == 1 and not first.orelse:
            ms = _memberships(first.test)
            body = list(first.body)
        elif not first.orelse and len(first.body) == 1 and isinstance(first.body[0], ast.Continue):
            ms = _memberships(ast.UnaryOp(op=ast.Not(), operand=first.test))
            body = body[1:]
        else:
            return None
        if ms is None:
            return None
        conds += ms
    return lv, over, conds, body


# ---------------------------------------------------------------- 19.1
def check_forwarding(ctx: Ctx) -> None:
    ds = ctx.index.cls(DS, "DesignSpace")
    rules.rule_forwarding(ctx, "19.1-forwarding", ds, ["normalize_vect", "unnormalize_vect"], "the deterministic path of a parameter space is the design-space map")
    ps = ctx.index.cls(PS, "ParameterSpace")
    n = 0
    for mname, f in ps.methods.items():
        for call in rules.super_calls(f):
            m = call.func.attr
            if m not in ("normalize_vect", "unnormalize_vect") or mname == m:
                continue
            own = [p for p in param_names(f) if p != "self"]
            theirs = [p for p in param_names(ds.methods[m]) if p != "self"]
            shared = [p for p in own if p in theirs]
            passed = {theirs[i] for i, a in enumerate(call.args) if i < len(theirs) and isinstance(a, ast.Name) and a.id == theirs[i]}
            passed |= {k.arg for k in call.keywords if isinstance(k.value, ast.Name) and k.value.id == k.arg}
            missing = [p for p in shared if p not in passed]
            n += 1
            ctx.ob("19.1-forwarding", cname(PS, "ParameterSpace", mname), not missing, f"the affine part of the probabilistic map drops {missing} when delegating to DesignSpace.{m}", node=call)
    ctx.floor("19.1-forwarding", 4)


# ---------------------------------------------------------------- 19.2
def check_transform_pair(ctx: Ctx) -> None:
    idx = ctx.index
    for mname, callee, extra in (("transform_vect", "normalize_vect", ["out"]), ("untransform_vect", "unnormalize_vect", ["no_check", "out"])):
        f = idx.method(PS, "ParameterSpace", mname)
        con = cname(PS, "ParameterSpace", mname)
        rets = [s for s in stmts_of(f) if isinstance(s, ast.Return)]
        ok = len(rets) == 1 and isinstance(rets[0].value, ast.Call) and norm_stmt(rets[0].value.func) == f"self.{callee}"
        node = rets[0] if rets else f
        if ok:
            c = rets[0].value
            ud = kwarg(c, "use_dist")
            ok = bool(c.args) and dotted(c.args[0]) == _first_param(f) and isinstance(ud, ast.Constant) and ud.value is True
            ok = ok and all(dotted(kwarg(c, p)) == p for p in extra)
        ctx.ob("19.2-entry", con, ok, f"{mname} must be self.{callee}(<vector>, use_dist=True) with {extra} forwarded: it is the probability integral transform of the DOE libraries", node=node)

    for mname, helper, inverse in (("normalize_vect", "__normalize_vect", False), ("unnormalize_vect", "__unnormalize_vect", True)):
        f = idx.method(PS, "ParameterSpace", mname)
        con = cname(PS, "ParameterSpace", mname)
        cfg = cfg_of(f)
        hc = _calls(f, helper)
        sc = rules.super_calls(f, mname)
        ok = len(hc) == 1 and bool(sc)
        if ok:
            hn = cfg.node_of(rules.enclosing_stmt(f, hc[0]))
            ok = _facts(cfg, hn).get("use_dist") is True and dotted(hc[0].args[0]) == _first_param(f) if hc[0].args else False
            for c in sc:
                ok = ok and _facts(cfg, cfg.node_of(rules.enclosing_stmt(f, c))).get("use_dist") is False
            own = [p for p in param_names(f) if p != "self"]
            hp = [p for p in param_names(idx.method(PS, "ParameterSpace", helper)) if p != "self"]
            ok = ok and [dotted(a) for a in hc[0].args] == hp and all(p in own for p in hp)
        ctx.ob("19.2-dispatch", con, bool(ok), f"{mname}: the probabilistic map must be used exactly when use_dist is true, the DesignSpace map exactly when it is false, both on the caller's vector and parameters", node=(hc or [f])[0], stmt=f"{mname} dispatches on use_dist")

        h = idx.method(PS, "ParameterSpace", helper)
        conh = cname(PS, "ParameterSpace", helper)
        defs = _defs(h)
        x = _first_param(h)
        # name order and sizes of every split / concatenate
        splits = _calls(h, "split_array_to_dict_of_arrays")
        concats = _calls(h, "concatenate_dict_of_arrays_to_array")
        ctx.ob("19.2-order", conh, len(splits) == 2 and len(concats) == 1, "the probabilistic map splits the vector and the affine image once each and concatenates once", node=h, stmt="two splits, one concatenation")
        orders = set()
        for c in splits:
            names = norm_stmt(_resolve(c.args[2] if len(c.args) > 2 else kwarg(c, "names"), defs))
            sizes = norm_stmt(_resolve(c.args[1] if len(c.args) > 1 else kwarg(c, "names_to_sizes"), defs))
            orders.add(names)
            ctx.ob("19.2-order", conh, names in ACCEPTED_NAME_ORDERS and sizes == "self.variable_sizes", f"the vector is split with names `{names}` and sizes `{sizes}` instead of the variables of the space in their order", node=c)
        for c in concats:
            names = norm_stmt(_resolve(c.args[1] if len(c.args) > 1 else kwarg(c, "names"), defs))
            orders.add(names)
            ctx.ob("19.2-order", conh, names in ACCEPTED_NAME_ORDERS, f"the result is concatenated in the order `{names}` instead of the order of the variables of the space", node=c)
        # cdf direction
        ec = _calls(h, "evaluate_cdf")
        ok = len(ec) == 1
        res_var = None
        if ok:
            c = ec[0]
            inv = c.args[1] if len(c.args) > 1 else kwarg(c, "inverse")
            val = inv.value if isinstance(inv, ast.Constant) else (False if inv is None else None)
            src = _resolve(c.args[0], defs) if c.args else None
            from_x = isinstance(src, ast.Call) and last_attr(src) == "split_array_to_dict_of_arrays" and src.args and dotted(src.args[0]) == x
            ok = val is inverse and bool(from_x)
            st = rules.enclosing_stmt(h, c)
            if isinstance(st, ast.Assign) and isinstance(st.targets[0], ast.Name):
                res_var = st.targets[0].id
        ctx.ob("19.2-direction", conh, ok, f"{helper} must evaluate the {'inverse ' if inverse else ''}cumulative distribution functions (inverse={inverse}) of the caller's own vector", node=(ec or [h])[0])
        # affine fallback
        geo = None
        for name, vals in defs.items():
            for v in vals:
                if isinstance(v, ast.Call) and last_attr(v) == "split_array_to_dict_of_arrays" and v.args and isinstance(v.args[0], ast.Name) and v.args[0].id != x:
                    inner = [d for d in defs.get(v.args[0].id, []) if isinstance(d, ast.Call) and isinstance(d.func, ast.Attribute) and d.func.attr == mname and norm_stmt(d.func.value) == "super()"]
                    if inner and inner[0].args and dotted(inner[0].args[0]) == x:
                        geo = name
        ok = False
        node = h
        # the names with a marginal: the keys of evaluate_cdf's result (19.2-keys), i.e. the uncertain variables, i.e.
        # the keys of self.distributions (19.6)
        with_marginal = {res_var, "self.uncertain_variables", "self.distributions", "self.distributions.keys()"}
        for loop in [s for s in stmts_of(h) if isinstance(s, ast.For)]:
            sel = _selected_names(idx.cls(PS, "ParameterSpace"), loop, defs)
            if sel is None:
                continue
            lv, over, conds, body = sel
            cond_ok = len(conds) == 1 and conds[0][0] is False and dotted(conds[0][1]) == lv and bool({norm_stmt(conds[0][2]), norm_stmt(_resolve(conds[0][2], defs))} & with_marginal)
            asg = len(body) == 1 and isinstance(body[0], ast.Assign) and len(body[0].targets) == 1 and norm_stmt(body[0].targets[0]) == f"{res_var}[{lv}]" and norm_stmt(body[0].value) == f"{geo}[{lv}]"
            node = loop
            ok = bool(cond_ok and norm_stmt(_resolve(over, defs)) in ACCEPTED_NAME_ORDERS and asg and geo and res_var)
        ctx.ob("19.2-fallback", conh, ok, f"{helper}: exactly the variables without a marginal distribution must take the value of DesignSpace.{mname} of the same vector, under their own name", node=node, stmt="affine fallback for names missing from the marginals")
        rets = [s for s in stmts_of(h) if isinstance(s, ast.Return)]
        ok = len(rets) == 1 and concats and rets[0].value is concats[0] and dotted(concats[0].args[0]) == res_var
        ctx.ob("19.2-fallback", conh, bool(ok), f"{helper} must return the concatenation of the completed dictionary", node=(rets or [h])[0])

    # evaluate_cdf
    f = idx.method(PS, "ParameterSpace", "evaluate_cdf")
    con = cname(PS, "ParameterSpace", "evaluate_cdf")
    defs = _defs(f)
    ga = [c for c in walk_body(f) if isinstance(c, ast.Call) and dotted(c.func) == "getattr"]
    pol = None
    if len(ga) == 1 and len(ga[0].args) >= 2:
        # the attribute name under each value of ``inverse``, whether selected by a conditional expression or statement
        st_ga = rules.enclosing_stmt(f, ga[0])

        def selected(value: bool):
            found = [c for c in ast.walk(st_ga) if isinstance(c, ast.Call) and dotted(c.func) == "getattr" and len(c.args) >= 2]
            alts = unfolded(f, st_ga, facts={"inverse": value}, get=lambda s_: next((c.args[1] for c in ast.walk(s_) if isinstance(c, ast.Call) and dotted(c.func) == "getattr" and len(c.args) >= 2), None)) if len(found) == 1 else None
            vals = {a.value if isinstance(a, ast.Constant) else None for a in alts or [None]}
            return next(iter(vals)) if len(vals) == 1 else None

        reassigned = any(isinstance(n_, ast.Name) and n_.id == "inverse" and isinstance(n_.ctx, ast.Store) for n_ in ast.walk(f))
        pol = None if reassigned else (selected(True), selected(False))
        if pol == (None, None):
            pol = None
    ctx.ob("19.2-polarity", con, pol == ("compute_inverse_cdf", "compute_cdf"), f"evaluate_cdf must select compute_inverse_cdf iff inverse (selected: {pol})", node=(ga or [f])[0], stmt="compute_inverse_cdf iff inverse")
    loops = [s for s in stmts_of(f) if isinstance(s, ast.For) and ga and ga[0] in list(ast.walk(s))]
    ok = len(loops) == 1 and norm_stmt(loops[0].iter) == "self.uncertain_variables" and isinstance(loops[0].target, ast.Name)
    if ok:
        lv = loops[0].target.id
        p0 = _first_param(f)
        rets = [s for s in stmts_of(f) if isinstance(s, ast.Return)]
        res = dotted(rets[-1].value) if rets else None
        subs = [n for n in ast.walk(loops[0]) if isinstance(n, ast.Subscript) and norm_stmt(n.value) in (p0, "self.distributions", res)]
        bases = {norm_stmt(n.value) for n in subs}
        ok = bases == {p0, "self.distributions", res} and all(dotted(n.slice) == lv for n in subs)
        ok = ok and norm_stmt(ga[0].args[0]) == f"self.distributions[{lv}]"
        # the value given to the distribution comes from value[name]
        cm = [c for c in ast.walk(loops[0]) if isinstance(c, ast.Call) and (dotted(c.func) == "compute" or (dotted(c.func) == "map" and c.args and dotted(c.args[0]) == "compute"))]
        ldefs = _defs(loops[0])
        for c in cm:
            a = c.args[-1]
            ok = ok and norm_stmt(_resolve(a, ldefs)) == f"{p0}[{lv}]"
        ok = ok and bool(cm)
    ctx.ob("19.2-keys", con, bool(ok), "evaluate_cdf must read the value, take the distribution and store the result under the name of the same random variable", node=(loops or [f])[0], stmt="value[name] -> distributions[name] -> values[name]")


# ---------------------------------------------------------------- 19.3
# (file, class, method) -> accepted sets of library routines called on the wrapped object
DELEGATION = [
    (SPD, "SPDistribution", "compute_cdf", [{"cdf"}]),
    (SPD, "SPDistribution", "compute_inverse_cdf", [{"ppf"}]),
    (SPD, "SPDistribution", "mean", [{"mean"}]),
    (SPD, "SPDistribution", "standard_deviation", [{"std"}]),
    (SPD, "SPDistribution", "compute_samples", [{"rvs"}]),
    (SPD, "SPDistribution", "_pdf", [{"pdf"}]),
    (SPD, "SPDistribution", "_cdf", [{"cdf"}]),
    (OTD, "OTDistribution", "compute_cdf", [{"computeCDF"}]),
    (OTD, "OTDistribution", "compute_inverse_cdf", [{"computeQuantile"}, {"computeScalarQuantile"}]),
    (OTD, "OTDistribution", "mean", [{"getMean"}]),
    (OTD, "OTDistribution", "standard_deviation", [{"getStandardDeviation"}]),
    (OTD, "OTDistribution", "compute_samples", [{"getSample"}]),
    (OTD, "OTDistribution", "_pdf", [{"computePDF"}]),
    (OTD, "OTDistribution", "_cdf", [{"computeCDF"}]),
    (SPJ, "SPJointDistribution", "compute_cdf", [{"cdf"}]),
    (SPJ, "SPJointDistribution", "compute_inverse_cdf", [{"ppf"}]),
    (OTJ, "OTJointDistribution", "compute_cdf", [{"computeCDF"}]),
    (OTJ, "OTJointDistribution", "compute_inverse_cdf", [{"computeQuantile"}, {"computeScalarQuantile"}]),
    (OTJ, "OTJointDistribution", "compute_samples", [{"getSample"}]),
]
JOINT_FROM_MARGINALS = [("mean", "mean"), ("standard_deviation", "standard_deviation"), ("compute_samples", "compute_samples")]


# the marginals of a joint distribution are wrappers of this class: ``marginal.compute_cdf(v)`` is what the wrapper's
# method returns (itself an entry of DELEGATION), i.e. the library routine on ``marginal.distribution``
MARGINAL_WRAPPER = {"SPJointDistribution": (SPD, "SPDistribution"), "OTJointDistribution": (OTD, "OTDistribution")}


def _inline_wrapper_calls(func: ast.AST, wrapper, methods: set[str]) -> ast.AST:
    """Copy of ``func`` in which ``<name>.<m>(args)`` (``name`` a local other than ``self``, ``m`` a one-return method of
    ``wrapper`` listed in ``methods``) is replaced by the returned expression with ``self`` and the parameters bound."""
    import copy

    class R(ast.NodeTransformer):
        def visit_Call(self, n):  # noqa: N802
            self.generic_visit(n)
            if not (isinstance(n.func, ast.Attribute) and isinstance(n.func.value, ast.Name) and n.func.value.id != "self" and n.func.attr in methods):
                return n
            m = wrapper.methods.get(n.func.attr)
            if m is None or "property" in decorator_names(m):
                return n
            body = [b for b in m.body if not (isinstance(b, ast.Expr) and isinstance(b.value, ast.Constant))]
            params = [p for p in param_names(m) if p != "self"]
            if not (len(body) == 1 and isinstance(body[0], ast.Return) and body[0].value is not None) or m.args.vararg or m.args.kwarg:
                return n
            if any(isinstance(a, ast.Starred) for a in n.args) or len(n.args) > len(params) or any(k.arg not in params for k in n.keywords):
                return n
            bind = {"self": n.func.value, **dict(zip(params, n.args)), **{k.arg: k.value for k in n.keywords}}
            if any(p not in bind for p in params):
                return n  # defaults are not looked up: leave the call as it is

            class B(ast.NodeTransformer):
                def visit_Name(self, x):  # noqa: N802
                    return copy.deepcopy(bind[x.id]) if isinstance(x.ctx, ast.Load) and x.id in bind else x

            new = B().visit(copy.deepcopy(body[0].value))
            for x in ast.walk(new):
                ast.copy_location(x, n)
            return new

    return R().visit(copy.deepcopy(func))


def check_delegation(ctx: Ctx) -> None:
    idx = ctx.index
    for rel, cls, m, accepted in DELEGATION:
        f = idx.cls(rel, cls).methods.get(m)
        con = cname(rel, cls, m)
        if f is None:
            ctx.ob("19.3-delegation", con, False, f"{cls}.{m} is not defined: the quantity would come from another routine", node=idx.cls(rel, cls).node, stmt=f"{m} defined")
            continue
        if cls in MARGINAL_WRAPPER:
            f = _inline_wrapper_calls(f, idx.cls(*MARGINAL_WRAPPER[cls]), {m_ for r_, c_, m_, _ in DELEGATION if (r_, c_) == MARGINAL_WRAPPER[cls]})
        called = set()
        for c in walk_body(f):
            if isinstance(c, ast.Call) and isinstance(c.func, ast.Attribute) and norm_stmt(c.func.value).endswith("distribution"):
                called.add(c.func.attr)
        ctx.ob("19.3-delegation", con, called in accepted, f"{cls}.{m} must return the library's {sorted(accepted[0])} of the wrapped distribution, it calls {sorted(called)}", node=f, stmt=f"{m} -> {'/'.join(sorted(accepted[0]))}")
        rets = [s for s in stmts_of(f) if isinstance(s, ast.Return)]
        ctx.ob("19.3-delegation", con, len(rets) == 1 and any(isinstance(c, ast.Call) and isinstance(c.func, ast.Attribute) and c.func.attr in called for c in ast.walk(rets[0])), f"{cls}.{m} must return that value", node=(rets or [f])[0], stmt=f"{m} returns the delegate's value")
        if "Joint" in cls and m in ("compute_cdf", "compute_inverse_cdf"):
            comps = [n for n in walk_body(f) if isinstance(n, (ast.ListComp, ast.GeneratorExp))]
            ok = len(comps) == 1 and len(comps[0].generators) == 1
            if ok:
                g = comps[0].generators[0]
                p0 = _first_param(f)
                ok = isinstance(g.iter, ast.Call) and dotted(g.iter.func) == "zip" and [norm_stmt(a) for a in g.iter.args] in ([p0, "self.marginals"], ["self.marginals", p0])
                if ok and isinstance(g.target, ast.Tuple) and len(g.target.elts) == 2:
                    names = [dotted(e) for e in g.target.elts]
                    vname, mname_ = (names if norm_stmt(g.iter.args[0]) == p0 else names[::-1])
                    call = [c for c in ast.walk(comps[0].elt) if isinstance(c, ast.Call) and isinstance(c.func, ast.Attribute) and c.func.attr in called]
                    ok = len(call) == 1 and norm_stmt(call[0].func.value) == f"{mname_}.distribution" and vname in {n.id for n in ast.walk(call[0].args[0]) if isinstance(n, ast.Name)}
                else:
                    ok = False
            ctx.ob("19.3-marginal-order", con, bool(ok), f"{cls}.{m}: the i-th component must go through the i-th marginal (zip of the value with self.marginals)", node=(comps or [f])[0], stmt="component i through marginal i")
    for m, attr in JOINT_FROM_MARGINALS:
        f = idx.method(BJ, "BaseJointDistribution", m)
        con = cname(BJ, "BaseJointDistribution", m)
        comps = [n for n in walk_body(f) if isinstance(n, (ast.ListComp, ast.GeneratorExp))]
        ok = len(comps) == 1 and len(comps[0].generators) == 1 and norm_stmt(comps[0].generators[0].iter) == "self.marginals"
        if ok:
            t = dotted(comps[0].generators[0].target)
            e = comps[0].elt
            e = e.func if isinstance(e, ast.Call) else e
            ok = isinstance(e, ast.Attribute) and e.attr == attr and dotted(e.value) == t
        ctx.ob("19.3-marginal-order", con, bool(ok), f"the joint {m} must collect the marginals' {attr} in the marginals' order", node=(comps or [f])[0], stmt=f"{m} = [marginal.{attr} for marginal in self.marginals]")
    ctx.floor("19.3-delegation", 30)
    ctx.floor("19.3-marginal-order", 7)


# ---------------------------------------------------------------- 19.4
def _t(name):
    return symexpr.sym(name)


def _fam(sp_file, ot_file, sp_cls, ot_cls, sp_name, ot_name, ot_params, to_scipy):
    return {"sp_file": UD + "scipy/" + sp_file, "ot_file": UD + "openturns/" + ot_file, "sp_cls": sp_cls, "ot_cls": ot_cls, "sp_name": sp_name, "ot_name": ot_name, "ot_params": ot_params, "to_scipy": to_scipy}


# OpenTURNS positional parameters and their SciPy equivalents (library documentation, frozen).
FAMILIES = [
    _fam("uniform.py", "uniform.py", "SPUniformDistribution", "OTUniformDistribution", "uniform", "Uniform", ("a", "b"), lambda a, b: {"loc": a, "scale": b - a}),
    _fam("normal.py", "normal.py", "SPNormalDistribution", "OTNormalDistribution", "norm", "Normal", ("mu", "sigma"), lambda mu, sigma: {"loc": mu, "scale": sigma}),
    _fam("triangular.py", "triangular.py", "SPTriangularDistribution", "OTTriangularDistribution", "triang", "Triangular", ("a", "m", "b"), lambda a, m, b: {"loc": a, "scale": b - a, "c": (m - a) / (b - a)}),
    _fam("beta.py", "beta.py", "SPBetaDistribution", "OTBetaDistribution", "beta", "Beta", ("alpha", "beta", "a", "b"), lambda alpha, beta, a, b: {"a": alpha, "b": beta, "loc": a, "scale": b - a}),
    _fam("exponential.py", "exponential.py", "SPExponentialDistribution", "OTExponentialDistribution", "expon", "Exponential", ("lambda", "gamma"), lambda lam, gamma: {"loc": gamma, "scale": 1 / lam}),
    _fam("log_normal.py", "log_normal.py", "SPLogNormalDistribution", "OTLogNormalDistribution", "lognorm", "LogNormal", ("muLog", "sigmaLog", "gamma"), lambda mu_log, sigma_log, gamma: {"s": sigma_log, "loc": gamma, "scale": symexpr.sp.exp(mu_log)}),
    _fam("weibull.py", "weibull.py", "SPWeibullDistribution", "OTWeibullDistribution", ("weibull_min", "weibull_max"), ("WeibullMin", "WeibullMax"), ("beta", "alpha", "gamma"), lambda beta, alpha, gamma: {"loc": gamma, "scale": beta, "c": alpha}),
]
OT_ONLY_PARAMS = ["transformation", "lower_bound", "upper_bound", "threshold"]


_POWER_ROUTINES = {None: "pow", "math.pow": "pow", "numpy.power": "pow", "numpy.float_power": "pow"}


def _arith_normal(func: ast.FunctionDef, imports: dict | None = None) -> ast.FunctionDef:
    """Copy of a straight-line arithmetic function in the spelling the term domain reads.

    ``pow(a, b)`` (the builtin, ``math.pow``, ``numpy.power``) becomes ``a ** b``; an assignment expression
    ``(y := e)`` inside a top-level statement becomes the statement ``y = e`` placed before it, the expression reading
    ``y`` -- only when ``y`` is not read, in that statement, textually before the assignment expression (operands and
    arguments are evaluated left to right, and the arithmetic has no side effect to reorder).  Anything else is left
    as it is (and stays not understood by the term domain).
    """
    import copy

    imports = imports or {}
    func = copy.deepcopy(func)

    def is_power(call: ast.Call) -> bool:
        if call.keywords or len(call.args) != 2 or any(isinstance(a, ast.Starred) for a in call.args):
            return False
        name = dotted(call.func)
        if not name:
            return False
        head, _, rest = name.partition(".")
        if not rest:
            return name in ("pow", "power", "float_power") and imports.get(name, None if name == "pow" else "?") in _POWER_ROUTINES
        return imports.get(head) in ("math", "numpy") and rest in ("pow", "power", "float_power")

    class P(ast.NodeTransformer):
        def visit_Call(self, n):  # noqa: N802
            self.generic_visit(n)
            if is_power(n):
                return ast.copy_location(ast.BinOp(left=n.args[0], op=ast.Pow(), right=n.args[1]), n)
            return n

    func = P().visit(func)

    def pos(n):
        return (getattr(n, "lineno", 0), getattr(n, "col_offset", 0))

    def hoist(stmts: list[ast.stmt]) -> list[ast.stmt]:
        out = []
        for s in stmts:
            if isinstance(s, (ast.Assign, ast.Return, ast.Expr)) and s.value is not None:
                pre: list[ast.stmt] = []
                whole = copy.deepcopy(s)

                class W(ast.NodeTransformer):
                    ok = True

                    def visit_NamedExpr(self, n, whole=whole):  # noqa: N802
                        self.generic_visit(n)  # inner assignment expressions are evaluated first
                        if not isinstance(n.target, ast.Name):
                            W.ok = False
                            return n
                        early = [x for x in ast.walk(whole.value) if isinstance(x, ast.Name) and x.id == n.target.id and isinstance(x.ctx, ast.Load) and pos(x) < pos(n)]
                        if early:
                            W.ok = False
                            return n
                        pre.append(ast.copy_location(ast.Assign(targets=[ast.Name(id=n.target.id, ctx=ast.Store())], value=n.value), n))
                        return ast.copy_location(ast.Name(id=n.target.id, ctx=ast.Load()), n)

                    def visit_Lambda(self, n):  # noqa: N802
                        return n

                    visit_ListComp = visit_SetComp = visit_DictComp = visit_GeneratorExp = visit_IfExp = visit_BoolOp = visit_Lambda  # noqa: N815

                new = W().visit(whole)
                if W.ok and pre:
                    for p_ in pre:
                        ast.fix_missing_locations(p_)
                    out += [*pre, new]
                    continue
            elif isinstance(s, ast.If):
                s.body, s.orelse = hoist(s.body), hoist(s.orelse)
            out.append(s)
        return out

    func.body = hoist(func.body)
    return func


def _paths(func: ast.FunctionDef, helpers) -> list[tuple[tuple, dict, ast.Call]] | None:
    """Enumerate the paths of a constructor's prelude: (flag assignment, environment, super().__init__ call)."""
    params = [p for p in param_names(func) if p != "self"]
    env0 = {p: symexpr.sym(p) for p in params}
    out = []

    def run(stmts, env, flags):
        for i, s in enumerate(stmts):
            if isinstance(s, ast.Expr) and isinstance(s.value, ast.Constant):
                continue
            if isinstance(s, ast.If):
                lits = conj_literals(s.test)
                if len(lits) != 1 or not isinstance(lits[0][1], ast.Name):
                    return False
                name, pol = lits[0][1].id, lits[0][0]
                rest = stmts[i + 1 :]
                return run([*s.body, *rest], dict(env), (*flags, (name, pol))) and run([*s.orelse, *rest], dict(env), (*flags, (name, not pol)))
            if isinstance(s, ast.Assign) and len(s.targets) == 1:
                if not symexpr.bind(s.targets[0], symexpr.to_term(s.value, env, helpers), env):
                    return False
                continue
            if isinstance(s, ast.Expr) and isinstance(s.value, ast.Call) and norm_stmt(s.value.func) == "super().__init__":
                out.append((flags, env, s.value))
                return True
            return False
        return False

    return out if run(func.body, env0, ()) else None


def _select(e: ast.AST | None, flags: tuple):
    """Value of a constant or of ``A if flag else B`` under a flag assignment."""
    if isinstance(e, ast.Constant):
        return e.value
    if isinstance(e, ast.IfExp):
        lits = conj_literals(e.test)
        if len(lits) == 1 and isinstance(lits[0][1], ast.Name):
            known = dict(flags)
            name, pol = lits[0][1].id, lits[0][0]
            if name in known:
                return _select(e.body if known[name] == pol else e.orelse, flags)
    return None


def check_families(ctx: Ctx) -> None:
    idx = ctx.index
    # the re-parameterisation helpers and the constructors, in the spelling the term domain reads (a ** b, no walrus)
    helpers = {k: _arith_normal(v, idx.module(LNU).imports) for k, v in idx.module(LNU).functions.items()}
    for fam in FAMILIES:
        sp_init = _arith_normal(idx.method(fam["sp_file"], fam["sp_cls"], "__init__"), idx.module(fam["sp_file"]).imports)
        ot_init = _arith_normal(idx.method(fam["ot_file"], fam["ot_cls"], "__init__"), idx.module(fam["ot_file"]).imports)
        csp = cname(fam["sp_file"], fam["sp_cls"], "__init__")
        cot = cname(fam["ot_file"], fam["ot_cls"], "__init__")
        sp_params = [p for p in param_names(sp_init) if p != "self"]
        ot_params = [p for p in param_names(ot_init) if p != "self"]
        law = [p for p in ot_params if p not in OT_ONLY_PARAMS]
        ctx.ob("19.4-signature", cot, law == sp_params, f"the SciPy class takes {sp_params}, the OpenTURNS class {law}: the same definition of a random variable cannot be used with both libraries", node=ot_init, stmt=f"{fam['ot_cls']} and {fam['sp_cls']} take the same law parameters")

        def defaults(f):
            a = f.args
            names = [x.arg for x in a.args]
            ds_ = a.defaults
            return {n: norm_stmt(d) for n, d in zip(names[len(names) - len(ds_) :], ds_)}

        dsp, dot = defaults(sp_init), defaults(ot_init)
        ctx.ob("19.4-signature", cot, all(dsp.get(p) == dot.get(p) for p in sp_params), f"default law parameters differ: SciPy {dsp}, OpenTURNS { {p: dot.get(p) for p in sp_params} }", node=ot_init, stmt="same default law parameters")
        psp = _paths(sp_init, helpers)
        pot = _paths(ot_init, helpers)
        if psp is None or pot is None:
            raise AnalysisError(f"{fam['sp_cls']}/{fam['ot_cls']}: constructor prelude not understood (expected assignments, if on a flag, super().__init__)")
        names_flags = set()
        for flags_sp, env_sp, call_sp in psp:
            for flags_ot, env_ot, call_ot in pot:
                if any(dict(flags_ot).get(k, v) != v for k, v in flags_sp):
                    continue  # contradictory flag assignments
                flags = tuple(sorted(set(flags_sp) | set(flags_ot)))
                # library names
                pending = [flags]
                nsp_e, not_e = kwarg(call_sp, "interfaced_distribution"), kwarg(call_ot, "interfaced_distribution")
                for e in (nsp_e, not_e):
                    if isinstance(e, ast.IfExp):
                        lits = conj_literals(e.test)
                        if len(lits) == 1 and isinstance(lits[0][1], ast.Name) and all(lits[0][1].id not in dict(fl) for fl in pending):
                            pending = [(*fl, (lits[0][1].id, v)) for fl in pending for v in (True, False)]
                for fl in pending:
                    nsp, not_ = _select(nsp_e, fl), _select(not_e, fl)
                    if isinstance(fam["sp_name"], tuple):
                        ok = (nsp, not_) in set(zip(fam["sp_name"], fam["ot_name"]))
                    else:
                        ok = (nsp, not_) == (fam["sp_name"], fam["ot_name"])
                    key = (fl, nsp, not_)
                    if key not in names_flags:
                        names_flags.add(key)
                        ctx.ob("19.4-law", cot, ok, f"under {dict(fl)} the SciPy class builds `{nsp}` and the OpenTURNS class `{not_}`: not the same law", node=call_ot, stmt=f"{fam['sp_cls']} / {fam['ot_cls']} library law under {dict(fl)}")
                # parameters
                dsp_e, tot_e = kwarg(call_sp, "parameters"), kwarg(call_ot, "parameters")
                if not (isinstance(dsp_e, ast.Dict) and isinstance(tot_e, ast.Tuple)):
                    raise AnalysisError(f"{fam['sp_cls']}/{fam['ot_cls']}: parameters are not a dict / tuple display")
                tot = [symexpr.to_term(e, env_ot, helpers) for e in tot_e.elts]
                okn = len(tot) == len(fam["ot_params"]) and all(t is not None for t in tot)
                ctx.ob("19.4-parameters", cot, okn, f"OpenTURNS' {fam['ot_name']} takes {fam['ot_params']}; the class passes {len(tot)} value(s)", node=tot_e, stmt=f"{fam['ot_cls']} passes {len(fam['ot_params'])} parameters under {dict(flags)}")
                if not okn:
                    continue
                expected = fam["to_scipy"](*tot)
                got = {}
                for k, v in zip(dsp_e.keys, dsp_e.values):
                    got[k.value if isinstance(k, ast.Constant) else None] = symexpr.to_term(v, env_sp, helpers)
                ctx.ob("19.4-parameters", csp, set(got) == set(expected), f"SciPy's {fam['sp_name']} is given {sorted(map(str, got))}; the law needs {sorted(expected)}", node=dsp_e, stmt=f"{fam['sp_cls']} passes {sorted(expected)} under {dict(flags)}")
                for k in sorted(set(got) & set(expected)):
                    eq = symexpr.equal(got[k], expected[k])
                    if eq is None:
                        raise AnalysisError(f"{fam['sp_cls']}: parameter {k} could not be compared with the OpenTURNS parameters")
                    ctx.ob(
                        "19.4-parameters",
                        csp,
                        eq,
                        f"SciPy parameter `{k}` = {got[k]} but the OpenTURNS class describes the law with {k} = {expected[k]} (from {dict(zip(fam['ot_params'], tot))}): the two versions of the law differ",
                        node=dsp_e,
                        stmt=f"{fam['sp_cls']} {k} agrees with {fam['ot_cls']} under {dict(flags)}",
                    )
    ctx.floor("19.4-parameters", 30)
    ctx.floor("19.4-signature", 14)
    ctx.floor("19.4-law", 8)
    # log-normal re-parameterisation against the analytical moments
    f = _arith_normal(ctx.index.func(LNU, "compute_mu_l_and_sigma_l"), idx.module(LNU).imports)
    con = cname(LNU, None, "compute_mu_l_and_sigma_l")
    s = symexpr.sp
    m, sigma, loc = s.Symbol("m", positive=True), s.Symbol("sigma", positive=True), s.Symbol("location", real=True)
    res = symexpr.inline(f, [loc + m, sigma, loc], helpers)
    if not (isinstance(res, tuple) and len(res) == 2):
        raise AnalysisError("compute_mu_l_and_sigma_l: body not understood (expected assignments and a returned pair)")
    mu_l, sigma_l = res
    mean = loc + s.exp(mu_l + sigma_l**2 / 2)
    var = (s.exp(sigma_l**2) - 1) * s.exp(2 * mu_l + sigma_l**2)
    eq = symexpr.equal(mean, loc + m, positive=("m", "sigma"))
    ctx.ob("19.4-lognormal", con, eq is True, f"with the returned (mu_l, sigma_l) the log-normal mean location + exp(mu_l + sigma_l^2/2) is {s.simplify(mean)} instead of mu", node=f, stmt="mean of LogNormal(mu_l, sigma_l, location) is mu")
    eq = symexpr.equal(var, sigma**2, positive=("m", "sigma"))
    ctx.ob("19.4-lognormal", con, eq is True, "with the returned (mu_l, sigma_l) the log-normal variance (exp(sigma_l^2) - 1) exp(2 mu_l + sigma_l^2) is not sigma^2", node=f, stmt="variance of LogNormal(mu_l, sigma_l, location) is sigma^2")


# ---------------------------------------------------------------- 19.5
def check_bounds(ctx: Ctx) -> None:
    idx = ctx.index
    for rel, cls in ((BD, "BaseDistribution"), (BJ, "BaseJointDistribution")):
        for prop, kind in (("range", "num"), ("support", "math")):
            f = idx.method(rel, cls, prop)
            con = cname(rel, cls, prop)
            rets = [s for s in stmts_of(f) if isinstance(s, ast.Return)]
            # the returned value with the locals it reads unfolded: every alternative reads the two bounds in that order
            alts = (unfolded(f, rets[0].value) or []) if len(rets) == 1 and rets[0].value is not None else []
            attrs_of = [[n.attr for n in sorted(ast.walk(a), key=lambda n: (getattr(n, "lineno", 0), getattr(n, "col_offset", 0))) if isinstance(n, ast.Attribute) and dotted(n.value) == "self"] for a in alts]
            attrs = attrs_of[0] if attrs_of else []
            want = [f"{kind}_lower_bound", f"{kind}_upper_bound"]
            bad = next((a for a in attrs_of if a != want), attrs)
            ctx.ob("19.5-bounds", con, bool(attrs_of) and all(a == want for a in attrs_of), f"{cls}.{prop} must be [{kind}_lower_bound, {kind}_upper_bound] (it uses {bad})", node=(rets or [f])[0], stmt=f"{prop} = ({kind} lower, {kind} upper)")
    f = idx.method(BJ, "BaseJointDistribution", "_set_bounds")
    con = cname(BJ, "BaseJointDistribution", "_set_bounds")
    seen = set()
    for s in stmts_of(f):
        if isinstance(s, ast.Assign) and isinstance(s.targets[0], ast.Attribute) and dotted(s.targets[0].value) == "self" and s.targets[0].attr.endswith("_bound"):
            a = s.targets[0].attr
            seen.add(a)
            comps = [n for n in ast.walk(s.value) if isinstance(n, (ast.ListComp, ast.GeneratorExp))]
            p0 = _first_param(f)
            ok = len(comps) == 1 and isinstance(comps[0].elt, ast.Attribute) and comps[0].elt.attr == a and dotted(comps[0].elt.value) == dotted(comps[0].generators[0].target) and dotted(comps[0].generators[0].iter) == p0
            ctx.ob("19.5-bounds", con, ok, f"the joint {a} must be the marginals' {a}, in their order", node=s)
    ctx.ob("19.5-bounds", con, seen == {"math_lower_bound", "math_upper_bound", "num_lower_bound", "num_upper_bound"}, f"the joint distribution must set its four bounds (sets {sorted(seen)})", node=f, stmt="four bounds set")
    for rel, cls, arg in ((SPJ, "SPJointDistribution", "self.marginals"), (OTJ, "OTJointDistribution", "distributions")):
        g = idx.method(rel, cls, "_create_distribution")
        cs = _calls(g, "_set_bounds")
        ctx.ob("19.5-bounds", cname(rel, cls, "_create_distribution"), len(cs) == 1 and norm_stmt(cs[0].args[0]) == arg, f"{cls} must set its bounds from its marginals", node=(cs or [g])[0])
    # SciPy
    f = idx.method(SPD, "SPDistribution", "_create_distribution")
    con = cname(SPD, "SPDistribution", "_create_distribution")
    defs = _defs(f)
    asg = {}
    for s in stmts_of(f):
        if isinstance(s, ast.Assign):
            t = s.targets[0]
            if isinstance(t, ast.Tuple) and all(isinstance(e, ast.Attribute) for e in t.elts):
                asg[tuple(e.attr for e in t.elts)] = s
            elif isinstance(t, ast.Attribute) and dotted(t.value) == "self":
                asg[t.attr] = s
    s_ = asg.get(("math_lower_bound", "math_upper_bound"))
    if s_ is None and isinstance(getattr(asg.get("math_lower_bound"), "value", None), ast.Name) and isinstance(getattr(asg.get("math_upper_bound"), "value", None), ast.Name):
        # ``lower, upper = <pair>`` stored attribute by attribute: the pair is what the two locals were unpacked from
        pair = [asg["math_lower_bound"].value.id, asg["math_upper_bound"].value.id]
        unpack = [x for x in stmts_of(f) if isinstance(x, ast.Assign) and isinstance(x.targets[0], ast.Tuple) and [dotted(e) for e in x.targets[0].elts] == pair]
        if len(unpack) == 1 and all(len(defs.get(n_, ())) == 1 for n_ in pair) and pair[0] != pair[1]:
            s_ = unpack[0]
    ok = s_ is not None and isinstance(s_.value, ast.Call) and last_attr(s_.value) in ("interval", "support") and (last_attr(s_.value) == "support" or (s_.value.args and isinstance(s_.value.args[0], ast.Constant) and s_.value.args[0].value == 1.0))
    ctx.ob("19.5-scipy", con, bool(ok), "the support of a SciPy distribution is (lower, upper) = distribution.interval(1.0)", node=s_ or f, stmt="math bounds = interval(1.0)")
    lo, up = asg.get("num_lower_bound"), asg.get("num_upper_bound")
    ok = False
    if lo is not None and up is not None and isinstance(lo.value, ast.Call) and isinstance(up.value, ast.Call) and last_attr(lo.value) == last_attr(up.value) == "ppf":
        a, b = _resolve(lo.value.args[0], defs), up.value.args[0]
        if isinstance(a, ast.Constant) and isinstance(a.value, float) and 0 < a.value < 0.5 and isinstance(b, ast.BinOp) and isinstance(b.op, ast.Sub) and isinstance(b.left, ast.Constant) and b.left.value == 1:
            br = _resolve(b.right, defs)
            ok = isinstance(br, ast.Constant) and br.value == a.value
    if not ok and lo is not None and up is not None:
        tl, tu = norm_stmt(lo.value), norm_stmt(up.value)
        both_ppf = isinstance(lo.value, ast.Call) and isinstance(up.value, ast.Call) and last_attr(lo.value) == last_attr(up.value) == "ppf"
        if isinstance(up.value, ast.Call) and last_attr(up.value) == "isf" and isinstance(lo.value, ast.Call) and last_attr(lo.value) == "ppf":
            ok = norm_stmt(_resolve(lo.value.args[0], defs)) == norm_stmt(_resolve(up.value.args[0], defs))  # isf(q) == ppf(1 - q)
        elif not both_ppf:
            # a finite mathematical bound is its own numerical bound; tail quantiles are only needed for infinite supports
            ok = "math_lower_bound" in tl and "math_upper_bound" in tu and "math_upper_bound" not in tl and "math_lower_bound" not in tu
    ctx.ob("19.5-scipy", con, ok, "the numerical range of a SciPy distribution is made of tail quantiles (ppf(eps), ppf(1 - eps)) with one small eps, or of the finite mathematical bounds", node=lo or f, stmt="num bounds = tail quantiles or finite support")
    # OpenTURNS
    f = idx.method(OTD, "OTDistribution", "__set_bounds")
    con = cname(OTD, "OTDistribution", "__set_bounds")
    for side, getter, finite, infinite in (("lower", "getLowerBound", "getFiniteLowerBound", "-inf"), ("upper", "getUpperBound", "getFiniteUpperBound", "inf")):
        num = [s for s in stmts_of(f) if isinstance(s, ast.Assign) and norm_stmt(s.targets[0]) == f"self.num_{side}_bound"]
        mth = [s for s in stmts_of(f) if isinstance(s, ast.Assign) and norm_stmt(s.targets[0]) == f"self.math_{side}_bound"]
        # the condition(s) deciding on the finiteness flag of this side, whatever construct (if / conditional expression) tests it
        keys = set()
        for t in walk_body(f):
            if isinstance(t, (ast.If, ast.IfExp, ast.While)):
                for _pol, e in conj_literals(t.test):
                    if any(finite in ast.unparse(a) for a in (unfolded(f, e) or [e])):
                        keys.add(norm_stmt(e))
        ok = bool(num) and bool(mth) and len(keys) == 1
        if ok:
            key = next(iter(keys))

            def stored(stmts, is_finite, key=key):
                """Unfolded alternatives of the value stored by the one statement of ``stmts`` executed under the flag."""
                alts = [a for a in (unfolded(f, s, facts={key: is_finite}, get=lambda s_: s_.value) for s in stmts) if a is not None]
                return sorted(ast.unparse(x) for x in alts[0]) if len(alts) == 1 else None

            for is_finite in (True, False):
                n_, m_ = stored(num, is_finite), stored(mth, is_finite)
                # the numerical bound is the library's bound whatever the flag ...
                ok = ok and bool(n_) and all(t.endswith(f".{getter}()[0]") and "inf" not in {x.id for x in ast.walk(ast.parse(t)) if isinstance(x, ast.Name)} for t in n_)
                # ... the mathematical one is that same bound when it is finite, the infinity of the side's sign otherwise
                ok = ok and bool(m_) and (m_ == n_ if is_finite else m_ == [infinite])
        ctx.ob("19.5-openturns", con, bool(ok), f"OpenTURNS {side} bound: the numerical bound is {getter}(), the mathematical one is {infinite} exactly when {finite}() is false", node=(mth or [f])[0], stmt=f"{side} bound: numerical = {getter}, mathematical = {infinite} iff not {finite}")
    g = idx.method(OTD, "OTDistribution", "_create_distribution")
    cfg = cfg_of(g)
    last_assign = [s for s in stmts_of(g) if isinstance(s, ast.Assign) and norm_stmt(s.targets[0]) == "self.distribution"]
    sb = [c for c in _calls(g, "__set_bounds")]
    ok = len(last_assign) == 1 and sb
    if ok:
        final = dotted(last_assign[0].value)
        n_assign = cfg.node_of(last_assign[0])
        # on every path the last __set_bounds before storing the distribution is applied to it and no re-definition follows
        lastsb = [c for c in sb if dotted(c.args[0]) == final and cfg.dominates(cfg.node_of(rules.enclosing_stmt(g, c)), n_assign)]
        ok = bool(lastsb)
        if ok:
            n_sb = max(cfg.node_of(rules.enclosing_stmt(g, c)) for c in lastsb)
            redefs = [cfg.node_of(s) for s in stmts_of(g) if isinstance(s, ast.Assign) and dotted(s.targets[0]) == final and cfg.has(s)]
            ok = all(cfg.path(n_sb, r) is None for r in redefs)
    ctx.ob("19.5-openturns", cname(OTD, "OTDistribution", "_create_distribution"), bool(ok), "the bounds must be those of the final (transformed, truncated) distribution that is stored", node=(last_assign or [g])[0], stmt="bounds of the stored distribution")


# ---------------------------------------------------------------- 19.6
def _mutations(f: ast.FunctionDef) -> list[ast.stmt]:
    out = []
    for s in stmts_of(f):
        if isinstance(s, ast.Delete) and any(isinstance(t, ast.Subscript) and norm_stmt(t.value) == "self.distributions" for t in s.targets):
            out.append(s)
        elif isinstance(s, ast.Assign) and any(isinstance(t, ast.Subscript) and norm_stmt(t.value) == "self.distributions" for t in s.targets):
            out.append(s)
        elif isinstance(s, ast.Expr) and isinstance(s.value, ast.Call) and isinstance(s.value.func, ast.Attribute) and norm_stmt(s.value.func.value) in ("self.uncertain_variables", "self.distributions") and s.value.func.attr in ("append", "remove", "pop", "insert", "extend", "clear", "update"):
            out.append(s)
    return out


def _identity_iter(e: ast.AST) -> ast.AST:
    """``[m for m in E]`` / ``list(E)`` / ``tuple(E)`` -> ``E`` (the same elements in the same order)."""
    while True:
        if isinstance(e, (ast.ListComp, ast.GeneratorExp)) and len(e.generators) == 1 and not e.generators[0].ifs and isinstance(e.elt, ast.Name) and isinstance(e.generators[0].target, ast.Name) and e.elt.id == e.generators[0].target.id:
            e = e.generators[0].iter
        elif isinstance(e, ast.Call) and dotted(e.func) in ("list", "tuple") and len(e.args) == 1 and not e.keywords:
            e = e.args[0]
        else:
            return e


def _concatenations(func: ast.AST) -> list[dict]:
    """Lists that are the concatenation, for ``target`` running over ``iter`` in order, of the sequences ``inner``.

    ``[m for t in it for m in E]``; ``xs = []`` followed by ``for t in it: xs.extend(E)`` / ``xs += E`` /
    ``for m in E: xs.append(m)``; ``chain.from_iterable(E for t in it)``.  One record per list:
    ``{"name" (None when anonymous), "iter", "target", "inner", "node"}``.  A comprehension with a filter, a list that
    is not empty before the loop or that is modified elsewhere is not a plain concatenation and gives no record
    (the caller, which wants exactly one, then fails).
    """
    out = []
    named = {}
    for s_ in stmts_of(func):
        if isinstance(s_, ast.Assign) and len(s_.targets) == 1 and isinstance(s_.targets[0], ast.Name):
            named[id(s_.value)] = s_.targets[0].id
    for n_ in walk_body(func):
        if isinstance(n_, (ast.ListComp, ast.GeneratorExp)) and len(n_.generators) == 2:
            g0, g1 = n_.generators
            if not g0.ifs and not g1.ifs and isinstance(n_.elt, ast.Name) and isinstance(g1.target, ast.Name) and n_.elt.id == g1.target.id:
                out.append({"name": named.get(id(n_)), "iter": g0.iter, "target": g0.target, "inner": _identity_iter(g1.iter), "node": n_})
        elif isinstance(n_, ast.Call) and (dotted(n_.func) or "").endswith("chain.from_iterable") and len(n_.args) == 1 and isinstance(n_.args[0], (ast.ListComp, ast.GeneratorExp)) and len(n_.args[0].generators) == 1 and not n_.args[0].generators[0].ifs:
            g0 = n_.args[0].generators[0]
            out.append({"name": None, "iter": g0.iter, "target": g0.target, "inner": _identity_iter(n_.args[0].elt), "node": n_})
    cfg = None
    for lp in [s_ for s_ in stmts_of(func) if isinstance(s_, ast.For)]:
        if lp.orelse or len(lp.body) != 1:
            continue
        b = lp.body[0]
        name = inner = None
        if isinstance(b, ast.Expr) and isinstance(b.value, ast.Call) and isinstance(b.value.func, ast.Attribute) and b.value.func.attr == "extend" and isinstance(b.value.func.value, ast.Name) and len(b.value.args) == 1 and not b.value.keywords:
            name, inner = b.value.func.value.id, b.value.args[0]
        elif as_update(b) is not None and isinstance(as_update(b)[1], ast.Add) and isinstance(as_update(b)[0], ast.Name) and not (isinstance(b, ast.Assign) and ast.unparse(b.value.left) != b.targets[0].id):
            name, inner = as_update(b)[0].id, as_update(b)[2]
        elif isinstance(b, ast.For) and not b.orelse and len(b.body) == 1 and isinstance(b.target, ast.Name) and isinstance(b.body[0], ast.Expr) and isinstance(b.body[0].value, ast.Call) and isinstance(b.body[0].value.func, ast.Attribute) and b.body[0].value.func.attr == "append" and isinstance(b.body[0].value.func.value, ast.Name) and len(b.body[0].value.args) == 1 and dotted(b.body[0].value.args[0]) == b.target.id:
            name, inner = b.body[0].value.func.value.id, b.iter
        if name is None:
            continue
        # empty before the loop, and touched by nothing else than this loop
        inits = []
        for s_ in stmts_of(func):
            if s_ is b or not isinstance(s_, (ast.Assign, ast.AnnAssign, ast.AugAssign)):
                continue
            tgts = s_.targets if isinstance(s_, ast.Assign) else [s_.target]
            if any(isinstance(t, ast.Name) and t.id == name and isinstance(t.ctx, ast.Store) for tgt in tgts for t in ast.walk(tgt)):
                inits.append(s_)
        v0 = inits[0].value if len(inits) == 1 and isinstance(inits[0], (ast.Assign, ast.AnnAssign)) and not (isinstance(inits[0], ast.Assign) and (len(inits[0].targets) != 1 or not isinstance(inits[0].targets[0], ast.Name))) else None
        empty = (isinstance(v0, ast.List) and not v0.elts) or (isinstance(v0, ast.Call) and dotted(v0.func) == "list" and not v0.args and not v0.keywords)
        muts = [c for c in walk_body(func) if isinstance(c, ast.Call) and isinstance(c.func, ast.Attribute) and isinstance(c.func.value, ast.Name) and c.func.value.id == name and c.func.attr in ("append", "extend", "insert", "pop", "remove", "clear", "sort", "reverse", "__iadd__")]
        muts += [x for x in walk_body(func) if isinstance(x, ast.Subscript) and isinstance(x.ctx, (ast.Store, ast.Del)) and isinstance(x.value, ast.Name) and x.value.id == name]
        own = sum(1 for c in ast.walk(lp) if any(c is m for m in muts))
        rebound = any(isinstance(t, ast.Name) and t.id == name for x in walk_body(func) if isinstance(x, (ast.For, ast.comprehension)) for t in ast.walk(x.target))
        if not empty or len(muts) != own or own > (0 if as_update(b) is not None else 1) or rebound:
            continue
        cfg = cfg or cfg_of(func)
        if not (cfg.has(inits[0]) and cfg.has(lp) and cfg.dominates(cfg.node_of(inits[0]), cfg.node_of(lp))):
            continue
        # the loop must not itself sit in another loop (the list would be extended once per outer iteration)
        if any(isinstance(o, (ast.For, ast.While)) and o is not lp and any(x is lp for x in ast.walk(o)) for o in stmts_of(func)):
            continue
        out.append({"name": name, "iter": lp.iter, "target": lp.target, "inner": _identity_iter(inner), "node": lp})
    return out


# rename_variable keeps the number, the order and the laws of the random variables: the joint distribution, which
# holds no names, stays valid.
NO_REBUILD_NEEDED = {"rename_variable"}


def check_space(ctx: Ctx) -> None:
    idx = ctx.index
    ps = idx.cls(PS, "ParameterSpace")
    n = 0
    for mname, f in sorted(ps.methods.items()):
        muts = _mutations(f)
        if not muts or mname in NO_REBUILD_NEEDED:
            continue
        cfg = cfg_of(f)
        rb = {cfg.node_of(rules.enclosing_stmt(f, c)) for c in rules.self_calls(f, "build_joint_distribution")}
        for s in muts:
            n += 1
            # branches that contradict a condition holding at the mutation (the same flag tested twice) cannot be taken
            from gv.props.shared import contradicted_branches

            esc = cfg.path(cfg.node_of(s), cfg.exit, (rb | contradicted_branches(cfg, cfg.node_of(s))) - {cfg.node_of(s)})
            ctx.ob("19.6-rebuild", cname(PS, "ParameterSpace", mname), esc is None, "the random variables change but a path reaches the end of the method without rebuilding the joint distribution: compute_samples would sample the old set of variables" + (f" (path: {cfg.describe_path(esc)})" if esc else ""), node=s)
    ctx.floor("19.6-rebuild", 4)
    f = idx.method(PS, "ParameterSpace", "build_joint_distribution")
    con = cname(PS, "ParameterSpace", "build_joint_distribution")
    cfg = cfg_of(f)
    asg = {cfg.node_of(s) for s in rules.assigns_to_self(f, "distribution")}
    esc = cfg.escape_path(cfg.entry, asg)
    ctx.ob("19.6-rebuild", con, bool(asg) and esc is None, "build_joint_distribution leaves self.distribution untouched on a path: after the last random variable is removed the old joint distribution stays" + (f" (path: {cfg.describe_path(esc)})" if esc else ""), node=f, stmt="self.distribution assigned on every path")
    # the list of marginals, whether flattened by a two-level comprehension or by a loop extending a list
    recs = _concatenations(f)
    ok = len(recs) == 1
    if ok:
        r = recs[0]
        ok = norm_stmt(r["iter"]) == "self.uncertain_variables" and isinstance(r["target"], ast.Name) and norm_stmt(r["inner"]) == f"self.distributions[{r['target'].id}].marginals"
        # ... and this list is what the joint distribution is made of
        made = [a for s_ in rules.assigns_to_self(f, "distribution") if isinstance(s_, ast.Assign) and isinstance(s_.value, ast.Call) for a in (unfolded(f, s_.value) or [s_.value])]
        src = {r["name"]} if r["name"] else set()
        txt = ast.unparse(r["node"]) if isinstance(r["node"], ast.expr) else None
        ok = ok and bool(made) and all(isinstance(a, ast.Call) and any((isinstance(x, ast.Name) and x.id in src) or (txt is not None and ast.unparse(x) == txt) for x in (_identity_iter(arg) for arg in [*a.args, *[k.value for k in a.keywords]])) for a in made)
    ctx.ob("19.6-order", con, bool(ok), "the joint distribution must be built from the marginals of the random variables in the order of uncertain_variables", node=(recs[0]["node"] if recs else f), stmt="marginals in the order of uncertain_variables")
    f = idx.method(PS, "ParameterSpace", "compute_samples")
    cs = _calls(f, "split_array_to_dict_of_arrays")
    # ``names`` is a variadic parameter of split_array_to_dict_of_arrays: it can only be given by position
    ok = len(cs) == 1 and norm_stmt(_arg(cs[0], 1, "names_to_sizes")) == "self.variable_sizes" and norm_stmt(_arg(cs[0], 2)) == "self.uncertain_variables" and len(cs[0].args) <= 3
    ctx.ob("19.6-order", cname(PS, "ParameterSpace", "compute_samples"), ok, "samples of the joint distribution have one block per random variable in the order of uncertain_variables; they must be split in that order", node=(cs or [f])[0])
    sm = [c for c in walk_body(f) if isinstance(c, ast.Call) and norm_stmt(c.func) == "self.distribution.compute_samples"]
    ctx.ob("19.6-order", cname(PS, "ParameterSpace", "compute_samples"), len(sm) == 1 and sm[0].args and dotted(sm[0].args[0]) == "n_samples", "compute_samples must sample the joint distribution n_samples times", node=(sm or [f])[0])
    # add_random_vector
    f = idx.method(PS, "ParameterSpace", "add_random_vector")
    con = cname(PS, "ParameterSpace", "add_random_vector")
    defs = _defs(f)
    cfg = cfg_of(f)
    av = rules.self_calls(f, "add_variable")
    ok = len(av) == 1
    if ok:
        c = av[0]
        sig = [p for p in param_names(idx.method(DS, "DesignSpace", "add_variable")) if p != "self"]
        given = {sig[i]: a for i, a in enumerate(c.args)}
        given.update({k.arg: k.value for k in c.keywords})
        want = {"name": "name", "size": "self.distributions[name].dimension", "lower_bound": "self.distributions[name].math_lower_bound", "upper_bound": "self.distributions[name].math_upper_bound", "value": "self.distributions[name].mean"}
        # every argument with the locals it reads unfolded (``d = self.distributions[name]; d.mean`` is ``self.distributions[name].mean``)
        alts = {k: sorted({norm_stmt(a) for a in (unfolded(f, given[k]) or [given[k]])}) if given.get(k) is not None else [] for k in want}
        got = {k: (v[0] if len(v) == 1 else " | ".join(v)) for k, v in alts.items()}
        # ``d = <joint>; self.distributions[name] = d; ... d.mean``: an attribute of the very value stored under the name
        # (the one store, made on every path before the call) is the attribute of ``self.distributions[name]``
        sts = [s_ for s_ in stmts_of(f) if isinstance(s_, ast.Assign) and len(s_.targets) == 1 and norm_stmt(s_.targets[0]) == "self.distributions[name]"]
        if len(sts) == 1 and cfg.dominates(cfg.node_of(sts[0]), cfg.node_of(rules.enclosing_stmt(f, c))):
            stored = {norm_stmt(a) for a in (unfolded(f, sts[0].value) or [sts[0].value])}
            for k, w in want.items():
                prefix, _, attr = w.rpartition(".")
                if prefix == "self.distributions[name]" and alts[k] and set(alts[k]) == {f"{t_}.{attr}" for t_ in stored}:
                    got[k] = w
        ok = got == want
    ctx.ob("19.6-design-variable", con, bool(ok), f"a random vector must enter the design space with the dimension, the support and the mean of its own distribution (got {got if av else None})", node=(av or [f])[0], stmt="add_variable(name, dimension, support, mean)")
    st = [s for s in stmts_of(f) if isinstance(s, ast.Assign) and norm_stmt(s.targets[0]) == "self.distributions[name]"]
    ap = [s for s in stmts_of(f) if isinstance(s, ast.Expr) and norm_stmt(s.value) == "self.uncertain_variables.append(name)"]
    rb = rules.self_calls(f, "build_joint_distribution")
    ok = len(st) == 1 and len(ap) == 1 and len(rb) == 1 and av
    if ok:
        n_st, n_ap, n_rb, n_av = (cfg.node_of(rules.enclosing_stmt(f, x)) for x in (st[0], ap[0], rb[0], av[0]))
        ok = cfg.dominates(n_st, n_rb) and cfg.dominates(n_ap, n_rb) and cfg.dominates(n_st, n_av)
        v = _resolve(st[0].value, defs)
        ok = ok and isinstance(v, ast.Call) and norm_stmt(_resolve(v.func, defs)).endswith("JOINT_DISTRIBUTION_CLASS") and bool(v.args) and dotted(v.args[0]) == "marginals"
    ctx.ob("19.6-design-variable", con, bool(ok), "the distribution of the vector is the joint distribution of its marginals, stored under its name and registered before the joint distribution is rebuilt", node=(st or [f])[0], stmt="distributions[name] stored, name appended, then rebuild")
    # one marginal per component with the component's own parameters
    loops = [s for s in stmts_of(f) if isinstance(s, ast.For) and any(isinstance(c, ast.Call) and dotted(c.func) == "marginals.append" for c in ast.walk(s))]
    ok = len(loops) == 1 and norm_stmt(loops[0].iter) == "range(size)" and isinstance(loops[0].target, ast.Name)
    if ok:
        i = loops[0].target.id
        subs = [n_ for n_ in ast.walk(loops[0]) if isinstance(n_, ast.Subscript) and isinstance(n_.ctx, ast.Load) and isinstance(n_.value, ast.Name) and n_.value.id in ("v", "value")]
        ok = bool(subs) and all(dotted(n_.slice) == i for n_ in subs)
    ctx.ob("19.6-design-variable", con, bool(ok), "the i-th marginal must be built from the i-th value of every parameter", node=(loops or [f])[0], stmt="marginal i from parameter values [i]")
    # remove / rename
    f = idx.method(PS, "ParameterSpace", "remove_variable")
    con = cname(PS, "ParameterSpace", "remove_variable")
    # ``del d[name]`` or, as a statement, ``d.pop(name)`` (without a default: a missing distribution stays an error)
    dl = [s for s in stmts_of(f) if (isinstance(s, ast.Delete) and any(norm_stmt(t) == "self.distributions[name]" for t in s.targets)) or (isinstance(s, ast.Expr) and norm_stmt(s.value) == "self.distributions.pop(name)")]
    rm = [s for s in stmts_of(f) if isinstance(s, ast.Expr) and norm_stmt(s.value) == "self.uncertain_variables.remove(name)"]
    sc = rules.super_calls(f, "remove_variable")
    # the design variable is removed exactly once whatever the path (one call after the branches, or one per branch)
    cfg = cfg_of(f)
    sn = [cfg.node_of(rules.enclosing_stmt(f, c)) for c in sc if cfg.has(rules.enclosing_stmt(f, c))]
    once = bool(sc) and len(sn) == len(sc) == len(set(sn)) and all(len(c.args) == 1 and not c.keywords and dotted(c.args[0]) == "name" for c in sc)
    once = once and cfg.escape_path(cfg.entry, sn) is None and not any(a != b and cfg.path(a, b) is not None for a in sn for b in sn)
    once = once and not any(isinstance(lp, (ast.For, ast.While)) and any(x is c for x in ast.walk(lp) for c in sc) for lp in stmts_of(f))
    ctx.ob("19.6-remove", con, len(dl) == 1 and len(rm) == 1 and once, "removing a random variable removes its distribution, its entry of uncertain_variables and the design variable of the same name", node=f, stmt="distribution, uncertain name and design variable removed together")
    f = idx.method(PS, "ParameterSpace", "rename_variable")
    con = cname(PS, "ParameterSpace", "rename_variable")
    defs = _defs(f)
    moved = set()
    for s in stmts_of(f):
        if isinstance(s, ast.Assign) and isinstance(s.targets[0], ast.Subscript) and dotted(s.targets[0].slice) == "new_name" and isinstance(s.value, ast.Call) and last_attr(s.value) == "pop" and dotted(s.value.args[0]) == "current_name":
            a = norm_stmt(_resolve_at(s.targets[0].value, f, s))
            b = norm_stmt(_resolve_at(s.value.func.value, f, s))
            if a == b:
                moved.add(a)
    pos = [s for s in stmts_of(f) if isinstance(s, ast.Assign) and isinstance(s.targets[0], ast.Subscript) and norm_stmt(s.targets[0].value) == "self.uncertain_variables" and dotted(s.value) == "new_name"]
    ok = {"self.distributions", "self.__uncertain_variables_to_definitions"} <= moved and len(pos) == 1
    if ok:
        p = _resolve(pos[0].targets[0].slice, defs)
        ok = norm_stmt(p) == "self.uncertain_variables.index(current_name)"
    ctx.ob("19.6-rename", con, bool(ok), "renaming a random variable must move its distribution and its definition to the new name and keep its position in uncertain_variables", node=f, stmt="distribution, definition and position follow the new name")
    sc = rules.super_calls(f, "rename_variable")
    ctx.ob("19.6-rename", con, len(sc) == 1 and [dotted(a) for a in sc[0].args] == ["current_name", "new_name"], "the design variable must be renamed too", node=(sc or [f])[0])


def _resolve_at(e: ast.AST, func: ast.AST, at: ast.stmt) -> ast.AST:
    """Resolve a name to the value of its latest assignment textually before ``at`` (straight-line blocks)."""
    if not isinstance(e, ast.Name):
        return e
    best = None
    for s in stmts_of(func):
        if isinstance(s, ast.Assign) and any(isinstance(t, ast.Name) and t.id == e.id for t in s.targets) and s.lineno < at.lineno:
            if best is None or s.lineno > best.lineno:
                best = s
    return best.value if best is not None else e


# ---------------------------------------------------------------- 19.7
# functional computed by a routine (library documentation, frozen)
EMPIRICAL_TAGS = {
    "numpy.mean": "mean",
    "numpy.std": "standard-deviation",
    "numpy.var": "variance",
    "numpy.max": "maximum",
    "numpy.min": "minimum",
    "numpy.quantile": "quantile",
    "scipy.stats.moment": "central-moment",
    "numpy.all": None,
}
PARAMETRIC_TAGS = {
    "mean": "mean",
    "standard_deviation": "standard-deviation",
    "math_upper_bound": "maximum",
    "math_lower_bound": "minimum",
    "compute_inverse_cdf": "quantile",
    "getMoment": "raw-moment",
    "compute_cdf": "cdf",
}
SAME_FUNCTIONAL = ["compute_mean", "compute_standard_deviation", "compute_variance", "compute_maximum", "compute_minimum", "compute_quantile", "compute_moment"]


# methods of a NumPy array computing the same functional as the NumPy function (same defaults, e.g. ddof=0)
NDARRAY_METHODS = {"mean": "numpy.mean", "std": "numpy.std", "var": "numpy.var", "max": "numpy.max", "min": "numpy.min", "all": "numpy.all"}
NDARRAY_MAKERS = {"to_numpy", "toarray"}


def _library_routine(mod, call: ast.Call) -> str | None:
    """Qualified name of the NumPy/SciPy routine a call evaluates: ``mean(a, 0)`` with ``from numpy import mean``,
    ``np.mean(a, 0)`` with ``import numpy as np`` and ``a.mean(0)`` when ``a`` is visibly a NumPy array
    (``....to_numpy()`` or the result of a NumPy function)."""
    name = dotted(call.func)
    if name:
        head, _, rest = name.partition(".")
        if head in mod.imports and (isinstance(call.func, ast.Name) or mod.imports[head] in ("numpy", "scipy", "scipy.stats")):
            return mod.imports[head] + ("." + rest if rest else "")
    if isinstance(call.func, ast.Attribute) and call.func.attr in NDARRAY_METHODS and isinstance(call.func.value, ast.Call):
        recv = call.func.value
        if isinstance(recv.func, ast.Attribute) and recv.func.attr in NDARRAY_MAKERS:
            is_array = True
        else:
            is_array = (_library_routine(mod, recv) or "").startswith("numpy.")
        if is_array:
            return NDARRAY_METHODS[call.func.attr]
    return None


_FLIP = {"ge": "le", "le": "ge", "gt": "lt", "lt": "gt"}
_CMP_OPS = {ast.GtE: "ge", ast.LtE: "le", ast.Gt: "gt", ast.Lt: "lt"}


def _comparisons_with(mod, expr: ast.AST, name: str) -> list[str]:
    """The order relations ``<other> REL <something reading name>`` evaluated in ``expr``, as operator names, whether
    written with the functions of ``operator`` / NumPy (``ge(x, t)``, ``greater_equal(x, t)``) or as ``x >= t`` / ``t <= x``."""
    funcs = {"operator.ge": "ge", "operator.le": "le", "operator.gt": "gt", "operator.lt": "lt", "numpy.greater_equal": "ge", "numpy.less_equal": "le", "numpy.greater": "gt", "numpy.less": "lt"}

    def reads(e):
        return any(isinstance(x, ast.Name) and x.id == name for x in ast.walk(e))

    out = []
    for n in ast.walk(expr):
        rel = left = right = None
        if isinstance(n, ast.Call) and len(n.args) == 2 and not n.keywords and _library_routine(mod, n) in funcs:
            rel, (left, right) = funcs[_library_routine(mod, n)], n.args
        elif isinstance(n, ast.Compare) and len(n.ops) == 1 and type(n.ops[0]) in _CMP_OPS:
            rel, left, right = _CMP_OPS[type(n.ops[0])], n.left, n.comparators[0]
        if rel is None or reads(left) == reads(right):
            continue
        out.append(rel if reads(right) else _FLIP[rel])
    return out


def _subst_names(e: ast.AST, bind: dict[str, ast.AST]) -> ast.AST:
    """Deep copy of ``e`` with the names of ``bind`` (read) replaced by copies of their expressions."""
    import copy

    class B(ast.NodeTransformer):
        def visit_Name(self, x):  # noqa: N802
            return copy.deepcopy(bind[x.id]) if isinstance(x.ctx, ast.Load) and x.id in bind else x

    return B().visit(copy.deepcopy(e))


def _applied(func: ast.AST) -> ast.AST:
    """Copy of ``func`` with the local function applications and the chained maps written out.

    ``f = lambda p: B`` (``f`` bound once; the engine turns a single-return nested ``def`` into this form) makes
    ``f(a)`` the expression ``B[p := a]``; ``[E(v) for v in [G(i) for i in X]]`` is ``[E(G(i)) for i in X]`` (element by
    element the same values in the same order; the expressions concerned are pure).  A rewriting that could capture a
    name (a free name of ``B`` or ``E`` bound somewhere else) is not made.
    """
    import copy

    func = copy.deepcopy(func)
    stores: dict[str, int] = {}
    for n in ast.walk(func):
        if isinstance(n, ast.Name) and isinstance(n.ctx, ast.Store):
            stores[n.id] = stores.get(n.id, 0) + 1
    lambdas = {}
    for s_ in stmts_of(func):
        if isinstance(s_, ast.Assign) and len(s_.targets) == 1 and isinstance(s_.targets[0], ast.Name) and isinstance(s_.value, ast.Lambda) and stores.get(s_.targets[0].id) == 1:
            a = s_.value.args
            params = [x.arg for x in a.args]
            free = {x.id for x in ast.walk(s_.value.body) if isinstance(x, ast.Name)} - set(params)
            if a.vararg or a.kwarg or a.kwonlyargs or a.posonlyargs or a.defaults or any(stores.get(v) for v in free):
                continue
            if any(isinstance(x, (ast.Lambda, ast.ListComp, ast.SetComp, ast.DictComp, ast.GeneratorExp, ast.NamedExpr)) for x in ast.walk(s_.value.body)):
                continue
            lambdas[s_.targets[0].id] = (params, s_.value.body)

    class R(ast.NodeTransformer):
        def visit_Call(self, n):  # noqa: N802
            self.generic_visit(n)
            if isinstance(n.func, ast.Name) and n.func.id in lambdas and not n.keywords and not any(isinstance(a, ast.Starred) for a in n.args):
                params, body = lambdas[n.func.id]
                if len(params) == len(n.args):
                    new = _subst_names(body, dict(zip(params, n.args)))
                    return ast.copy_location(new, n)
            return n

        def _fuse(self, n):
            self.generic_visit(n)
            if len(n.generators) != 1:
                return n
            g = n.generators[0]
            inner = g.iter
            if g.ifs or g.is_async or not isinstance(g.target, ast.Name) or not isinstance(inner, (ast.ListComp, ast.GeneratorExp)):
                return n
            bound = {x.id for c in inner.generators for x in ast.walk(c.target) if isinstance(x, ast.Name)}
            reads = {x.id for x in ast.walk(n.elt) if isinstance(x, ast.Name)} - {g.target.id}
            if bound & reads or g.target.id in bound or any(c.is_async for c in inner.generators):
                return n
            n.elt = _subst_names(n.elt, {g.target.id: inner.elt})
            n.generators = inner.generators
            return n

        visit_ListComp = visit_GeneratorExp = _fuse  # noqa: N815

    func = R().visit(func)
    ast.fix_missing_locations(func)
    return func


def _under(func: ast.AST, facts: dict[str, bool]) -> ast.AST:
    """``func`` specialised on ``facts`` (expression text -> value), the statements of the branches not taken removed."""
    from gv.shapes import specialise

    g = specialise(func, facts)

    def prune(stmts):
        out = []
        for s_ in stmts:
            if isinstance(s_, ast.If) and isinstance(s_.test, ast.Constant) and isinstance(s_.test.value, bool):
                out += prune(s_.body if s_.test.value else s_.orelse)
                continue
            for field in ("body", "orelse", "finalbody"):
                if isinstance(getattr(s_, field, None), list) and not isinstance(s_, (ast.FunctionDef, ast.AsyncFunctionDef, ast.ClassDef)):
                    setattr(s_, field, prune(getattr(s_, field)))
            out.append(s_)
            if isinstance(s_, (ast.Return, ast.Raise)):
                break
        return out

    g.body = prune(g.body) or [ast.Pass()]
    return g


def _arithmetic_context(root: ast.AST, node: ast.AST) -> ast.AST:
    """The largest arithmetic expression (binary / unary operators) ``node`` is an operand of, ``node`` itself if none."""
    from gv.astutil import parents_map

    par = parents_map(root)
    while isinstance(par.get(id(node)), (ast.BinOp, ast.UnaryOp)):
        node = par[id(node)]
    return node


def check_statistics(ctx: Ctx) -> None:
    idx = ctx.index
    emod = idx.module(ES)
    es = idx.cls(ES, "EmpiricalStatistics")
    pst = idx.cls(PST, "ParametricStatistics")
    ddofs: dict = {}
    for m in SAME_FUNCTIONAL:
        fe, fp = es.methods.get(m), pst.methods.get(m)
        con = cname(PST, "ParametricStatistics", m)
        if fe is None or fp is None:
            raise AnalysisError(f"{m} is not implemented by both statistics classes")
        etags = set()
        ekw = {}
        for c in walk_body(fe):
            if not isinstance(c, ast.Call):
                continue
            q = _library_routine(emod, c)
            if q is not None and q.startswith(("numpy.", "scipy.")):
                tag = EMPIRICAL_TAGS.get(q, q)  # an unknown routine is its own functional: it cannot agree
                if tag:
                    etags.add(tag)
                    ekw[tag] = {k.arg: norm_stmt(k.value) for k in c.keywords}
        ptags = set()
        for n in walk_body(fp):
            if isinstance(n, ast.Attribute) and n.attr in PARAMETRIC_TAGS and (norm_stmt(n.value).endswith(".value") or norm_stmt(n.value).endswith(".value.distribution")):
                tag = PARAMETRIC_TAGS[n.attr]
                ptags.add(tag)
        squares = [n for n in walk_body(fp) if isinstance(n, ast.BinOp) and isinstance(n.op, ast.Pow) and isinstance(n.right, ast.Constant) and n.right.value == 2 and isinstance(n.left, ast.Attribute) and n.left.attr == "standard_deviation"]
        if squares and ptags == {"standard-deviation"}:
            ptags = {"variance"}
        ctx.ob(
            "19.7-estimators",
            con,
            etags == ptags and len(etags) == 1,
            f"{m}: the empirical statistics compute the {sorted(etags)} of the samples, the parametric statistics the {sorted(ptags)} of the fitted law: the two implementations of one statistic differ",
            node=fp,
            stmt=f"{m}: empirical {'/'.join(sorted(etags))} vs parametric {'/'.join(sorted(ptags))}",
        )
        if m in ("compute_standard_deviation", "compute_variance"):
            ddofs[m] = (ekw.get(next(iter(etags), ""), {}).get("ddof", "0"), fe)
    a_, b_ = ddofs.get("compute_standard_deviation"), ddofs.get("compute_variance")
    if a_ and b_:
        ctx.ob("19.7-estimators", cname(ES, "EmpiricalStatistics", "compute_variance"), a_[0] == b_[0], f"the empirical variance (ddof={b_[0]}) is not the square of the empirical standard deviation (ddof={a_[0]})", node=b_[1], stmt="variance and standard deviation use the same ddof")
    # tails of compute_probability
    fe, fp = es.methods["compute_probability"], pst.methods["compute_probability"]
    # the comparison of the samples with the threshold under each value of ``greater`` (operator.ge / a >= b / b <= a ...)
    p_thr = _first_param(fe)
    rets_e = [s_ for s_ in stmts_of(fe) if isinstance(s_, ast.Return) and s_.value is not None]
    rel = {}
    for value in (True, False):
        found = set()
        for r_ in rets_e:
            for a in unfolded(fe, r_, facts={"greater": value}, get=lambda s_: s_.value) or []:
                cmps = _comparisons_with(emod, a, p_thr)
                found.add(cmps[0] if len(cmps) == 1 else None)
        rel[value] = next(iter(found)) if len(found) == 1 else None
    ok = rel == {True: "ge", False: "le"} and not any(isinstance(n, ast.Name) and n.id == "greater" and isinstance(n.ctx, ast.Store) for n in ast.walk(fe))
    ctx.ob("19.7-tails", cname(ES, "EmpiricalStatistics", "compute_probability"), ok, f"the empirical probability is the frequency of X >= threshold when greater, of X <= threshold otherwise (found {rel})", node=(rets_e or [fe])[0], stmt="ge iff greater")
    # the value kept for a component under each value of ``greater``: the cdf at the threshold as it is, or one minus
    # it -- whatever carries the selection (conditional expression, local function, statement) and however the list is
    # chained
    fpn = _applied(fp)
    sel = [n for n in ast.walk(fp) if isinstance(n, (ast.IfExp, ast.If)) and any(isinstance(x, ast.Name) and x.id == "greater" for x in ast.walk(n.test))]
    shape = {}
    for value in (True, False):
        g_ = _under(fpn, {"greater": value})
        cdfs = [c for c in ast.walk(g_) if isinstance(c, ast.Call) and last_attr(c) == "compute_cdf"]
        if len(cdfs) != 1:
            shape[value] = None
            continue
        e_ = _arithmetic_context(g_, cdfs[0])
        if e_ is cdfs[0]:
            shape[value] = "cdf"
        elif isinstance(e_, ast.BinOp) and isinstance(e_.op, ast.Sub) and isinstance(e_.left, ast.Constant) and not isinstance(e_.left.value, bool) and e_.left.value == 1 and e_.right is cdfs[0]:
            shape[value] = "1 - cdf"
        else:
            shape[value] = norm_stmt(e_, 60)
    ok = shape == {True: "1 - cdf", False: "cdf"} and not any(isinstance(n, ast.Name) and n.id == "greater" and isinstance(n.ctx, ast.Store) for n in ast.walk(fp))
    ctx.ob("19.7-tails", cname(PST, "ParametricStatistics", "compute_probability"), bool(ok), f"the parametric probability is 1 - cdf(threshold) when greater, cdf(threshold) otherwise (found {shape})", node=(sel or [fp])[0], stmt="1 - cdf iff greater")
    # component i of a variable: threshold i with the distribution of component i
    comps = [n for n in ast.walk(fpn) if isinstance(n, (ast.ListComp, ast.GeneratorExp)) and any(isinstance(c, ast.Call) and last_attr(c) == "compute_cdf" for c in ast.walk(n.elt))]
    ok = len(comps) == 1 and len(comps[0].generators) == 1
    if ok:
        g = comps[0].generators[0]
        ok = isinstance(g.iter, ast.Call) and dotted(g.iter.func) in ("enumerate", "zip")
        if ok and dotted(g.iter.func) == "enumerate" and isinstance(g.target, ast.Tuple):
            i, d = (dotted(e) for e in g.target.elts)
            c = next(c for c in ast.walk(comps[0].elt) if isinstance(c, ast.Call) and last_attr(c) == "compute_cdf")
            a = c.args[0] if c.args else None
            ok = dotted(c.func.value).split(".")[0] == d and isinstance(a, ast.Subscript) and dotted(a.slice) == i and isinstance(a.value, ast.Subscript)
        elif ok:
            names = [dotted(e) for e in g.target.elts] if isinstance(g.target, ast.Tuple) else []
            c = next(c for c in ast.walk(comps[0].elt) if isinstance(c, ast.Call) and last_attr(c) == "compute_cdf")
            ok = len(names) == 2 and c.args and dotted(c.args[0]) in names and dotted(c.func.value).split(".")[0] in names and dotted(c.args[0]) != dotted(c.func.value).split(".")[0]
    ctx.ob("19.7-tails", cname(PST, "ParametricStatistics", "compute_probability"), bool(ok), "component i of a variable is compared with ITS threshold: the cdf of the i-th fitted distribution is evaluated at the i-th threshold", node=(comps or [fp])[0], stmt="threshold i with distribution i")
    # ... and the thresholds given per component are used as given: a threshold is replicated over the components only
    # when there is a single one (a number, or a sequence of length one)
    cfgp = cfg_of(fp)
    thr = None
    for c_ in ast.walk(fp):
        if isinstance(c_, ast.Call) and last_attr(c_) == "compute_cdf" and c_.args:
            a_ = c_.args[0]
            while isinstance(a_, ast.Subscript):
                a_ = a_.value
            thr = dotted(a_) if isinstance(a_, ast.Name) and a_.id not in [p_.arg for p_ in fp.args.args] else thr
    # the values stored per name, with the conditions under which each is: ``thr[name] = v`` under the tests of the
    # enclosing statements, or the alternatives of the value of ``thr = {name: v if c else w for ...}``
    def leaves(e, facts):
        if isinstance(e, ast.IfExp):
            lits = conj_literals(e.test)
            yes, no = dict(facts), dict(facts)
            for pol_, x_ in lits:
                yes[norm_stmt(x_)] = pol_
            if len(lits) == 1:
                no[norm_stmt(lits[0][1])] = not lits[0][0]
            return [*leaves(e.body, yes), *leaves(e.orelse, no)]
        return [(e, facts)]

    stores_ = []
    for s_ in stmts_of(fp):
        if not isinstance(s_, ast.Assign) or thr is None or len(s_.targets) != 1:
            continue
        if isinstance(s_.targets[0], ast.Subscript) and dotted(s_.targets[0].value) == thr:
            stores_ += [(v_, f_, s_) for v_, f_ in leaves(s_.value, literal_facts(cfgp, cfgp.node_of(s_)))]
        elif dotted(s_.targets[0]) == thr and isinstance(s_.value, ast.DictComp):
            stores_ += [(v_, f_, s_) for v_, f_ in leaves(s_.value.value, literal_facts(cfgp, cfgp.node_of(s_)))]
    kept = False
    for v_s, facts, s_ in stores_:
        single = any(v_ and ("isinstance(" in k_ and ("float" in k_ or "Number" in k_ or "Real" in k_)) for k_, v_ in facts.items()) or any(v_ and k_.replace(" ", "") .startswith("len(") and k_.replace(" ", "").endswith("==1") for k_, v_ in facts.items())
        replicated = isinstance(v_s, ast.BinOp) and isinstance(v_s.op, ast.Mult)
        if replicated:
            ctx.ob("19.7-tails", cname(PST, "ParametricStatistics", "compute_probability"), single, f"a threshold is replicated over the components (`{norm_stmt(v_s, 50)}`) although it is not known to be single (conditions: {sorted(k_ for k_, v_ in facts.items() if v_)}): the thresholds of the other components are ignored", node=s_, stmt="replicated only if single")
        else:
            kept = kept or not single
    ctx.ob("19.7-tails", cname(PST, "ParametricStatistics", "compute_probability"), kept or not stores_, "thresholds given per component must be used as given", node=(stores_[0][2] if stores_ else fp), stmt="per-component thresholds kept")
    for cls, rel, f in (("EmpiricalStatistics", ES, es.methods["compute_range"]), ("ParametricStatistics", PST, pst.methods["compute_range"])):
        subs = [n for n in walk_body(f) if isinstance(n, ast.BinOp) and isinstance(n.op, ast.Sub)]
        ok = len(subs) == 1
        if ok:
            left, right = norm_stmt(subs[0].left), norm_stmt(subs[0].right)
            defs = _defs(f)
            if cls == "EmpiricalStatistics":
                comp = next((n for n in walk_body(f) if isinstance(n, ast.DictComp)), None)
                ok = comp is not None and "compute_maximum" in norm_stmt(comp.generators[0].iter) and left == dotted(comp.generators[0].target.elts[1]) and "compute_minimum" in norm_stmt(_resolve(subs[0].right.value, defs)) and dotted(subs[0].right.slice) == dotted(comp.generators[0].target.elts[0])
            else:
                ok = left.endswith("math_upper_bound") and right.endswith("math_lower_bound") and left.rsplit(".", 1)[0] == right.rsplit(".", 1)[0]
        ctx.ob("19.7-tails", cname(rel, cls, "compute_range"), bool(ok), "the range is maximum minus minimum of the same variable", node=(subs or [f])[0], stmt="range = maximum - minimum")
    ctx.floor("19.7-estimators", 9)


def check_bounds_follow_the_law(ctx: Ctx) -> None:
    """19.9: an OpenTURNS law is built in stages (base law, transformation, truncation), each re-binding the law; the
    support and range kept by the object (``math_*`` / ``num_*`` bounds) are those of the law AS IT IS at each point
    where they are consulted -- the truncation checks its bounds against them -- and when the construction ends: after
    every re-binding of the law, the bounds are set from it again before any method that reads them runs, and before
    the end."""
    cls = ctx.index.cls(OTD, "OTDistribution")
    f = cls.methods["_create_distribution"]
    con = cname(OTD, "OTDistribution", "_create_distribution")
    cfg = cfg_of(f)
    setters = [c for c in walk_body(f) if isinstance(c, ast.Call) and isinstance(c.func, ast.Attribute) and c.func.attr.endswith("__set_bounds") and dotted(c.func.value) == "self" and len(c.args) == 1]
    ctx.need(setters, "_create_distribution: no call of __set_bounds found")
    law = dotted(setters[0].args[0])
    binds = [s_ for s_ in stmts_of(f) if isinstance(s_, ast.Assign) and any(dotted(t) == law for t in s_.targets)]
    ctx.need(len(binds) >= 2, "_create_distribution: the stages re-binding the law were not found")
    bound_attrs = {"math_lower_bound", "math_upper_bound", "num_lower_bound", "num_upper_bound"}

    def reads_bounds(m) -> bool:
        return any(isinstance(x, ast.Attribute) and x.attr in bound_attrs and dotted(x.value) == "self" and isinstance(x.ctx, ast.Load) for x in ast.walk(m))

    readers = []
    for c in walk_body(f):
        if isinstance(c, ast.Call) and isinstance(c.func, ast.Attribute) and dotted(c.func.value) == "self":
            m = cls.methods.get(c.func.attr) or cls.methods.get(mangle(cls.name, c.func.attr))
            if m is not None and reads_bounds(m):
                readers.append(c)
    set_nodes = {cfg.node_of(rules.enclosing_stmt(f, c)) for c in setters if dotted(c.args[0]) == law}
    bind_nodes = {cfg.node_of(b) for b in binds}
    n = 0
    for b in binds:
        bn = cfg.node_of(b)
        targets = [(cfg.node_of(rules.enclosing_stmt(f, r)), f"`{norm_stmt(r, 50)}` reads them") for r in readers] + [(cfg.exit, "the construction ends")]
        for tn, why in targets:
            if tn == bn or not cfg.reachable(bn, tn):
                continue
            n += 1
            esc = cfg.path(bn, tn, (set_nodes | bind_nodes) - {bn, tn})
            ctx.ob("19.9-bounds-follow", con, esc is None, f"after `{norm_stmt(b, 60)}` the bounds kept by the object are still those of the previous stage when {why}: admissible truncation bounds are checked against the support of the law before its transformation", node=b, stmt=f"bounds set again after `{norm_stmt(b, 40)}` before {'the end' if tn == cfg.exit else 'they are read'}")
    ctx.floor("19.9-bounds-follow", 4)


def run(ctx: Ctx) -> None:
    check_bounds_follow_the_law(ctx)
    check_forwarding(ctx)
    check_transform_pair(ctx)
    check_delegation(ctx)
    check_families(ctx)
    check_bounds(ctx)
    check_space(ctx)
    check_statistics(ctx)


_SPU = UD + "scipy/uniform.py"
_SPT = UD + "scipy/triangular.py"
_SPE = UD + "scipy/exponential.py"
_SPL = UD + "scipy/log_normal.py"
_OTW = UD + "openturns/weibull.py"
_OTB = UD + "openturns/beta.py"
WITNESSES = [
    {"name": "seeded-C19-10", "file": "uncertainty/distributions/openturns/distribution.py", "old": "\n        self.__set_bounds(distribution)\n        if lower_bound is not None or upper_bound is not None:\n", "new": "\n        if lower_bound is not None or upper_bound is not None:\n", "expect": "19.9", "note": "OTDistribution no longer refreshes its bounds between the transformation and the"},
    {"name": "deterministic-path-drops-out", "file": PS, "old": "return super().normalize_vect(x_vect, minus_lb=minus_lb, out=out)", "new": "return super().normalize_vect(x_vect, minus_lb=minus_lb)", "expect": "19.1"},
    {"name": "affine-part-drops-no-check", "file": PS, "old": "            x_vect, minus_lb=minus_lb, no_check=no_check\n        )\n        x_u = ", "new": "            x_vect, minus_lb=minus_lb\n        )\n        x_u = ", "expect": "19.1"},
    {"name": "untransform-uses-cdf", "file": PS, "old": "data_sizes, data_names), inverse=True", "new": "data_sizes, data_names), inverse=False", "expect": "19.2"},
    {"name": "transform-uses-inverse-cdf", "file": PS, "old": "        x_n = self.evaluate_cdf(dict_sample)", "new": "        x_n = self.evaluate_cdf(dict_sample, inverse=True)", "expect": "19.2"},
    {"name": "transform-without-distributions", "file": PS, "old": "return self.normalize_vect(vector, use_dist=True, out=out)", "new": "return self.normalize_vect(vector, use_dist=False, out=out)", "expect": "19.2"},
    {"name": "untransform-drops-no-check", "file": PS, "old": "return self.unnormalize_vect(vector, use_dist=True, no_check=no_check, out=out)", "new": "return self.unnormalize_vect(vector, use_dist=True, out=out)", "expect": "19.2"},
    {"name": "dispatch-inverted", "file": PS, "old": "        if not use_dist:\n            return super().normalize_vect(", "new": "        if use_dist:\n            return super().normalize_vect(", "expect": "19.2"},
    {"name": "concatenate-in-uncertain-order", "file": PS, "old": "        return concatenate_dict_of_arrays_to_array(x_u, data_names)", "new": "        return concatenate_dict_of_arrays_to_array(x_u, [*self.uncertain_variables, *self.deterministic_variables])", "expect": "19.2"},
    {"name": "cdf-polarity-swapped", "file": PS, "old": "\"compute_inverse_cdf\" if inverse else \"compute_cdf\"", "new": "\"compute_cdf\" if inverse else \"compute_inverse_cdf\"", "expect": "19.2"},
    {"name": "cdf-of-first-variable", "file": PS, "old": "compute = getattr(self.distributions[name], method_name)", "new": "compute = getattr(self.distributions[self.uncertain_variables[0]], method_name)", "expect": "19.2"},
    {"name": "fallback-for-present-names", "file": PS, "old": "missing_names = [name for name in self if name not in x_u]", "new": "missing_names = [name for name in self if name in x_u]", "expect": "19.2"},
    {"name": "fallback-from-unit-vector", "file": PS, "old": "            x_n[name] = x_n_geom[name]", "new": "            x_n[name] = dict_sample[name]", "expect": "19.2"},
    {"name": "scipy-inverse-cdf-is-isf", "file": SPD, "old": "return self.distribution.ppf(value)", "new": "return self.distribution.isf(value)", "expect": "19.3"},
    {"name": "scipy-std-is-var", "file": SPD, "old": "return self.distribution.std()", "new": "return self.distribution.var()", "expect": "19.3"},
    {"name": "openturns-mean-is-std", "file": OTD, "old": "return self.distribution.getMean()[0]", "new": "return self.distribution.getStandardDeviation()[0]", "expect": "19.3"},
    {"name": "joint-cdf-reversed-marginals", "file": SPJ, "old": "            marginal.distribution.cdf(value_)\n            for value_, marginal in zip(value, self.marginals)", "new": "            marginal.distribution.cdf(value_)\n            for value_, marginal in zip(value, reversed(self.marginals))", "expect": "19.3"},
    {"name": "joint-mean-of-first-marginal", "file": BJ, "old": "return array([marginal.mean for marginal in self.marginals])", "new": "return array([self.marginals[0].mean for marginal in self.marginals])", "expect": "19.3"},
    {"name": "uniform-scale-is-maximum", "file": _SPU, "old": "\"scale\": maximum - minimum", "new": "\"scale\": maximum", "expect": "19.4"},
    {"name": "triangular-mode-not-shifted", "file": _SPT, "old": "\"c\": (mode - minimum) / float(maximum - minimum)", "new": "\"c\": mode / float(maximum - minimum)", "expect": "19.4"},
    {"name": "exponential-scale-is-rate", "file": _SPE, "old": "\"scale\": 1 / rate", "new": "\"scale\": rate", "expect": "19.4"},
    {"name": "lognormal-scale-is-log-mean", "file": _SPL, "old": "\"scale\": exp(log_mu)", "new": "\"scale\": log_mu", "expect": "19.4"},
    {"name": "weibull-shape-scale-swapped", "file": _OTW, "old": "parameters=(scale, shape, location)", "new": "parameters=(shape, scale, location)", "expect": "19.4"},
    {"name": "weibull-min-max-swapped", "file": _OTW, "old": "\"WeibullMin\" if use_weibull_min else \"WeibullMax\"", "new": "\"WeibullMax\" if use_weibull_min else \"WeibullMin\"", "expect": "19.4"},
    {"name": "lognormal-helper-variance", "file": LNU, "old": "    sigma_l = (2 * (log(mu_location) - mu_l)) ** 0.5", "new": "    sigma_l = 2 * (log(mu_location) - mu_l)", "expect": "19.4"},
    {"name": "lognormal-helper-location-ignored", "file": LNU, "old": "    mu_location = mu - location", "new": "    mu_location = mu", "expect": "19.4"},
    {"name": "lognormal-set-log-inverted", "file": _SPL, "old": "        if set_log:", "new": "        if not set_log:", "expect": "19.4"},
    {"name": "beta-default-differs", "file": _OTB, "old": "        alpha: float = 2.0,", "new": "        alpha: float = 1.0,", "expect": "19.4"},
    {"name": "range-from-support", "file": BD, "old": "return array([self.num_lower_bound, self.num_upper_bound])", "new": "return array([self.math_lower_bound, self.math_upper_bound])", "expect": "19.5"},
    {"name": "joint-upper-from-lower", "file": BJ, "old": "            distribution.num_upper_bound for distribution in distributions", "new": "            distribution.num_lower_bound for distribution in distributions", "expect": "19.5"},
    {"name": "scipy-upper-range-at-eps", "file": SPD, "old": "self.num_upper_bound = distribution.ppf(1 - extrema_level)", "new": "self.num_upper_bound = distribution.ppf(extrema_level)", "expect": "19.5"},
    {"name": "openturns-infinities-swapped", "edits": [{"file": OTD, "old": "            lower_bound = -inf", "new": "            lower_bound = inf"}, {"file": OTD, "old": "            upper_bound = inf", "new": "            upper_bound = -inf"}], "expect": "19.5"},
    {"name": "openturns-finite-test-inverted", "file": OTD, "old": "        if not range_.getFiniteLowerBound()[0]:", "new": "        if range_.getFiniteLowerBound()[0]:", "expect": "19.5"},
    {"name": "bounds-before-truncation", "file": OTD, "old": "        self.__set_bounds(distribution)\n        self.distribution = distribution", "new": "        self.distribution = distribution", "expect": "19.5"},
    {"name": "remove-without-rebuild", "file": PS, "old": "            self.uncertain_variables.remove(name)\n            self.build_joint_distribution()", "new": "            self.uncertain_variables.remove(name)", "expect": "19.6"},
    {"name": "rebuild-only-when-non-empty", "file": PS, "old": "            self.uncertain_variables.remove(name)\n            self.build_joint_distribution()", "new": "            self.uncertain_variables.remove(name)\n            if self.uncertain_variables:\n                self.build_joint_distribution()", "expect": "19.6"},
    {"name": "stale-joint-when-empty", "file": PS, "old": "        else:\n            self.distribution = None\n", "new": "", "expect": "19.6"},
    {"name": "samples-split-in-space-order", "file": PS, "old": "data_array, self.variable_sizes, self.uncertain_variables", "new": "data_array, self.variable_sizes, self.variable_names", "expect": "19.6"},
    {"name": "bounds-from-numerical-range", "file": PS, "old": "        l_b = self.distributions[name].math_lower_bound", "new": "        l_b = self.distributions[name].num_lower_bound", "expect": "19.6"},
    {"name": "rename-keeps-old-distribution-key", "file": PS, "old": "            dict_ = self.distributions\n            dict_[new_name] = dict_.pop(current_name)\n", "new": "", "expect": "19.6"},
    {"name": "joint-in-sorted-order", "file": PS, "old": "                for name in self.uncertain_variables\n                for marginal in self.distributions[name].marginals", "new": "                for name in sorted(self.uncertain_variables)\n                for marginal in self.distributions[name].marginals", "expect": "19.6"},
    {"name": "marginals-share-first-parameter", "file": PS, "old": "            kwargs = {k: v[i] for k, v in parameters.items()}", "new": "            kwargs = {k: v[0] for k, v in parameters.items()}", "expect": "19.6"},
    {"name": "empirical-std-unbiased-variance-biased", "file": ES, "old": "name: std(self.dataset.get_view(variable_names=name).to_numpy(), 0)", "new": "name: std(self.dataset.get_view(variable_names=name).to_numpy(), 0, ddof=1)", "expect": "19.7"},
    {"name": "parametric-variance-is-std", "file": PST, "old": "                distribution.value.standard_deviation**2", "new": "                distribution.value.standard_deviation", "expect": "19.7"},
    {"name": "parametric-tail-swapped", "file": PST, "old": "func = lambda x: 1 - x if greater else x", "new": "func = lambda x: x if greater else 1 - x", "expect": "19.7"},
    {"name": "empirical-tail-swapped", "file": ES, "old": "        operator = ge if greater else le\n        return {\n            name: mean(\n                operator(", "new": "        operator = le if greater else ge\n        return {\n            name: mean(\n                operator(", "expect": "19.7"},
    {"name": "parametric-maximum-is-numerical", "file": PST, "old": "                distribution.value.math_upper_bound\n                for distribution", "new": "                distribution.value.num_upper_bound\n                for distribution", "expect": "19.7"},
    {"name": "empirical-mean-is-median", "edits": [{"file": ES, "old": "from numpy import mean\n", "new": "from numpy import mean\nfrom numpy import median\n"}, {"file": ES, "old": "name: mean(self.dataset.get_view(variable_names=name).to_numpy(), 0)", "new": "name: median(self.dataset.get_view(variable_names=name).to_numpy(), 0)"}], "expect": "19.7"},
    {"name": "parametric-probability-first-threshold", "file": PST, "old": "func(distribution.value.compute_cdf(new_thresh[name][index]))", "new": "func(distribution.value.compute_cdf(new_thresh[name][0]))", "expect": "19.7"},
    {"name": "parametric-mean-is-std", "file": PST, "old": "                distribution.value.mean for distribution in self.__distributions[name]", "new": "                distribution.value.standard_deviation for distribution in self.__distributions[name]", "expect": "19.7"},
]
TWINS = [
    {"name": "uniform-scale-rewritten", "file": _SPU, "old": "\"scale\": maximum - minimum", "new": "\"scale\": -(minimum - maximum)"},
    {"name": "triangular-without-float", "file": _SPT, "old": "\"c\": (mode - minimum) / float(maximum - minimum)", "new": "\"c\": (mode - minimum) / (maximum - minimum)"},
    {"name": "names-through-property", "file": PS, "old": "        data_names = self._variables.keys()\n        data_sizes = self.variable_sizes\n        dict_sample", "new": "        data_names = self.variable_names\n        data_sizes = self.variable_sizes\n        dict_sample"},
    {"name": "polarity-written-negatively", "file": PS, "old": "\"compute_inverse_cdf\" if inverse else \"compute_cdf\"", "new": "\"compute_cdf\" if not inverse else \"compute_inverse_cdf\""},
    {"name": "lognormal-helper-closed-form", "file": LNU, "old": "    sigma_l = (2 * (log(mu_location) - mu_l)) ** 0.5", "new": "    sigma_l = log((sigma / mu_location) ** 2 + 1) ** 0.5"},
    {"name": "exponential-scale-rewritten", "file": _SPE, "old": "\"scale\": 1 / rate", "new": "\"scale\": rate ** -1"},
]
