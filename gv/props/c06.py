"""C06 -- MDA algorithms: four structural necessary conditions of reaching the fixed point."""

from __future__ import annotations

import ast

from gv import rules
from gv.astutil import compare_parts
from gv.astutil import const_value
from gv.astutil import AnalysisError
from gv.astutil import arg_or_kw
from gv.astutil import dotted
from gv.astutil import kwarg
from gv.astutil import last_attr
from gv.astutil import names_in
from gv.astutil import norm_stmt
from gv.astutil import stmts_of
from gv.astutil import walk_body
from gv.cfg import cfg_of
from gv.props.shared import merge_order
from gv.props.shared import unfolded
from gv.props import describe
from gv.props.shared import branch_conditions
from gv.props.shared import conj_literals
from gv.dataflow import SymValues
from gv.report import Ctx
from gv.report import cname

BM = "mda/base_mda.py"
BS = "mda/base_mda_solver.py"
GS = "mda/gauss_seidel.py"
JA = "mda/jacobi.py"
NR = "mda/newton_raphson.py"
QN = "mda/quasi_newton.py"
ASM = "core/derivatives/jacobian_assembly.py"
JOP = "core/derivatives/jacobian_operator.py"

describe(
    "C06",
    explanation=(
        "Convergence of the MDA algorithms is numerical and is NOT decided. Decided: structural necessary "
        "conditions without which no run can satisfy the fixed-point equations: every residual scaling of the "
        "enum is implemented; the residual compares two distinct states (snapshot vs live data); the iteration "
        "loops end only on the stop criterion evaluated after the residuals; every _execute resets the per-run "
        "state through super(); the Newton direction has the right sign parity across residual definition, "
        "-I on the residual Jacobian diagonal, right-hand side and update, and is linearised at the "
        "pre-execution snapshot."
    ),
    decided=["6.1 residual scalings exhaustive", "6.2 residual compares distinct states", "6.3 loop exit only on the criterion", "6.4 per-run reset", "6.5 Newton sign parity", "6.6 tolerance and iteration budget are cascaded", "6.7 a sequence stops early on its own tolerance only", "6.1 every coupling is monitored by the sub-residual scaling", "6.6 cascade by validated assignment"],
    not_decided=["convergence to the fixed point", "agreement between algorithms", "acceleration/relaxation numerics", "warm start"],
)


def check_scalings(ctx: Ctx) -> None:
    enum = ctx.index.cls(BM, "BaseMDA.ResidualScaling")
    members = [t.id for s in enum.node.body if isinstance(s, ast.Assign) for t in s.targets if isinstance(t, ast.Name)]
    ctx.need(len(members) >= 2, "BaseMDA.ResidualScaling members not found")
    f = ctx.index.method(BS, "BaseMDASolver", "_compute_normalized_residual_norm")
    con = cname(BS, "BaseMDASolver", "_compute_normalized_residual_norm")
    handled: dict[str, list[ast.stmt]] = {}
    chain = None
    for s in stmts_of(f):
        if isinstance(s, ast.If):
            cp = compare_parts(s.test)
            if cp and cp[1] is ast.Eq and (dotted(cp[2]) or "").startswith("ResidualScaling."):
                # head of the chain is the one not nested in another such If's orelse
                if chain is None:
                    chain = s
    ctx.need(chain is not None, "_compute_normalized_residual_norm: the scaling dispatch was not found")
    cur = chain
    else_body = []
    while True:
        cp = compare_parts(cur.test)
        ok_shape = cp and cp[1] is ast.Eq and (dotted(cp[2]) or "").startswith("ResidualScaling.")
        ctx.need(ok_shape, "scaling dispatch: unexpected test " + norm_stmt(cur.test))
        handled[dotted(cp[2]).split(".")[-1]] = cur.body
        if len(cur.orelse) == 1 and isinstance(cur.orelse[0], ast.If):
            cur = cur.orelse[0]
        else:
            else_body = cur.orelse
            break
    for m in members:
        body = handled.get(m)
        ok = body is not None and any(isinstance(x, (ast.Assign, ast.AugAssign)) and "normed_residual" in {n.id for t in (x.targets if isinstance(x, ast.Assign) else [x.target]) for n in ast.walk(t) if isinstance(n, ast.Name)} for b in body for x in ast.walk(b))
        ctx.ob("6.1-exhaustive", con, ok, f"the residual scaling {m} has no branch computing the normed residual: the MDA cannot converge (or crashes) with this documented setting", node=chain, stmt=f"ResidualScaling.{m} handled")
    extra = sorted(set(handled) - set(members))
    ctx.ob("6.1-exhaustive", con, not extra, f"the dispatch handles members that the enum does not define: {extra}", node=chain, stmt="no unknown member")
    ok = any(isinstance(x, ast.Raise) or (isinstance(x, ast.Call) and dotted(x.func) == "ResidualScaling") for b in else_body for x in ast.walk(b))
    ctx.ob("6.1-exhaustive", con, ok, "the fall-through branch of the scaling dispatch must raise for an unknown scaling", node=chain, stmt="fall-through raises")
    ctx.floor("6.1-exhaustive", 6)
    # the sub-residual scaling monitors EVERY coupling: a coupling whose first sub-residual is zero is scaled by 1, it is
    # not left out of the criterion (it may move later, e.g. in a ring of couplings solved by Jacobi iterations)
    from gv.props.shared import literal_facts

    body = handled.get("INITIAL_SUBRESIDUAL_NORM") or []
    cfgf = cfg_of(f)
    apps = [c for b in body for c in ast.walk(b) if isinstance(c, ast.Call) and isinstance(c.func, ast.Attribute) and c.func.attr == "append" and isinstance(c.func.value, ast.Name)]
    comps = [c for b in body for c in ast.walk(b) if isinstance(c, (ast.ListComp, ast.GeneratorExp))]
    ok = bool(apps) or bool(comps)
    for c in apps:
        if not cfgf.has(c):
            continue
        for k_ in literal_facts(cfgf, cfgf.node_of(c)):
            if "norm" in k_ and "scaling_data" not in k_:
                ok = False
    for c in comps:
        if any(g_.ifs for g_ in c.generators):
            ok = False
    dflt = [c for b in body for c in ast.walk(b) if isinstance(c, ast.Call) and dotted(c.func) in ("max", "np_max", "amax") and any(k.arg in ("default", "initial") for k in c.keywords)]
    ctx.ob("6.1-every-coupling", con, ok and not dflt, "with the initial sub-residual scaling every coupling takes part in the stop criterion: the list of (slice, initial norm) is filled for every slice, a zero initial norm being replaced by 1; filtering on the norm (or a default for an empty maximum) lets the MDA stop while an unmonitored coupling is still moving", node=(apps or comps or [chain])[0], stmt="every coupling slice is monitored")


def _is_copy_of_live(e: ast.AST) -> bool:
    return isinstance(e, ast.Call) and ((isinstance(e.func, ast.Attribute) and e.func.attr == "copy" and dotted(e.func.value) == "self.io.data") or (dotted(e.func) in ("deepcopy", "copy", "dict") and e.args and dotted(e.args[0]) == "self.io.data"))


def _truth_form(e: ast.AST) -> tuple[int, str]:
    """(sign, text) of a test with the spellings that do not change its truth value removed: ``not``, ``bool(x)``,
    ``x == True`` / ``x != False`` (and their negations; not ``is True``, which is false for a numpy boolean); a boolean
    constant is (1, "True") or (-1, "True")."""
    sign = 1
    while True:
        if isinstance(e, ast.UnaryOp) and isinstance(e.op, ast.Not):
            sign, e = -sign, e.operand
        elif isinstance(e, ast.Call) and dotted(e.func) == "bool" and len(e.args) == 1 and not e.keywords:
            e = e.args[0]
        elif isinstance(e, ast.Compare) and len(e.ops) == 1 and isinstance(e.ops[0], (ast.Eq, ast.NotEq)) and isinstance(const_value(e.comparators[0]), bool):
            if const_value(e.comparators[0]) is isinstance(e.ops[0], ast.NotEq):
                sign = -sign
            e = e.left
        elif isinstance(e, ast.Constant) and isinstance(e.value, bool):
            return (sign if e.value else -sign, "True")
        else:
            return sign, ast.unparse(e)


def check_loops(ctx: Ctx) -> None:
    for rel, cls in ((GS, "MDAGaussSeidel"), (JA, "MDAJacobi"), (NR, "MDANewtonRaphson")):
        f = ctx.index.method(rel, cls, "_execute")
        con = cname(rel, cls, "_execute")
        cfg = cfg_of(f)
        loops = [s for s in stmts_of(f) if isinstance(s, ast.While)]
        ctx.need(len(loops) == 1, f"{cls}._execute: iteration loop not found")
        lp = loops[0]
        ln = cfg.node_of(lp)
        start = cfg.branch[(ln, True)]
        # 6.2 snapshot
        res = [c for c in ast.walk(lp) if isinstance(c, ast.Call) and last_attr(c) == "_compute_residuals" and dotted(c.func.value) == "self"]
        ctx.need(len(res) == 1, f"{cls}._execute: _compute_residuals call not found in the loop")
        arg = dotted(res[0].args[0]) if res[0].args else None
        defs = [s for s in ast.walk(lp) if isinstance(s, ast.Assign) and dotted(s.targets[0]) == arg]
        runs = [c for c in ast.walk(lp) if isinstance(c, ast.Call) and last_attr(c) == "_execute_disciplines_and_update_local_data"]
        ctx.need(len(runs) == 1, f"{cls}._execute: discipline execution not found in the loop")
        rn, cn = cfg.node_of(runs[0]), cfg.node_of(res[0])
        ok = len(defs) == 1 and _is_copy_of_live(defs[0].value)
        ctx.ob("6.2-snapshot", con, ok, "the 'before' data handed to _compute_residuals must be a copy of the local data: an alias of the live data makes every residual zero, so the loop stops at once on a non-converged point", node=(defs or [res[0]])[0])
        if len(defs) == 1:
            dn = cfg.node_of(defs[0])
            ok = cfg.path(start, rn, avoid={dn}) is None and cfg.path(dn, cn, avoid={rn}) is None and cfg.path(rn, dn, avoid={ln}) is None
            ctx.ob("6.2-snapshot", con, ok, "in each iteration the snapshot must be taken before the disciplines run and the residuals computed after", node=defs[0], stmt="snapshot -> run -> residuals")
        # 6.3 exits: the loop is left only when the stop criterion, read after the residuals of the iteration, holds.
        # The criterion may be tested directly (`if crit: break` / `return`) or through a local and the loop test
        # (`done = crit` ... `while not done`): tests are unfolded before they are classified.
        from gv.dataflow import SymValues

        sv = SymValues(f)
        CRIT = "self._stop_criterion_is_reached"

        def outcome(test_expr) -> int:
            """+1: the test is the criterion; -1: its negation; 0: something else."""
            alts = sv.exprs(test_expr) if sv.cfg.has(test_expr) else [test_expr]
            forms = {_truth_form(a_) for a_ in alts}
            if forms and forms <= {(1, CRIT), (1, "True")} and (1, CRIT) in forms:
                return 1
            if forms and forms <= {(-1, CRIT), (1, "True")} and (-1, CRIT) in forms:
                return -1
            return 0

        def under_criterion(node_id: int) -> bool:
            for t, v in branch_conditions(cfg, node_id):
                if t == ln or not any(sub is cfg.ast[t] for sub in ast.walk(lp)):
                    continue
                o = outcome(cfg.ast[t].test)
                if (o == 1 and v) or (o == -1 and not v):
                    return True
            return False

        exits = [s_ for s_ in ast.walk(lp) if isinstance(s_, (ast.Break, ast.Return))]
        by_test = const_value(lp.test) is not True
        if by_test:
            ctx.ob("6.3-exit", con, outcome(lp.test) == -1, f"the loop test `{norm_stmt(lp.test, 40)}` must be the negation of the stop criterion read in the previous iteration (or `while True` left by a break)", node=lp, stmt="loop left only when the criterion holds")
        else:
            ctx.ob("6.3-exit", con, bool(exits), "`while True` without any exit", node=lp, stmt="loop left only when the criterion holds")
        for b in exits:
            ctx.ob("6.3-exit", con, under_criterion(cfg.node_of(b)), "the loop may only be left when self._stop_criterion_is_reached", node=b)
        reads = [n_ for n_ in ast.walk(lp) if isinstance(n_, ast.Attribute) and dotted(n_) == CRIT]
        ctx.ob("6.3-exit", con, bool(reads) and not any(sub in reads for sub in ast.walk(lp.test)), "the stop criterion must be read inside the loop, after the iteration's residuals (read in the loop test it is the value left by the previous execution)", node=lp, stmt="criterion read in the body")
        for r_ in reads:
            if any(sub is r_ for sub in ast.walk(lp.test)):
                continue
            tn = cfg.node_of(r_)
            ok2 = cfg.path(start, tn, avoid={cn}) is None
            ctx.ob("6.3-exit", con, ok2, "the stop criterion must be evaluated after the residuals of the current iteration have been computed", node=cfg.ast[tn], stmt="criterion after _compute_residuals")
        # 6.3 update
        upd = [c for c in ast.walk(lp) if isinstance(c, ast.Call) and last_attr(c) == "_update_local_data_from_array"]
        ctx.need(len(upd) == 1, f"{cls}._execute: coupling update not found")
        un = cfg.node_of(upd[0])
        ok = cfg.path(start, un, avoid={cn}) is None and bool(upd[0].args)
        ctx.ob("6.3-update", con, ok, "the couplings must be updated from the transformed iterate after the residual evaluation of the iteration", node=upd[0])
    # quasi-Newton callback
    f = ctx.index.method(QN, "MDAQuasiNewton", "__compute_residuals")
    con = cname(QN, "MDAQuasiNewton", "__compute_residuals")
    cfg = cfg_of(f)
    res = rules.self_calls(f, "_compute_residuals")
    ctx.need(len(res) == 1 and res[0].args, "MDAQuasiNewton.__compute_residuals: _compute_residuals call not found")
    arg = dotted(res[0].args[0])
    cn = cfg.node_of(res[0])
    defs = [s for s in stmts_of(f) if isinstance(s, ast.Assign) and dotted(s.targets[0]) == arg]
    ok = False
    if len(defs) == 1 and _is_copy_of_live(defs[0].value):
        ok = True
    elif len(defs) == 1 and dotted(defs[0].value) == "self.io.data":
        # live data captured, then replaced by a copy before the disciplines run
        repl = [s for s in stmts_of(f) if isinstance(s, ast.Assign) and dotted(s.targets[0]) == "self.io.data"]
        if len(repl) == 1:
            src = dotted(repl[0].value)
            sdefs = [s for s in stmts_of(f) if isinstance(s, ast.Assign) and dotted(s.targets[0]) == src]
            dn, pn = cfg.node_of(defs[0]), cfg.node_of(repl[0])
            ok = len(sdefs) == 1 and _is_copy_of_live(sdefs[0].value) and cfg.path(dn, cn, avoid={pn}) is None and not cfg.reachable(pn, dn)
    ctx.ob("6.2-snapshot", con, ok, "the data the residuals are computed against must be a different object from the live local data that the disciplines update (copy, or capture-then-replace-by-copy)", node=(defs or [res[0]])[0])
    runs = rules.self_calls(f, "_execute_disciplines_and_update_local_data")
    ok = len(runs) == 1 and cfg.path(cfg.entry, cn, avoid={cfg.node_of(runs[0])}) is None and runs[0].args and dotted(runs[0].args[0]) == arg
    ctx.ob("6.2-snapshot", con, bool(ok), "the disciplines must run on the trial couplings before the residuals are computed", node=(runs or [res[0]])[0], stmt="run(trial data) before residuals")
    ctx.floor("6.2-snapshot", 7)
    ctx.floor("6.3-exit", 9)


def _any_all_as_boolop(e: ast.AST) -> ast.AST:
    """``any((a, b))`` / ``any([a, b])`` -> ``a or b`` and ``all(...)`` -> ``a and b`` (a copy)."""
    import copy

    class R(ast.NodeTransformer):
        def visit_Call(self, n):  # noqa: N802
            self.generic_visit(n)
            if dotted(n.func) in ("any", "all") and len(n.args) == 1 and not n.keywords and isinstance(n.args[0], (ast.Tuple, ast.List)) and len(n.args[0].elts) >= 2 and not any(isinstance(x, ast.Starred) for x in n.args[0].elts):
                return ast.copy_location(ast.BoolOp(op=ast.Or() if dotted(n.func) == "any" else ast.And(), values=list(n.args[0].elts)), n)
            return n

    return ast.fix_missing_locations(R().visit(copy.deepcopy(e)))


def _decides(expr: ast.AST, classify, spec, where=None) -> bool:
    """Is the boolean expression ``expr`` a predicate that only compares operands recognised by ``classify`` (operand ->
    short name or None) and equal to ``spec`` on every ordering of them, whatever its spelling?"""
    from gv.ordering import Unsupported
    from gv.ordering import same_predicate

    atoms = {}
    for c in ast.walk(expr):
        if isinstance(c, ast.Compare):
            for o in [c.left, *c.comparators]:
                k = classify(o)
                if k is not None:
                    atoms[ast.unparse(o)] = k
    if len(set(atoms.values())) != 2:
        return False
    fn = ast.fix_missing_locations(ast.Module(body=[ast.Return(value=_any_all_as_boolop(expr))], type_ignores=[]))
    try:
        return same_predicate(fn, atoms, spec, where=where)[0]
    except Unsupported:
        return False


def check_predicate(ctx: Ctx) -> None:
    from gv.ordering import Unsupported
    from gv.ordering import same_predicate

    f = ctx.index.method(BS, "BaseMDASolver", "_stop_criterion_is_reached")
    con = cname(BS, "BaseMDASolver", "_stop_criterion_is_reached")
    cfg = cfg_of(f)
    norm_calls = rules.self_calls(f, "_compute_normalized_residual_norm")
    warn_calls = rules.self_calls(f, "_warn_convergence_criteria")
    rets = [s for s in stmts_of(f) if isinstance(s, ast.Return)]
    # the value returned is `first criterion or second criterion`, whatever the spelling (one expression, guard
    # clauses, any((..)), a local): decided over the truth values of the two results of _warn_convergence_criteria
    ok = None
    binds = [s for s in f.body if isinstance(s, ast.Assign) and len(s.targets) == 1 and len(warn_calls) == 1 and s.value is warn_calls[0]]
    if len(binds) == 1:
        t = binds[0].targets[0]
        atoms = None
        if isinstance(t, ast.Tuple) and len(t.elts) == 2 and all(isinstance(x, ast.Name) for x in t.elts):
            atoms = {t.elts[0].id: "small", t.elts[1].id: "budget"}
        elif isinstance(t, ast.Name):
            atoms = {f"{t.id}[0]": "small", f"{t.id}[1]": "budget"}
        if atoms is not None:
            body = [s for k_, s in enumerate(f.body) if s is not binds[0] and not (isinstance(s, ast.Expr) and isinstance(s.value, (ast.Call, ast.Constant)))]
            fn = ast.fix_missing_locations(ast.Module(body=[_any_all_as_boolop(s) for s in body], type_ignores=[]))
            try:
                ok = same_predicate(fn, atoms, lambda small, budget: small != 0 or budget != 0)[0]
            except Unsupported:
                ok = None
    if ok is None:
        ok = len(rets) == 1 and isinstance(rets[0].value, ast.BoolOp) and isinstance(rets[0].value.op, ast.Or) and len(rets[0].value.values) == 2
    if not ok and len(rets) == 1:
        # `any(self._warn_convergence_criteria())`: the disjunction of the two criteria
        v_ = rets[0].value
        ok = isinstance(v_, ast.Call) and dotted(v_.func) == "any" and len(v_.args) == 1 and all(isinstance(a_, ast.Call) and last_attr(a_) == "_warn_convergence_criteria" for a_ in (unfolded(f, v_.args[0]) or [v_.args[0]]))
    ctx.ob("6.3-predicate", con, ok, "the stop criterion is `residual is small or maximum number of iterations reached`", node=(rets or [f])[0])
    ok = len(norm_calls) == 1 and rets and all(cfg.dominates(cfg.node_of(norm_calls[0]), cfg.node_of(r_)) for r_ in rets)
    ctx.ob("6.3-predicate", con, bool(ok), "the normed residual must be (re)computed before it is tested", node=(norm_calls or [f])[0])
    w = ctx.index.method(BS, "BaseMDASolver", "_warn_convergence_criteria")
    con2 = cname(BS, "BaseMDASolver", "_warn_convergence_criteria")
    a = {dotted(s.targets[0]): s for s in stmts_of(w) if isinstance(s, ast.Assign)}
    rets = [s for s in stmts_of(w) if isinstance(s, ast.Return)]
    pair = len(rets) == 1 and isinstance(rets[0].value, (ast.Tuple, ast.List)) and len(rets[0].value.elts) == 2
    first, second = rets[0].value.elts if pair else (None, None)

    def element_is(elt, classify, spec, where=None) -> bool:
        if elt is None:
            return False
        alts = unfolded(w, elt) or [elt]
        return all(_decides(a_, classify, spec, where) for a_ in alts)

    def residual_operand(o):
        d = dotted(o) or ""
        return "r" if d == "self.normed_residual" else ("t" if d.endswith("settings.tolerance") else None)

    def budget_operand(o):
        d = dotted(o) or ""
        return "m" if d.endswith("settings.max_mda_iter") else ("i" if d == "self._current_iter" else None)

    # normed_residual < tolerance is accepted as well as <= (the two differ on equality only)
    ok = element_is(first, residual_operand, lambda r, t: r <= t, where=lambda r, t: r != t)
    ctx.ob("6.3-predicate", con2, ok, "the residual is small when normed_residual <= tolerance", node=a.get(dotted(first)) or (rets or [w])[0])
    ok = element_is(second, budget_operand, lambda i, m: m <= i)
    ctx.ob("6.3-predicate", con2, ok, "the iteration budget is reached when max_mda_iter <= current_iter", node=a.get(dotted(second)) or (rets or [w])[0])
    ctx.ob("6.3-predicate", con2, pair, "the two criteria must be returned in the order they are unpacked", node=(rets or [w])[0])


def check_resets(ctx: Ctx) -> None:
    base = ctx.index.cls(BM, "BaseMDA")
    n = 0
    for cls, f in ctx.index.overriders(base, "_execute"):
        if cls == base:
            continue
        n += 1
        con = cname(cls.module.relpath, cls.qualname, "_execute")
        first = rules.first_effectful_stmt(f)
        sup = rules.super_calls(f, "_execute")
        ok = first is not None and len(sup) >= 1 and any(sub is sup[0] for sub in ast.walk(first)) and isinstance(first, ast.Expr)
        ctx.ob("6.4-reset", con, ok, f"{cls.name}._execute must start with super()._execute(): the per-run state (warm start, sequence transformer of the previous run) is otherwise carried into this run and changes the returned solution", node=(sup or [f])[0])
    ctx.floor("6.4-reset", 6)
    s = ctx.index.method(BS, "BaseMDASolver", "_execute")
    clears = [c for c in walk_body(s) if isinstance(c, ast.Call) and norm_stmt(c.func) == "self._sequence_transformer.clear"]
    ok = len(clears) == 1
    if ok:
        cfg = cfg_of(s)
        ok = cfg.escape_path(cfg.entry, {cfg.node_of(rules.enclosing_stmt(s, clears[0]))}) is None
    ctx.ob("6.4-reset", cname(BS, "BaseMDASolver", "_execute"), ok, "the solver base must clear the acceleration/relaxation history at the start of every run, whatever the settings (a warm start keeps the couplings, not the residual history of the previous inputs)", node=(clears or [s])[0], stmt="sequence transformer cleared on every path")


CST = "algos/sequence_transformer/composite/composite.py"
CHN = "mda/mda_chain.py"


def _keyed_stores(func: ast.AST, name: str) -> list[ast.AST]:
    """``for t in it: [if c:] name[k] = v`` as the mapping ``{k: v for t in it [if c]}`` merged into ``name`` (in the
    order of the loops; a loop doing anything else is not understood and yields a node that no rule accepts)."""
    out = []
    for st in stmts_of(func):
        if not isinstance(st, ast.For) or not any(isinstance(x, ast.Subscript) and isinstance(x.ctx, ast.Store) and dotted(x.value) == name for x in ast.walk(st)):
            continue
        body, ifs = st.body, []
        while len(body) == 1 and isinstance(body[0], ast.If) and not body[0].orelse:
            ifs.append(body[0].test)
            body = body[0].body
        one = body[0] if len(body) == 1 else None
        if st.orelse or not (isinstance(one, ast.Assign) and len(one.targets) == 1 and isinstance(one.targets[0], ast.Subscript) and dotted(one.targets[0].value) == name):
            out.append(st)
            continue
        comp = ast.DictComp(key=one.targets[0].slice, value=one.value, generators=[ast.comprehension(target=st.target, iter=st.iter, ifs=ifs, is_async=0)])
        out.append(ast.copy_location(comp, st))
    return out


def _is_chain_base_settings(func: ast.AST, e: ast.AST) -> bool:
    """``{k: v for k, v in self.settings if k in BaseMDASettings.model_fields}``, as a dict comprehension or as a
    generator / list of pairs (``update((k, v) for ...)``)."""
    if isinstance(e, ast.DictComp):
        key, value = e.key, e.value
    elif isinstance(e, (ast.GeneratorExp, ast.ListComp)) and isinstance(e.elt, ast.Tuple) and len(e.elt.elts) == 2:
        key, value = e.elt.elts
    else:
        return False
    if len(e.generators) != 1:
        return False
    gen = e.generators[0]
    if not (isinstance(gen.target, ast.Tuple) and len(gen.target.elts) == 2 and all(isinstance(x, ast.Name) for x in gen.target.elts)):
        return False
    k_, v_ = (x.id for x in gen.target.elts)

    def texts(x):
        return {norm_stmt(a_) for a_ in (unfolded(func, x) or [x])}

    if not (dotted(key) == k_ and dotted(value) == v_ and k_ != v_ and texts(gen.iter) == {"self.settings"}):
        return False
    lits = [x for t in gen.ifs for x in conj_literals(t)]
    if len(lits) != 1 or not lits[0][0]:
        return False
    cp = compare_parts(lits[0][1])
    if not cp or cp[1] is not ast.In or dotted(cp[0]) != k_:
        return False
    box = cp[2]
    if isinstance(box, ast.Call) and isinstance(box.func, ast.Attribute) and box.func.attr == "keys" and not box.args:
        box = box.func.value
    return texts(box) == {"BaseMDASettings.model_fields"}


def check_composition(ctx: Ctx) -> None:
    """Relaxation after acceleration (and any composition): stage k transforms the output of stage k-1."""
    f = ctx.index.method(CST, "CompositeSequenceTransformer", "compute_transformed_iterate")
    con = cname(CST, "CompositeSequenceTransformer", "compute_transformed_iterate")
    p_iter, p_res = [a.arg for a in f.args.args if a.arg != "self"][:2]
    loops = [st for st in stmts_of(f) if isinstance(st, ast.For) and norm_stmt(st.iter) == "self._sequence_transformers"]
    ok = len(loops) == 1 and isinstance(loops[0].target, ast.Name)
    run_var = None
    if ok:
        t = loops[0].target.id
        calls = [c for c in ast.walk(loops[0]) if isinstance(c, ast.Call) and isinstance(c.func, ast.Attribute) and c.func.attr == "compute_transformed_iterate" and dotted(c.func.value) == t]
        ok = len(calls) == 1 and len(calls[0].args) == 2
        if ok:
            st = rules.enclosing_stmt(f, calls[0])
            ok = isinstance(st, ast.Assign) and isinstance(st.targets[0], ast.Name) and st.value is calls[0]
            if ok:
                run_var = st.targets[0].id
                a, b = calls[0].args
                # the iterate given to the stage is the running one; its residual is taken w.r.t. x_n = iterate - residual
                defs = {x.targets[0].id: x.value for x in stmts_of(f) if isinstance(x, ast.Assign) and isinstance(x.targets[0], ast.Name) and x not in list(ast.walk(loops[0]))}
                def strip(e):
                    while isinstance(e, ast.Call) and isinstance(e.func, ast.Attribute) and e.func.attr == "copy" and not e.args:
                        e = e.func.value
                    return e
                ok = dotted(a) == run_var and isinstance(b, ast.BinOp) and isinstance(b.op, ast.Sub) and dotted(b.left) == run_var and isinstance(b.right, ast.Name)
                if ok:
                    base = strip(defs.get(b.right.id))
                    ok = isinstance(base, ast.BinOp) and isinstance(base.op, ast.Sub) and dotted(base.left) == p_iter and dotted(base.right) == p_res
                    init = strip(defs.get(run_var))
                    ok = ok and dotted(init) == p_iter
    ctx.ob("6.5-composition", con, bool(ok), "each transformer of the composition must receive the iterate produced by the previous one and the residual of THAT iterate with respect to x_n = iterate - residual; feeding the original residual makes relaxation combined with acceleration converge elsewhere or diverge", node=(loops or [f])[0], stmt="stage k gets (x_k, x_k - x_n)")
    rets = [st for st in stmts_of(f) if isinstance(st, ast.Return)]
    ctx.ob("6.5-composition", con, len(rets) == 1 and run_var is not None and dotted(rets[0].value) == run_var, "the composition returns the iterate of the last stage", node=(rets or [f])[0])
    # the chain's own base settings (tolerance, iteration budget, ...) win over the inner settings model
    g = ctx.index.method(CHN, "MDAChain", "__create_inner_mda_settings")
    cong = cname(CHN, "MDAChain", "__create_inner_mda_settings")
    # the mappings unpacked into the inner settings model: **<name> (several ** operands cannot share a key -- the call
    # raises -- so their order is a merge order as well)
    rets = [st for st in stmts_of(g) if isinstance(st, ast.Return)]
    stars = [k.value for r_ in rets if isinstance(r_.value, ast.Call) for k in r_.value.keywords if k.arg is None]
    merged = [dotted(v) for v in stars if isinstance(v, ast.Name)]
    ok = len(rets) == 1 and len(merged) >= 1 and len(merged) == len(stars)
    merges = []
    if ok:
        order = []
        for m_ in merged:
            o_ = merge_order(g, m_)
            order = None if o_ is None or order is None else order + o_ + _keyed_stores(g, m_)
        merges = [st for st in stmts_of(g) if isinstance(st, ast.Assign) and dotted(st.targets[0]) in merged]
        ok = bool(order) and len(order) == 2
        if ok:
            low, high = order
            ok = "inner_mda_settings" in norm_stmt(low) and _is_chain_base_settings(g, high)
    ctx.ob("6.5-inner-settings", cong, bool(ok), "in `inner | chain` the right operand wins: the tolerance and iteration budget requested on the chain must override the defaults of the inner settings model, otherwise the inner MDAs stop early and the chain does not converge to the requested tolerance", node=(merges or [g])[0], stmt="chain base settings override the inner settings model")


def _sub_sign(e: ast.AST, out_names: set[str], in_names: set[str]) -> int | None:
    """+1 for ``out - in``, -1 for ``in - out``."""
    if isinstance(e, ast.BinOp) and isinstance(e.op, ast.Sub):
        l, r = dotted(e.left), dotted(e.right)
        if l in out_names and r in in_names:
            return 1
        if l in in_names and r in out_names:
            return -1
    return None


def check_identity_blocks(ctx: Ctx, prefix: str, want: int = -1) -> None:
    """The identity term of dR/dy in the three matrix representations and for missing blocks."""
    h = ctx.index.method(ASM, "JacobianAssembly", "_get_jacobian_generator")
    con_c = cname(ASM, "JacobianAssembly", "_get_jacobian_generator")
    cfg = cfg_of(h)
    diag = [c for c in walk_body(h) if isinstance(c, ast.Call) and last_attr(c) in ("fill_diagonal", "setdiag")]
    ctx.need(len(diag) == 2, "_get_jacobian_generator: dense and sparse diagonal updates not found")
    for c in diag:
        val = c.args[-1]
        ok = isinstance(val, ast.BinOp) and isinstance(val.op, ast.Sub if want == -1 else ast.Add) and const_value(val.right) == 1 and isinstance(val.left, ast.Call) and last_attr(val.left) == "diagonal"
        ctx.ob(f"{prefix}-identity", con_c, ok, "for a residual outputs - inputs the diagonal block of dR/dy is dY/dy - I: the diagonal must be decreased by 1", node=c)
        # applied to a copy
        tgt = dotted(c.args[0]) if last_attr(c) == "fill_diagonal" else dotted(c.func.value)
        src = dotted(val.left.func.value) if isinstance(val, ast.BinOp) and isinstance(val.left, ast.Call) else None
        # every definition of the target that reaches the in-place update is a copy
        defs_ = [s for s in stmts_of(h) if isinstance(s, ast.Assign) and any(dotted(t) == tgt for t in s.targets) and cfg.has(s)]
        here = cfg.node_of(rules.enclosing_stmt(h, c))
        dn = {cfg.node_of(s): s for s in defs_}
        reaching = [s for n_, s in dn.items() if cfg.path(n_, here, avoid=set(dn) - {n_}) is not None]
        fresh = bool(reaching) and all(isinstance(s.value, ast.Call) and last_attr(s.value) in ("copy", "deepcopy") for s in reaching)
        ctx.ob(f"{prefix}-identity-copy", con_c, fresh and tgt != src, "the identity must be subtracted on a copy: the discipline's own Jacobian must not be modified (a second linearisation would subtract it again)", node=c, stmt=f"{last_attr(c)} on a copy")
    # the three representations are told apart by tests that cover EVERY array of the kind: a block of a sparse type
    # the test does not name (csr_array, csc_matrix, coo...) would go through with its diagonal untouched
    from gv.props.shared import literal_facts

    for c in diag:
        facts = literal_facts(cfg, cfg.node_of(rules.enclosing_stmt(h, c)))
        kinds = []
        for txt, pol in facts.items():
            if not pol:
                continue
            try:
                t_ = ast.parse(txt, mode="eval").body
            except SyntaxError:
                continue
            if isinstance(t_, ast.Call) and dotted(t_.func) == "isinstance" and len(t_.args) == 2:
                cls_ = t_.args[1]
                kinds += [dotted(x) for x in (cls_.elts if isinstance(cls_, ast.Tuple) else [cls_])]
            elif isinstance(t_, ast.Call) and last_attr(t_) == "issparse":
                kinds.append("issparse")
        if last_attr(c) == "setdiag":
            general = {"sparse_classes", "issparse", "SparseArrayType"}
            ok = bool(kinds) and (bool(set(kinds) & general) or {"spmatrix", "sparray"} <= {k.split(".")[-1] for k in kinds if k})
            ctx.ob(f"{prefix}-identity", con_c, ok, f"the sparse form of the identity shift must apply to every sparse block (isinstance(.., sparse_classes) / issparse); it is guarded by {kinds}: a sparse Jacobian of another class keeps its diagonal and dR/dy is wrong", node=c, stmt="sparse shift: for every sparse class")
        else:
            ok = any((k or "").split(".")[-1] == "ndarray" for k in kinds)
            ctx.ob(f"{prefix}-identity", con_c, ok, f"the dense form of the identity shift must apply to every ndarray block; it is guarded by {kinds}", node=c, stmt="dense shift: for every ndarray")
    ops = [c for c in walk_body(h) if isinstance(c, ast.Call) and last_attr(c) == "shift_identity"]
    ctx.ob(f"{prefix}-identity", con_c, len(ops) == 1, "operator Jacobians must be shifted by minus the identity", node=(ops or [h])[0], stmt="operator: shift_identity()")
    si = ctx.index.method(JOP, "JacobianOperator", "shift_identity")
    rets = [s for s in stmts_of(si) if isinstance(s, ast.Return)]
    ok = len(rets) == 1 and isinstance(rets[0].value, ast.BinOp) and isinstance(rets[0].value.op, ast.Sub if want == -1 else ast.Add) and dotted(rets[0].value.left) == "self" and isinstance(rets[0].value.right, ast.Call) and "Identity" in (dotted(rets[0].value.right.func) or "")
    ctx.ob(f"{prefix}-identity", cname(JOP, "JacobianOperator", "shift_identity"), ok, "shift_identity must return self - Identity", node=(rets or [si])[0])
    eyes = [s for s in stmts_of(h) if isinstance(s, ast.Assign) and any(isinstance(c, ast.Call) and last_attr(c) in ("eye", "identity") for c in ast.walk(s.value))]
    ok = len(eyes) == 1 and isinstance(eyes[0].value, ast.UnaryOp) and isinstance(eyes[0].value.op, ast.USub if want == -1 else ast.UAdd)
    ctx.ob(f"{prefix}-identity", con_c, ok, "a missing diagonal block of the residual Jacobian is -I", node=(eyes or [h])[0], stmt="missing block: -eye")
    # the -I terms only on residual rows of the same variable
    for c in [*diag, *ops, *[e.value for e in eyes]]:
        n = cfg.node_of(c)
        lits = []
        from gv.props.shared import conj_literals

        for t, v in branch_conditions(cfg, n):
            if v and cfg.kind[t] == "test":
                lits += conj_literals(cfg.ast[t].test)
        names = {norm_stmt(e) for pz, e in lits if pz}
        ok = "is_residual" in names and ("function == variable" in names or "variable == function" in names)
        ctx.ob(f"{prefix}-identity", con_c, ok, "the identity term belongs only to residual rows, on the block of the same variable", node=c, stmt=f"{norm_stmt(c, 40)} under is_residual and function == variable")


def check_newton_parity(ctx: Ctx) -> None:
    # a. residual in the solver
    f = ctx.index.method(BS, "BaseMDASolver", "_compute_residuals")
    con_a = cname(BS, "BaseMDASolver", "_compute_residuals")
    # the difference may be assigned to a local, stored directly or be one arm of a conditional expression
    subs = [n for n in walk_body(f) if isinstance(n, ast.BinOp) and isinstance(n.op, ast.Sub)]
    ctx.need(len(subs) == 1, "_compute_residuals: the difference defining the residual was not found")
    # which operand comes from self.io.data (outputs after the run) and which from the input_data parameter
    p = f.args.args[1].arg

    def origin(operand):
        """'out' / 'in': the operand (a local, or the expression itself) is converted from the live data / the inputs."""
        kinds = set()
        for alt in unfolded(f, operand) or [operand]:
            ns = {dotted(a) for c in ast.walk(alt) if isinstance(c, ast.Call) for a in c.args}
            kinds.add("out" if "self.io.data" in ns else ("in" if p in ns else None))
        return kinds.pop() if len(kinds) == 1 else None

    s_a = {("out", "in"): 1, ("in", "out"): -1}.get((origin(subs[0].left), origin(subs[0].right)))
    ctx.ob("6.5-residual-def", con_a, s_a is not None, "the residual must be the difference between the outputs after the run (self.io.data) and the inputs before it", node=subs[0])
    # ... and that difference is what is recorded for a resolved variable (the plain output for the others)
    stores = [s_ for s_ in stmts_of(f) if isinstance(s_, ast.Assign) and len(s_.targets) == 1 and isinstance(s_.targets[0], ast.Subscript) and dotted(s_.targets[0].value) == "self._current_residuals"]
    tests = {norm_stmt(n.test) for n in walk_body(f) if isinstance(n, (ast.If, ast.IfExp)) and isinstance(n.test, ast.Compare) and len(n.test.ops) == 1 and isinstance(n.test.ops[0], (ast.In, ast.NotIn)) and dotted(n.test.comparators[0]) == "self._resolved_variable_names"}
    if stores and len(tests) == 1:
        t_ = tests.pop()
        neg = " not in " in t_
        for resolved in (True, False):
            vals = []
            for st_ in stores:
                vals += unfolded(f, st_, facts={t_: resolved != neg}, get=lambda s_: s_.value) or []
            if resolved:
                ok = bool(vals) and all(isinstance(v_, ast.BinOp) and isinstance(v_.op, ast.Sub) and (origin(v_.left), origin(v_.right)) in (("out", "in"), ("in", "out")) for v_ in vals)
                ctx.ob("6.5-residual-def", con_a, ok, "for a variable the MDA resolves, the recorded residual is the difference outputs - inputs (found " + "; ".join(norm_stmt(v_, 60) for v_ in vals) + ")", node=stores[0], stmt="recorded residual of a resolved variable: the difference")
            else:
                ok = bool(vals) and all(origin(v_) == "out" and not any(isinstance(n_, ast.BinOp) for n_ in ast.walk(v_)) for v_ in vals)
                ctx.ob("6.5-residual-def", con_a, ok, "for a residual variable computed by a discipline, the recorded residual is the discipline's own value (found " + "; ".join(norm_stmt(v_, 60) for v_ in vals) + ")", node=stores[0], stmt="recorded residual of a residual variable: the output itself")
    # b. residual in the assembly
    g = ctx.index.method(ASM, "JacobianAssembly", "residuals")
    con_b = cname(ASM, "JacobianAssembly", "residuals")
    pb = g.args.args[1].arg
    subs_b = [n for n in walk_body(g) if isinstance(n, ast.BinOp) and isinstance(n.op, ast.Sub)]
    ctx.need(len(subs_b) == 1, "JacobianAssembly.residuals: the difference was not found")

    def origin_b(operand):
        """'out' / 'in': the operand (a local or the expression itself) is converted from the discipline's data / from
        the data given to the method."""
        kinds = set()
        for alt in unfolded(g, operand) or [operand]:
            kinds.add("out" if any(isinstance(n_, ast.Attribute) and dotted(n_) == "discipline.io.data" for n_ in ast.walk(alt)) else ("in" if pb in names_in(alt) else None))
        return kinds.pop() if len(kinds) == 1 else None

    s_b = {("out", "in"): 1, ("in", "out"): -1}.get((origin_b(subs_b[0].left), origin_b(subs_b[0].right)))
    ctx.ob("6.5-residual-def", con_b, s_b is not None and s_b == s_a, "JacobianAssembly.residuals and BaseMDASolver._compute_residuals must define the residual with the same sign (outputs - inputs)", node=subs_b[0], slots={"solver": s_a, "assembly": s_b})
    check_identity_blocks(ctx, "6.5", -1 if (s_a or 1) == 1 else 1)
    # d. right-hand side
    k = ctx.index.method(ASM, "JacobianAssembly", "compute_newton_step")
    con_d = cname(ASM, "JacobianAssembly", "compute_newton_step")
    lp = [c for c in walk_body(k) if isinstance(c, ast.Call) and dotted(c.func) == "LinearProblem"]
    ctx.need(len(lp) == 1 and len(lp[0].args) >= 2, "compute_newton_step: LinearProblem(lhs, rhs) not found")
    rhs = lp[0].args[1]
    s_rhs = -1 if isinstance(rhs, ast.UnaryOp) and isinstance(rhs.op, ast.USub) and dotted(rhs.operand) == "residuals" else (1 if dotted(rhs) == "residuals" else None)
    lhs_def = [s for s in stmts_of(k) if isinstance(s, ast.Assign) and dotted(s.targets[0]) == dotted(lp[0].args[0])]
    ok_lhs = len(lhs_def) == 1 and isinstance(lhs_def[0].value, ast.Call) and last_attr(lhs_def[0].value) == "assemble_jacobian" and const_value(kwarg(lhs_def[0].value, "is_residual")) is True
    ctx.ob("6.5-newton", con_d, ok_lhs, "the Newton matrix must be the residual Jacobian (is_residual=True)", node=(lhs_def or lp)[0])
    # e. update
    e = ctx.index.method(NR, "MDANewtonRaphson", "_execute")
    con_e = cname(NR, "MDANewtonRaphson", "_execute")
    step_defs = [s for s in stmts_of(e) if isinstance(s, ast.Assign) and isinstance(s.value, ast.Call) and last_attr(s.value).endswith("__compute_newton_step")]
    ctx.need(len(step_defs) == 1, "MDANewtonRaphson._execute: Newton step not found")
    step = dotted(step_defs[0].targets[0])
    upd = [c for c in walk_body(e) if isinstance(c, ast.Call) and last_attr(c) == "compute_transformed_iterate"]
    ctx.need(len(upd) == 1 and upd[0].args, "MDANewtonRaphson._execute: transformed iterate not found")
    it = upd[0].args[0]
    s_upd = None
    if isinstance(it, ast.BinOp) and step in (dotted(it.left), dotted(it.right)):
        s_upd = 1 if isinstance(it.op, ast.Add) else (-1 if isinstance(it.op, ast.Sub) and dotted(it.right) == step else None)
    ok = s_rhs is not None and s_upd is not None and s_rhs * s_upd == -1
    ctx.ob("6.5-newton", con_e, ok, f"Newton: y_new = y - (dR/dy)^-1 R. The product of the right-hand-side sign ({s_rhs}) and the update sign ({s_upd}) must be -1; otherwise the iterate moves away from the solution", node=upd[0], slots={"rhs": s_rhs, "update": s_upd})
    ctx.ob("6.5-newton", con_d, s_rhs is not None, "the right-hand side of the Newton system must be +/- residuals", node=lp[0], stmt="rhs = -residuals")
    # the base point of the update is the input couplings captured before the run
    base = None
    if isinstance(it, ast.BinOp):
        # y + step and step + y are the same point; y - step has its base on the left
        base = dotted(it.right) if isinstance(it.op, ast.Add) and dotted(it.left) == step else dotted(it.left)
    bdefs = [s for s in stmts_of(e) if isinstance(s, ast.Assign) and dotted(s.targets[0]) == base]
    cfg_e = cfg_of(e)
    runs = [c for c in walk_body(e) if isinstance(c, ast.Call) and last_attr(c) == "_execute_disciplines_and_update_local_data"]
    ok = len(bdefs) == 1 and isinstance(bdefs[0].value, ast.Call) and last_attr(bdefs[0].value) == "get_current_resolved_variables_vector" and runs and cfg_e.path(cfg_e.node_of(bdefs[0]), cfg_e.node_of(upd[0]), avoid={cfg_e.node_of(runs[0])}) is None and not cfg_e.reachable(cfg_e.node_of(runs[0]), cfg_e.node_of(bdefs[0]), avoid={cfg_e.node_of(e.body[-1]) if False else -1} | {n for n in cfg_e.g.nodes if cfg_e.kind[n] == "test" and isinstance(cfg_e.ast[n], ast.While)})
    ctx.ob("6.5-newton", con_e, bool(ok), "the Newton step must be added to the couplings that were the inputs of the run (captured before the disciplines execute)", node=(bdefs or [upd[0]])[0], stmt="base point = input couplings")
    # f. linearisation at the snapshot
    res = [c for c in walk_body(e) if isinstance(c, ast.Call) and last_attr(c) == "_compute_residuals"]
    ok = bool(step_defs[0].value.args) and res and dotted(step_defs[0].value.args[0]) == dotted(res[0].args[0])
    ctx.ob("6.5-linearize-at-snapshot", con_e, bool(ok), "the Newton step must be linearised at the pre-execution snapshot (the point at which the residual was evaluated)", node=step_defs[0])
    m = ctx.index.method(NR, "MDANewtonRaphson", "__compute_newton_step")
    lin = rules.self_calls(m, "_linearize_disciplines")
    cs = [c for c in walk_body(m) if isinstance(c, ast.Call) and last_attr(c) == "compute_newton_step"]
    pm = m.args.args[1].arg
    ok = len(lin) == 1 and dotted(lin[0].args[0]) == pm and len(cs) == 1 and dotted(cs[0].args[0]) == pm and cfg_of(m).dominates(cfg_of(m).node_of(lin[0]), cfg_of(m).node_of(cs[0]))
    ctx.ob("6.5-linearize-at-snapshot", cname(NR, "MDANewtonRaphson", "__compute_newton_step"), ok, "the disciplines must be linearised at the given data before the Newton system is assembled with the same data", node=(lin or [m])[0])
    rv = kwarg(cs[0], "residuals") if cs else None
    rv_alts = (unfolded(m, rv) or [rv]) if rv is not None else []
    def _strip_copy(a_):
        return a_.func.value if isinstance(a_, ast.Call) and isinstance(a_.func, ast.Attribute) and a_.func.attr == "copy" and not a_.args else a_

    ok = bool(rv_alts) and all(isinstance(_strip_copy(a_), ast.Call) and last_attr(_strip_copy(a_)) == "get_current_resolved_residual_vector" for a_ in rv_alts)
    ctx.ob("6.5-newton", cname(NR, "MDANewtonRaphson", "__compute_newton_step"), bool(ok), "the Newton system must be solved for the residual vector just computed", node=(cs or [m])[0], stmt="residuals=current residual vector")


def _listed_strings(mod, cls_node: ast.ClassDef, e: ast.AST, depth: int = 0) -> list[str] | None:
    """The string constants a sequence expression is known to contain: a list / tuple / set display (a starred or
    non-constant element only adds names and is skipped), ``tuple(x)`` / ``list(x)`` / ``sorted(x)`` / ``frozenset(x)``,
    ``x + y``, and a name bound once at class or module level to such an expression.  None when not understood."""
    if depth > 4:
        return None
    if isinstance(e, (ast.List, ast.Tuple, ast.Set)):
        out = []
        for x in e.elts:
            if isinstance(x, ast.Constant) and isinstance(x.value, str):
                out.append(x.value)
            elif isinstance(x, ast.Starred):
                out += _listed_strings(mod, cls_node, x.value, depth + 1) or []
        return out
    if isinstance(e, ast.Call) and dotted(e.func) in ("tuple", "list", "sorted", "frozenset", "set") and len(e.args) == 1 and not e.keywords:
        return _listed_strings(mod, cls_node, e.args[0], depth + 1)
    if isinstance(e, ast.Call) and dotted(e.func) in ("tuple", "list") and not e.args and not e.keywords:
        return []
    if isinstance(e, ast.BinOp) and isinstance(e.op, ast.Add):
        l_, r_ = _listed_strings(mod, cls_node, e.left, depth + 1), _listed_strings(mod, cls_node, e.right, depth + 1)
        return None if l_ is None or r_ is None else l_ + r_
    if isinstance(e, ast.Name):
        stores = [n for n in ast.walk(mod.tree) if isinstance(n, ast.Name) and n.id == e.id and isinstance(n.ctx, (ast.Store, ast.Del))]
        bound = [s_ for s_ in [*mod.tree.body, *cls_node.body] if isinstance(s_, (ast.Assign, ast.AnnAssign)) and s_.value is not None and any(isinstance(t, ast.Name) and t.id == e.id for t in (s_.targets if isinstance(s_, ast.Assign) else [s_.target]))]
        if len(stores) == 1 and len(bound) == 1:
            return _listed_strings(mod, cls_node, bound[0].value, depth + 1)
    return None


def check_cascade_tables(ctx: Ctx) -> None:
    """6.6: a composed MDA hands the tolerance and the iteration budget it is given to its inner MDAs, also when they
    are changed on its settings after construction (the table of cascaded settings lists them)."""
    n = 0
    for rel, mod in sorted(ctx.index.modules.items()):
        if not (rel.startswith("mda/") and rel.endswith("_settings.py")):
            continue
        for cn, c in sorted(mod.classes.items()):
            for st in c.node.body:
                tgt = st.target if isinstance(st, ast.AnnAssign) else (st.targets[0] if isinstance(st, ast.Assign) else None)
                if tgt is None or dotted(tgt) != "_settings_names_to_be_cascaded" or st.value is None:
                    continue
                names = _listed_strings(mod, c.node, st.value)
                if names is None:
                    raise AnalysisError(f"{rel}::{cn}: _settings_names_to_be_cascaded is not a literal")
                if not names:
                    continue  # the base class: nothing is cascaded by default
                n += 1
                missing = sorted({"tolerance", "max_mda_iter"} - set(names))
                ctx.ob("6.6-cascade", cname(rel, cn), not missing, f"{cn} cascades {names} to its inner MDAs but not {missing}: a value set on the composed MDA's settings then stays there, the inner MDAs keep their own (looser) one and the composition returns couplings that are not converged to what was asked", node=st, stmt="tolerance and max_mda_iter are cascaded")
    ctx.floor("6.6-cascade", 2)
    # the cascade ASSIGNS the settings of each sub-MDA (validated assignment): that is what makes a sub-MDA that is
    # itself composed cascade further down; writing the values into its __dict__ stops the cascade at the first level
    CMS = "mda/composed_mda_settings.py"
    g = ctx.index.method(CMS, "ComposedMDASettings", "__cascade_settings")
    con = cname(CMS, "ComposedMDASettings", "__cascade_settings")
    loops = [l_ for l_ in stmts_of(g) if isinstance(l_, ast.For) and norm_stmt(l_.iter) == "self._sub_mdas"]
    ok = len(loops) == 1
    if ok:
        sub = dotted(loops[0].target)
        body_nodes = [n_ for b_ in loops[0].body for n_ in ast.walk(b_)]
        assigns = [c for c in body_nodes if isinstance(c, ast.Call) and ((isinstance(c.func, ast.Attribute) and c.func.attr == "__setattr__" and norm_stmt(c.func.value) == f"{sub}.settings" and len(c.args) == 2) or (dotted(c.func) == "setattr" and len(c.args) == 3 and norm_stmt(c.args[0]) == f"{sub}.settings"))]
        raw = [n_ for n_ in ast.walk(g) if isinstance(n_, ast.Attribute) and n_.attr in ("__dict__", "model_fields_set", "__pydantic_fields_set__")] + [c for c in ast.walk(g) if isinstance(c, ast.Call) and last_attr(c) in ("model_construct", "__setattr__") and dotted(c.func).startswith("object.")]
        inner = [l_ for l_ in body_nodes if isinstance(l_, ast.For) and norm_stmt(l_.iter) == "self._settings_names_to_be_cascaded"]
        ok = len(assigns) == 1 and not raw and len(inner) == 1
        if ok:
            name = dotted(inner[0].target)
            a = assigns[0]
            nm, val = (a.args[0], a.args[1]) if len(a.args) == 2 else (a.args[1], a.args[2])
            svg = SymValues(g)
            ok = dotted(nm) == name and all(t in (f"self.__getattribute__({name})", f"getattr(self, {name})") for t in svg.texts(val))
    ctx.ob("6.6-cascade", con, bool(ok), "every cascaded setting is ASSIGNED (setattr) on the settings of every sub-MDA, with the value it has here: the assignment is validated and makes a composed sub-MDA cascade it to its own sub-MDAs; a write into __dict__ leaves the inner solvers with their old tolerance", node=(loops or [g])[0], stmt="sub_mda.settings.<name> = self.<name> for every cascaded name")


def check_sequential_stop(ctx: Ctx) -> None:
    """6.7: a sequence of MDAs skips the remaining ones only when the residual of the one just run is below the tolerance
    requested on the SEQUENCE (a coarse first MDA converged to its own tolerance is no reason to skip the fine one)."""
    rel = "mda/sequential_mda.py"
    f = ctx.index.method(rel, "MDASequential", "_execute")
    con = cname(rel, "MDASequential", "_execute")
    cfg = cfg_of(f)
    def element(loop: ast.For) -> str | None:
        """The variable bound to the successive MDAs: the target of a loop over the sequence, in order, possibly
        numbered by enumerate."""
        it, tgt = loop.iter, loop.target
        if isinstance(it, ast.Call) and dotted(it.func) == "enumerate" and it.args and isinstance(tgt, ast.Tuple) and len(tgt.elts) == 2:
            it, tgt = it.args[0], tgt.elts[1]
        alts = {norm_stmt(a_) for a_ in (unfolded(f, it) or [it])}
        return dotted(tgt) if alts == {"self.mda_sequence"} and isinstance(tgt, ast.Name) else None

    loops = [s_ for s_ in stmts_of(f) if isinstance(s_, ast.For) and element(s_) is not None]
    ctx.need(len(loops) == 1, "MDASequential._execute: loop over self.mda_sequence not found")
    lv = element(loops[0])
    exits = [s_ for s_ in ast.walk(loops[0]) if isinstance(s_, (ast.Break, ast.Return))]
    for b in exits:
        conds = [(cfg.ast[t].test, v) for t, v in branch_conditions(cfg, cfg.node_of(b)) if cfg.kind[t] == "test" and any(sub is cfg.ast[t] for sub in ast.walk(loops[0]))]
        ok = len(conds) == 1
        if ok:
            test, v = conds[0]
            alts = unfolded(f, test) or [test]
            for a_ in alts:
                cp = compare_parts(a_)
                if not cp:
                    ok = False
                    continue
                l_, op, r_ = cp
                if not v:
                    op = {ast.Lt: ast.GtE, ast.LtE: ast.Gt, ast.Gt: ast.LtE, ast.GtE: ast.Lt}.get(op, op)
                if norm_stmt(r_) == f"{lv}.normed_residual":
                    l_, r_, op = r_, l_, {ast.Lt: ast.Gt, ast.LtE: ast.GtE, ast.Gt: ast.Lt, ast.GtE: ast.LtE}.get(op, op)
                ok = ok and norm_stmt(l_) == f"{lv}.normed_residual" and op in (ast.Lt, ast.LtE) and norm_stmt(r_) == "self.settings.tolerance"
        ctx.ob("6.7-sequential-stop", con, ok, "the sequence may stop early only when `<mda>.normed_residual < self.settings.tolerance`, the tolerance of the sequence itself: compared with the sub-MDA's own (looser) tolerance, the following, finer MDA is skipped and the couplings returned are not converged to what was asked", node=b, stmt="early stop iff residual below the sequence's tolerance")
    runs = [c for c in ast.walk(loops[0]) if isinstance(c, ast.Call) and last_attr(c) == "execute" and dotted(c.func.value) == lv]
    given = arg_or_kw(runs[0], 0, "input_data") if len(runs) == 1 else None
    ok = given is not None and {norm_stmt(a_) for a_ in (unfolded(f, given) or [given])} == {"self.io.data"} and all(cfg.reachable(cfg.node_of(runs[0]), cfg.node_of(b)) for b in exits)
    ctx.ob("6.7-sequential-stop", con, bool(ok), "each MDA of the sequence runs on the data left by the previous one, and the early stop is tested after it ran", node=(runs or loops)[0], stmt="mda.execute(self.io.data) before the stop test")


def run(ctx: Ctx) -> None:
    check_cascade_tables(ctx)
    check_sequential_stop(ctx)
    check_scalings(ctx)
    check_loops(ctx)
    check_predicate(ctx)
    check_resets(ctx)
    check_composition(ctx)
    check_newton_parity(ctx)


# ---------------------------------------------------------------------------
WITNESSES = [
    {"name": "seeded-C06-12", "file": "mda/composed_mda_settings.py", "old": "        \"\"\"Cascade settings to the sub-MDAs.\"\"\"\n        for sub_mda in self._sub_mdas:\n            for setting in self._settings_names_to_be_cascaded:\n                value = self.__getattribute__(setting)\n                sub_mda.settings.__setattr__(setting, value)\n        return self\n", "new": "        \"\"\"Cascade settings to the sub-MDAs.\"\"\"\n        # The values have already been validated by the current model,\n        # so the settings of the sub-MDAs are updated without validating them again.\n        values = {\n            setting: getattr(self, setting)\n            for setting in self._settings_names_to_be_cascaded\n        }\n        for sub_mda in self._sub_mdas:\n            sub_mda.settings.__dict__.update(values)\n        return self\n", "expect": "6.6", "note": "Cascading composed-MDA settings by writing into the sub-MDA settings __dict__ (s"},
    {"name": "seeded-C06-11", "file": "mda/base_mda_solver.py", "old": "                        initial_norm = float(norm(residual[slice_]))\n                        initial_norm = initial_norm if initial_norm != 0.0 else 1.0\n                        scaling_data.append((slice_, initial_norm))\n\n            normalized_norms = []\n            for current_slice, initial_norm in scaling_data:\n                normalized_norms.append(norm(residual[current_slice]) / initial_norm)\n\n            normed_residual = max(normalized_norms)\n\n", "new": "                        initial_norm = float(norm(residual[slice_]))\n                        # A sub-residual that is initially null cannot be scaled.\n                        if initial_norm != 0.0:\n                            scaling_data.append((slice_, initial_norm))\n\n            normalized_norms = [\n                norm(residual[current_slice]) / initial_norm\n                for current_slice, initial_norm in scaling_data\n            ]\n\n            normed_residual = max(normalized_norms, default=0.0)\n\n", "expect": "6.1", "note": "INITIAL_SUBRESIDUAL_NORM scaling drops the coupling variables whose first sub-re"},
    {"name": "seeded-C06-9", "file": "core/derivatives/jacobian_assembly.py", "old": "                        elif isinstance(jacobian_copy, sparse_classes):", "new": "                        elif isinstance(jacobian_copy, csr_matrix):", "expect": "6.5"},
    {"name": "recorded-residual-is-the-output", "file": BS, "old": "                self._current_residuals[name] = residual", "new": "                self._current_residuals[name] = local_data_array", "expect": "6.5"},
    {"name": "resolved-and-residual-variables-swapped", "file": BS, "old": "                if name in self._resolved_variable_names:\n                    input_data_array", "new": "                if name not in self._resolved_variable_names:\n                    input_data_array", "expect": "6.5"},
    {"name": "history-kept-on-warm-start", "file": BS, "old": "        super()._execute()\n        self._sequence_transformer.clear()", "new": "        super()._execute()\n        if not self.settings.warm_start:\n            self._sequence_transformer.clear()", "expect": "6.4"},
    {"name": "composition-feeds-original-residual", "file": CST, "old": "                next_iterate, next_iterate - current_iterate\n", "new": "                next_iterate, residual\n", "expect": "6.5"},
    {"name": "composition-restarts-from-input", "file": CST, "old": "                next_iterate, next_iterate - current_iterate\n", "new": "                iterate, iterate - current_iterate\n", "expect": "6.5"},
    {"name": "inner-settings-override-chain", "file": CHN, "old": "        inner_settings = dict(self.settings.inner_mda_settings) | {\n            name: setting\n            for name, setting in self.settings\n            if name in BaseMDASettings.model_fields\n        }", "new": "        inner_settings = {\n            name: setting\n            for name, setting in self.settings\n            if name in BaseMDASettings.model_fields\n        } | dict(self.settings.inner_mda_settings)", "expect": "6.5"},
    {"name": "enum-member-without-branch", "file": BM, "old": "        NO_SCALING = auto()", "new": "        NO_SCALING = auto()\n        MAX_RESIDUAL_COMPONENT = auto()", "expect": "6.1"},
    {"name": "branch-removed", "file": BS, "old": "        elif scaling == ResidualScaling.N_COUPLING_VARIABLES:\n            if scaling_data is None:\n                scaling_data = residual.size**0.5\n            normed_residual = norm(residual) / scaling_data\n", "new": "", "expect": "6.1"},
    {"name": "gs-snapshot-alias", "file": GS, "old": "            local_data_before_execution = self.io.data.copy()", "new": "            local_data_before_execution = self.io.data", "expect": "6.2"},
    {"name": "jacobi-snapshot-after-run", "file": JA, "old": "            local_data_before_execution = self.io.data.copy()\n            self._execute_disciplines_and_update_local_data()\n", "new": "            self._execute_disciplines_and_update_local_data()\n            local_data_before_execution = self.io.data.copy()\n", "expect": "6.2"},
    {"name": "qn-no-replacement", "file": QN, "old": "        local_data_before_execution = self.io.data\n        self.io.data = local_data_copy\n", "new": "        local_data_before_execution = self.io.data\n", "expect": "6.2"},
    {"name": "gs-break-without-criterion", "file": GS, "old": "            if self._stop_criterion_is_reached:\n                break\n\n            updated_couplings", "new": "            if self._current_iter > 1:\n                break\n\n            updated_couplings", "expect": "6.3"},
    {"name": "nr-criterion-before-residuals", "file": NR, "old": "            self._execute_disciplines_and_update_local_data()\n            self._compute_residuals(local_data_before_execution)\n\n            if self._stop_criterion_is_reached:\n                break\n", "new": "            self._execute_disciplines_and_update_local_data()\n            if self._stop_criterion_is_reached:\n                break\n\n            self._compute_residuals(local_data_before_execution)\n", "expect": "6.3"},
    {"name": "jacobi-second-exit", "file": JA, "old": "            if self._stop_criterion_is_reached:\n                break\n\n            updated_couplings = self._sequence_transformer.compute_transformed_iterate(\n                self.get_current_resolved_variables_vector(),\n                self.get_current_resolved_residual_vector(),\n            )\n\n            self._update_local_data_from_array(updated_couplings)", "new": "            if self._stop_criterion_is_reached:\n                break\n\n            updated_couplings = self._sequence_transformer.compute_transformed_iterate(\n                self.get_current_resolved_variables_vector(),\n                self.get_current_resolved_residual_vector(),\n            )\n\n            self._update_local_data_from_array(updated_couplings)\n            if self._current_iter > 50:\n                return", "expect": "6.3"},
    {"name": "predicate-and", "file": BS, "old": "        return residual_is_small or max_iter_is_reached", "new": "        return residual_is_small and max_iter_is_reached", "expect": "6.3"},
    {"name": "predicate-residual-greater", "file": BS, "old": "residual_is_small = self.normed_residual <= self.settings.tolerance", "new": "residual_is_small = self.normed_residual >= self.settings.tolerance", "expect": "6.3"},
    {"name": "predicate-swapped-return", "file": BS, "old": "        return residual_is_small, max_iter_is_reached", "new": "        return max_iter_is_reached, residual_is_small", "expect": "6.3"},
    {"name": "gs-no-super-execute", "file": GS, "old": "    def _execute(self) -> None:\n        super()._execute()\n        self._execute_disciplines_and_update_local_data()", "new": "    def _execute(self) -> None:\n        self._execute_disciplines_and_update_local_data()", "expect": "6.4"},
    {"name": "solver-keeps-transformer-history", "file": BS, "old": "        super()._execute()\n        self._sequence_transformer.clear()", "new": "        super()._execute()", "expect": "6.4"},
    {"name": "residual-sign-flipped-in-solver", "file": BS, "old": "residual = local_data_array - input_data_array", "new": "residual = input_data_array - local_data_array", "expect": "6.5"},
    {"name": "diag-plus-one", "file": ASM, "old": "fill_diagonal(jacobian_copy, jacobian.diagonal() - 1)", "new": "fill_diagonal(jacobian_copy, jacobian.diagonal() + 1)", "expect": "6.5"},
    {"name": "identity-in-place", "file": ASM, "old": "                        jacobian_copy = jacobian.copy()", "new": "                        jacobian_copy = jacobian", "expect": "6.5"},
    {"name": "missing-block-plus-eye", "file": ASM, "old": "jacobian = -eye(variable_size, dtype=int)", "new": "jacobian = eye(variable_size, dtype=int)", "expect": "6.5"},
    {"name": "rhs-plus-residuals", "file": ASM, "old": "linear_problem = LinearProblem(dres_dy, -residuals)", "new": "linear_problem = LinearProblem(dres_dy, residuals)", "expect": "6.5"},
    {"name": "update-minus-step", "file": NR, "old": "                input_couplings + newton_step,", "new": "                input_couplings - newton_step,", "expect": "6.5"},
    {"name": "linearize-at-live-data", "file": NR, "old": "newton_step = self.__compute_newton_step(local_data_before_execution)", "new": "newton_step = self.__compute_newton_step(self.io.data)", "expect": "6.5"},
    {"name": "identity-on-all-residual-blocks", "file": ASM, "old": "                if is_residual and function == variable:", "new": "                if is_residual:", "expect": "6.5"},
    {"name": "shift-identity-adds", "file": JOP, "old": "        return self - _IdentityOperator(self.shape[0])", "new": "        return self + _IdentityOperator(self.shape[0])", "expect": "6.5"},
]
TWINS = [
    {"name": "snapshot-deepcopy", "file": JA, "old": "            local_data_before_execution = self.io.data.copy()", "new": "            local_data_before_execution = deepcopy(self.io.data)"},
    {"name": "rename-snapshot", "file": NR, "old": "local_data_before_execution", "new": "data_before", "count": 0},
    {"name": "both-signs-flipped", "edits": [
        {"file": ASM, "old": "linear_problem = LinearProblem(dres_dy, -residuals)", "new": "linear_problem = LinearProblem(dres_dy, residuals)"},
        {"file": NR, "old": "                input_couplings + newton_step,", "new": "                input_couplings - newton_step,"},
    ]},
]
